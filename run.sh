#!/bin/bash
# Single entry point: ./run.sh <Cxx> quick|thorough   or   ./run.sh <Cxx> --replay <file>
# Always imports rpylib from /repo's current working tree (PYTHONPATH, fresh process, no bytecode reuse).
set -u
HERE="$(cd "$(dirname "$0")" && pwd)"
REPO="${VERIF_REPO:-/repo}"
export PYTHONPATH="$HERE:$HERE/shims:$REPO"
export PYTHONHASHSEED=0
export PYTHONDONTWRITEBYTECODE=1
export SYMPY_GROUND_TYPES=python
export OMP_NUM_THREADS=1 OPENBLAS_NUM_THREADS=1 MKL_NUM_THREADS=1
export MPLBACKEND=Agg
export RPYLIB_VERIF=1
export VERIF_REPO="$REPO"
PY="${VERIF_PYTHON:-/venv/bin/python}"
cd "$HERE"
"$PY" -m mc.main "$@"
rc=$?
if [ "${2:-}" = "quick" ] || [ "${2:-}" = "thorough" ]; then
  pid="$(echo "$1" | tr a-z A-Z)"
  EVD="${VERIF_EVIDENCE_DIR:-$HERE/evidence}"
  if [ -f "$EVD/$pid.json" ] && command -v python3-vt >/dev/null 2>&1; then
    python3-vt "$HERE/mc/validate_evidence.py" "$EVD/$pid.json" || { [ $rc -eq 0 ] && rc=2; }
  fi
fi
exit $rc
