#!/usr/bin/env python3
"""Regenerates the generated blocks of DESIGN.md (between <!-- BEGIN GENERATED: x --> / <!-- END GENERATED: x -->) from
known_findings.json, the fix commits of /repo and /verif/seeded/*/meta.json."""
import glob
import json
import re
import subprocess

D = "/verif/DESIGN.md"


def findings_block():
    data = json.load(open("/verif/known_findings.json"))["findings"]
    log = subprocess.run(["git", "-C", "/repo", "log", "--format=%h %s", "--reverse"], capture_output=True, text=True).stdout.strip().split("\n")
    subj = {l.split()[0]: l.split(" ", 1)[1] for l in log if " fix:" in " " + l}
    by_commit = {}
    for e in data:
        if e["status"] == "fixed":
            by_commit.setdefault(e["commit"], []).append(e)
    out = ["| commit | repair (subject of the `fix:` commit) | properties / violation keys it answers |", "|---|---|---|"]
    seen = set()
    for h, s in subj.items():
        es = by_commit.get(h, [])
        props = sorted({e["property"] for e in es})
        keys = "; ".join(f"`{e['key']}`" for e in es) or "(found through the check of the property named in the subject)"
        out.append(f"| {h} | {s[5:]} | {', '.join(props)}: {keys} |")
        seen.add(h)
    for h, es in by_commit.items():
        if h not in seen:
            out.append(f"| {h} | (commit not found in /repo log) | {es[0]['property']}: `{es[0]['key']}` |")
    out.append("")
    out.append(f"{len(subj)} `fix:` commits; every one kept the repository's 37 tests passing (`37 passed, 3 errors` is the baseline summary line).")
    out.append("")
    out.append("Open known findings (the check prints `KNOWN-FINDING:` and exits 0; any other key still fails):")
    out.append("")
    for e in data:
        if e["status"] == "open":
            out.append(f"* {e['property']} `{e['key']}` - {e['what']} Minimal input: {e['minimal_input']}.")
    return "\n".join(out)


def seeded_block():
    rows = []
    for f in sorted(glob.glob("/verif/seeded/*/meta.json")):
        m = json.load(open(f))
        name = f.split("/")[-2]
        det = m.get("detected_by", {})
        caught = [c for c, v in det.items() if v["exit"] != 0]
        first = ""
        for c in caught:
            fv = det[c]["first_violations"]
            if fv:
                first = fv[0].split(" occurrences")[0].replace("key=", "")
                break
        what = (m.get("what") or "").replace("|", "/").replace("\n", " ")
        needs = (m.get("needs") or "").replace("|", "/").replace("\n", " ")
        rows.append(f"| {name} | {what[:230]} | {needs[:200]} | {', '.join(caught) if caught else '**missed**'} | `{first[:150]}` |")
    n = len(rows)
    missed = sum(1 for r in rows if "**missed**" in r)
    head = [f"{n} confirmed seeded changes (each: applies on a clean worktree, repository tests still `37 passed`, demonstration fails with the change and passes without); "
            f"{n - missed} are caught by the quick tier of the named check(s), {missed} are not.", "",
            "| id | change | needs, to manifest | caught by | first violation key |", "|---|---|---|---|---|"]
    return "\n".join(head + rows)


def benign_block():
    rows = []
    for f in sorted(glob.glob("/verif/benign/*/meta.json")):
        m = json.load(open(f))
        name = f.split("/")[-2]
        ch = m.get("checks", {})
        alarms = [c for c, v in ch.items() if v["exit"] != 0]
        what = (m.get("what") or "").replace("|", "/").replace("\n", " ")
        rows.append(f"| {name} | {m.get('kind') or ''} | {what[:260]} | {', '.join(sorted(ch))} | {'silent' if not alarms else '**ALARM** ' + ', '.join(alarms)} |")
    n = len(rows)
    bad = sum(1 for r in rows if "**ALARM**" in r)
    head = [f"{n} confirmed property-preserving changes (each: applies on a clean worktree, repository tests still `37 passed`, an independent "
            f"demonstration of the property passes with and without the change); the quick tier of the named check(s) stays silent on {n - bad} of them"
            + ("." if not bad else f", raises an alarm on {bad}."), "",
            "| id | kind | change | checks run | result |", "|---|---|---|---|---|"]
    return "\n".join(head + rows)


def main():
    s = open(D).read()
    for name, fn in (("findings", findings_block), ("seeded", seeded_block), ("benign", benign_block)):
        b, e = f"<!-- BEGIN GENERATED: {name} -->", f"<!-- END GENERATED: {name} -->"
        if b in s:
            s = re.sub(re.escape(b) + ".*?" + re.escape(e), lambda m: b + "\n" + fn() + "\n" + e, s, flags=re.S)
    open(D, "w").write(s)


if __name__ == "__main__":
    main()
