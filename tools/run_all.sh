#!/bin/bash
# tools/run_all.sh quick|thorough [ids...] : runs the registered checks one after the other, prints one summary line each
tier="${1:-quick}"; shift
ids="$@"; cd "$(dirname "$0")/.."
[ -z "$ids" ] && ids=$(python3 -c "import json;print(' '.join(c['property_id'] for c in json.load(open('MANIFEST.json'))['checks']))")
cd "$(dirname "$0")/.."
for c in $ids; do
  s=$(date +%s)
  out=$(./run.sh $c $tier 2>&1); rc=$?
  e=$(date +%s)
  echo "$c rc=$rc $((e-s))s | $(echo "$out" | grep -E "^$c $tier:" | tail -1)"
  echo "$out" | grep -E "VIOLATION|NONDETERMINISM|SELF-CHECK|EVIDENCE INVALID|NOTE:" | head -5
done
