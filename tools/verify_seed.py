#!/usr/bin/env python3
"""Confirm a seeded property-breaking change and record it under /verif/seeded/<ID>-<X>/.

usage: tools/verify_seed.py <ID> <X> [--checks C01,C02] [--tier quick] [--root /tmp/seed2 --tag r2]

For /tmp/seed/<ID>/{X.diff, demo_X.py, meta_X.json} and the scratch worktree /tmp/seed/<ID>/wt:
  1. worktree clean -> demo must exit 0
  2. git apply X.diff -> repository tests must still give '37 passed' -> demo must exit != 0
  3. run the registered check(s) against the patched worktree (VERIF_REPO=wt ./run.sh <Cxx> <tier>) and record exit code and
     the first VIOLATION lines
  4. git checkout -- . (worktree clean again)
Writes /verif/seeded/<ID>-<X>/{patch.diff, demo.py, meta.json}.
"""
import json
import os
import shutil
import subprocess
import sys
import time


def sh(cmd, cwd=None, timeout=3600, env=None):
    r = subprocess.run(cmd, shell=True, cwd=cwd, capture_output=True, text=True, timeout=timeout, env=env)
    return r.returncode, r.stdout + r.stderr


def main():
    pid, x = sys.argv[1], sys.argv[2]
    checks = [pid]
    tier = "quick"
    if "--checks" in sys.argv:
        checks = sys.argv[sys.argv.index("--checks") + 1].split(",")
    if "--tier" in sys.argv:
        tier = sys.argv[sys.argv.index("--tier") + 1]
    root = "/tmp/seed"
    tag = ""
    if "--root" in sys.argv:
        root = sys.argv[sys.argv.index("--root") + 1]
    if "--tag" in sys.argv:
        tag = sys.argv[sys.argv.index("--tag") + 1] + "-"
    base = f"{root}/{pid}"
    wt = f"{base}/wt"
    diff, demo, meta = f"{base}/{x}.diff", f"{base}/demo_{x}.py", f"{base}/meta_{x}.json"
    out = {"property": pid, "variant": x, "ran": []}
    rc, o = sh("git status --short", cwd=wt)
    if o.strip():
        sh("git checkout -- .", cwd=wt)
    # the scratch worktree follows /repo's HEAD (fix: commits made since the worktree was created), so that the checks of
    # /verif, which describe the current tree, are not run against an older base
    repo_head = sh("git rev-parse HEAD", cwd="/repo")[1].strip()
    sh(f"git checkout -q --detach {repo_head}", cwd=wt)
    head = sh("git rev-parse --short HEAD", cwd=wt)[1].strip()
    out["base_commit"] = head
    rc0, o0 = sh(f"/venv/bin/python demo_{x}.py", cwd=base, timeout=600)
    out["ran"].append({"cmd": f"demo_{x}.py on clean worktree", "exit": rc0})
    rca, oa = sh(f"git apply {diff}", cwd=wt)
    if rca != 0:
        print("patch does not apply:", oa)
        return 2
    try:
        rct, ot = sh("/venv/bin/python -m pytest -q -p no:cacheprovider --timeout=900 --continue-on-collection-errors 2>&1 | tail -1", cwd=wt)
        out["ran"].append({"cmd": "repository tests with the change", "result": ot.strip()})
        rc1, o1 = sh(f"/venv/bin/python demo_{x}.py", cwd=base, timeout=600)
        out["ran"].append({"cmd": f"demo_{x}.py with the change", "exit": rc1, "tail": o1.strip()[-400:]})
        out["detected_by"] = {}
        for c in checks:
            env = dict(os.environ, VERIF_REPO=wt, VERIF_EVIDENCE_DIR=f"{base}/evidence", VERIF_REPLAY_DIR=f"{base}/replays")
            t0 = time.time()
            rcc, oc = sh(f"./run.sh {c} {tier}", cwd="/verif", env=env, timeout=7200)
            viol = [l.strip() for l in oc.splitlines() if "key=" in l][:4]
            out["detected_by"][c] = {"tier": tier, "exit": rcc, "first_violations": [v[:300] for v in viol], "wall_s": round(time.time() - t0, 1)}
            # evidence / replays written by that run belong to the patched tree: remove the replay files it created
    finally:
        sh("git checkout -- .", cwd=wt)
    rc2, o2 = sh(f"/venv/bin/python demo_{x}.py", cwd=base, timeout=600)
    out["ran"].append({"cmd": f"demo_{x}.py after reverting", "exit": rc2})
    ok = rc0 == 0 and "37 passed" in ot and rc1 != 0 and rc2 == 0
    out["confirmed"] = ok
    try:
        out["author_meta"] = json.load(open(meta))
    except Exception as e:  # noqa
        out["author_meta"] = {"error": str(e)}
    out["needs"] = out["author_meta"].get("needs") or out["author_meta"].get("needs_to_manifest")
    out["what"] = out["author_meta"].get("what") or out["author_meta"].get("what_changes")
    dst = f"/verif/seeded/{pid}-{tag}{x}"
    if ok:
        os.makedirs(dst, exist_ok=True)
        if os.path.exists(f"{dst}/meta.json"):  # keep what earlier runs recorded for other checks
            try:
                old = json.load(open(f"{dst}/meta.json")).get("detected_by", {})
                out["detected_by"] = {**old, **out["detected_by"]}
            except Exception:  # noqa
                pass
        shutil.copy(diff, f"{dst}/patch.diff")
        shutil.copy(demo, f"{dst}/demo.py")
        json.dump(out, open(f"{dst}/meta.json", "w"), indent=1)
    print(json.dumps({k: out[k] for k in ("confirmed", "detected_by", "what")}, indent=1)[:3000])
    print("tests:", ot.strip(), "| demo clean/patched/reverted:", rc0, rc1, rc2)
    return 0 if ok else 1


if __name__ == "__main__":
    sys.exit(main())
