#!/usr/bin/env python3
"""Confirm a property-PRESERVING change and record whether the registered check stays silent on it.

usage: tools/verify_benign.py <ID> <X> [--checks C01,C02] [--tier quick] [--root /tmp/benign] [--tag b2]

For <root>/<ID>/{X.diff, demo_X.py, meta_X.json} and the scratch worktree <root>/<ID>/wt:
  1. worktree clean -> demo must exit 0
  2. git apply X.diff -> repository tests must still give '37 passed' -> demo must still exit 0
  3. run the registered check(s) against the patched worktree (VERIF_REPO=wt ./run.sh <Cxx> <tier>): exit 0 expected
  4. git checkout -- . (worktree clean again)
Writes /verif/benign/<ID>-<X>/{patch.diff, demo.py, meta.json}. An alarm here is a FALSE alarm unless the change turns out not to
preserve the property (then it belongs to seeded/, not here).
"""
import json
import os
import shutil
import subprocess
import sys
import time


def sh(cmd, cwd=None, timeout=3600, env=None):
    r = subprocess.run(cmd, shell=True, cwd=cwd, capture_output=True, text=True, timeout=timeout, env=env)
    return r.returncode, r.stdout + r.stderr


def main():
    pid, x = sys.argv[1], sys.argv[2]
    checks = [pid]
    tier = "quick"
    root = "/tmp/benign"
    if "--checks" in sys.argv:
        checks = sys.argv[sys.argv.index("--checks") + 1].split(",")
    if "--tier" in sys.argv:
        tier = sys.argv[sys.argv.index("--tier") + 1]
    if "--root" in sys.argv:
        root = sys.argv[sys.argv.index("--root") + 1]
    tag = ""
    if "--tag" in sys.argv:
        tag = sys.argv[sys.argv.index("--tag") + 1] + "-"
    base = f"{root}/{pid}"
    wt = f"{base}/wt"
    diff, demo, meta = f"{base}/{x}.diff", f"{base}/demo_{x}.py", f"{base}/meta_{x}.json"
    out = {"property": pid, "variant": x, "ran": []}
    rc, o = sh("git status --short", cwd=wt)
    if o.strip():
        sh("git checkout -- .", cwd=wt)
    # the scratch worktree follows /repo's HEAD (fix: commits made since the worktree was created), so that the checks of
    # /verif, which describe the current tree, are not run against an older base
    repo_head = sh("git rev-parse HEAD", cwd="/repo")[1].strip()
    sh(f"git checkout -q --detach {repo_head}", cwd=wt)
    out["base_commit"] = sh("git rev-parse --short HEAD", cwd=wt)[1].strip()
    rc0, o0 = sh(f"/venv/bin/python demo_{x}.py", cwd=base, timeout=600)
    out["ran"].append({"cmd": f"demo_{x}.py on clean worktree", "exit": rc0})
    rca, oa = sh(f"git apply {diff}", cwd=wt)
    if rca != 0:
        print("patch does not apply:", oa)
        return 2
    try:
        rct, ot = sh("/venv/bin/python -m pytest -q -p no:cacheprovider --timeout=900 --continue-on-collection-errors 2>&1 | tail -1", cwd=wt)
        out["ran"].append({"cmd": "repository tests with the change", "result": ot.strip()})
        rc1, o1 = sh(f"/venv/bin/python demo_{x}.py", cwd=base, timeout=600)
        out["ran"].append({"cmd": f"demo_{x}.py with the change", "exit": rc1, "tail": o1.strip()[-400:]})
        out["checks"] = {}
        for c in checks:
            env = dict(os.environ, VERIF_REPO=wt, VERIF_EVIDENCE_DIR=f"{base}/evidence", VERIF_REPLAY_DIR=f"{base}/replays")
            t0 = time.time()
            rcc, oc = sh(f"./run.sh {c} {tier}", cwd="/verif", env=env, timeout=7200)
            viol = [l.strip() for l in oc.splitlines() if "key=" in l or "SELF-CHECK" in l or "Traceback" in l][:6]
            out["checks"][c] = {"tier": tier, "exit": rcc, "alarms": [v[:400] for v in viol], "wall_s": round(time.time() - t0, 1)}
    finally:
        sh("git checkout -- .", cwd=wt)
    ok = rc0 == 0 and "37 passed" in ot and rc1 == 0
    out["confirmed_preserving_by_demo_and_tests"] = ok
    out["silent"] = all(v["exit"] == 0 for v in out["checks"].values())
    try:
        out["author_meta"] = json.load(open(meta))
    except Exception as e:  # noqa
        out["author_meta"] = {"error": str(e)}
    out["what"] = out["author_meta"].get("what")
    out["kind"] = out["author_meta"].get("kind")
    dst = f"/verif/benign/{pid}-{tag}{x}"
    if ok:
        os.makedirs(dst, exist_ok=True)
        shutil.copy(diff, f"{dst}/patch.diff")
        shutil.copy(demo, f"{dst}/demo.py")
        json.dump(out, open(f"{dst}/meta.json", "w"), indent=1)
    print(json.dumps({k: out[k] for k in ("confirmed_preserving_by_demo_and_tests", "silent", "checks", "what")}, indent=1)[:3000])
    print("tests:", ot.strip(), "| demo clean/patched:", rc0, rc1)
    return 0 if ok and out["silent"] else 1


if __name__ == "__main__":
    sys.exit(main())
