"""Minimal stand-in for gmpy2 (not installed in this sandbox, nothing can be fetched).

rpylib.tools.generic imports ``qdiv`` only.  gmpy2.qdiv(a, b) is exact rational division
(it returns an mpz when the quotient is integral, an mpq otherwise); fractions.Fraction has
the same value semantics for the operations rpylib applies to the result (floor, %).
Part of the trusted base of every check; never placed in /repo.
"""
from fractions import Fraction


def qdiv(a, b=1):
    return Fraction(a, b)


def version():
    return "0.0.0"
