"""Identity stand-in for tqdm (not installed in this sandbox)."""


def tqdm(iterable=None, *args, **kwargs):
    return iterable


def trange(*args, **kwargs):
    return range(*args)
