"""C02 - every state sampler realises exactly the target law, independent of call history.

The samplers are deterministic piecewise-constant maps u -> state. The law is the vector of total lengths of the pieces and is
recovered exactly (lattice probing where the break points provably lie on a lattice, partition recovery by bisection to
1 ulp elsewhere), never estimated by sampling.

Sub-checks
 raw        alias, binary search tree, Huffman tree on EVERY weak composition of D units into K parts (p = j/D; zeros, ties,
            dominant entries included), K <= 5 (6 thorough), D = 16 (+ 12, 10 thorough), probed at the mid-point of every cell
            of the lattice 1/(K D): all break points of these samplers on such targets lie on that lattice, so the INTEGER
            count per state must equal p_k K D exactly. The "never" clause is judged on single floats as well: every point
            j/D and x/K (the break points themselves), the float on either side of it, 0 and (D = 16: exact sums) 1-2^-53
            must give a state of positive probability inside the range. CALLER'S ARRAY: the vector is handed over as an array
            that is compared with a copy once the constructor has returned (must be unchanged) and then overwritten by
            another probability vector before the first draw (the sampler must not read it any more: keys
            constructor-modifies-the-caller-s-vector / keeps-a-reference-to-the-caller-s-vector).
 rawx       hand-listed extremes (tiny / dominant / tied / zero entries, a unit vector, the vector of ONE entry; K <= 11) by
            partition recovery; the batch call against the single entry (see rawbig). ARGUMENT FORM: each vector also as
            list, tuple, non-contiguous view, read-only array (and, 0/1 vectors, integer array, boolean array, list of ints):
            the recovered pieces must be those of the float array, the table method must give the same answers on 64
            scripted words.
 rawbig     vectors of 257, 300 and 1000 entries (1024 and 4096 in thorough): linear, geometric blocks with ties and zeros,
            uniform, three dominant entries + a long tail; alias / tree / Huffman by partition recovery, the table method (on
            the dominant and thresholds vectors, whose tables have direct and residual slots) by `table_law`. Index dtypes,
            the incomplete last level of the implicit heap and long tie runs of the Huffman heap only show at these sizes.
            Shape "thresholds" = vectors LONGER THAN THE SMALL INTEGER TYPES: K = 300, 32771 and 65539 (thorough: also 128,
            129, 256, 32768, 32769, 40001, 65536, 65537, 70001 and the dense linear vector of 70001 entries), zero except at
            the indices 0, 127, 128, 255, 256, 32767, 32768, 65535, 65536 and K - 1, where p = (m + f)/256 with m >= 1 (each of
            these states owns slots of the 256-slot table), growing with the index, the fractional parts summing to 2 (two
            residual slots): all four samplers, exact law (sweep of 2^17 probes + every alias column edge; the table by
            `table_law`). Violation keys of these sizes end in :more-than-32768-entries / :more-than-65536-entries.
            For every vector the public batch call sample(size) on scripted uniforms (first float of up to 120 pieces, the
            float before, 0, top; table: 352 scripted words incl. every low byte) equals the element-wise single entry, with
            the size as Python int, numpy int64 / int32 and 0-d array (the path simulators pass numpy Poisson numbers);
            sample(0) is empty.
 rawtable   table method = function of a 32-bit integer (seam random.getrandbits; the seam answers a request for n bits with
            the n leading bits of the scripted word, as the environment would): for each of the 256 low bytes the map
            "upper 24 bits -> state" is recovered exactly by integer bisection (a low byte whose answer does not depend on 4
            spread upper parts is counted as one direct slot); the law must be p within 2^-20. Vectors: compositions with D
            in {16, 12, 10} (16: all multiples of 1/256). Only the law is judged, not the layout of the table.
 chain      samplers built by the public factory (MarkovChainProcess / MarkovChainLevyCopula with every sampling method the
            constructor accepts): partition recovery of the single-uniform entry point, compared with the target law
            mass(cell)/intensity computed on reference cells. A state of target probability exactly 0, a state off the grid
            or the origin is a violation on ANY probe (all break points +- 1 ulp, 0, 1-2^-53, the column edges of the alias
            table), whatever the length of the piece. The batch call (one u at the start of up to 400 pieces, the float
            before it, 0, top) equals the element-wise single-uniform call (numpy.random.uniform seam; the seam answers
            low + (high-low) w for the scripted fractions w, so a request for another interval is seen in the answers; the
            table method: sample(96) against 96 x sample(1) on scripted words). ARGUMENT FORM (4b, every chain case, 12
            uniforms spread over the pieces): the size of the batch as numpy int64 / int32 / 0-d array, an empty batch
            followed by a batch of one, and the uniform of the single entry point as numpy float64, as 0-d array and
            (u = 0) as Python int give the answers of the usual form. The inversion sampler's hidden
            numpy.random.choice is an enumerated environment answer (first / last element): any u whose result depends on
            it beyond the last (8 + number of states) ulps of [0,1) is a violation. Inversion also under a scaled-down log
            (`_max_storage` below the number of states); if the log then grows beyond it the scaled regime was not reached
            and a cap is recorded (the run is not exhaustive), not an alarm.
            Alphabet (quick): 1-d: HEM, VG, CGMY 0.5 / 1.2, exp-Merton x {fixed 3 / 5 points, uniform (model truncation),
            geometric (model truncation), geometric with bounds, probability step, credit (threshold moved to 0.8 l when
            0.5 l does not fit: VG)} x refinement 0 / 1 x 6 methods; the "reinit" construction twin of each family
            (mc.alphabets.with_reinit) on one grid; ONE-SIDED model (HEM p = 1; p = 0 is refused by the library: the
            states of the negative half axis have probability exactly 0) on fixed / geometric-bounds / hand-made grids;
            hand-made CTMCGrid axes with ONE point on one side of the origin and several on the other (both orientations);
            the smallest chain (the origin and ONE state, HEM p = 1 on the axis [0, h]);
            a 400-state chain (h = 0.01, 401 points; every method but the table). 2-d (inversion, adapted tree): Clayton pairs (one with eta = 1: the mixed-sign
            quadrants have probability 0), independent and complete-dependence copula, one one-sided margin x {fixed 3 / 5
            (refined once too), credit symmetric / asymmetric, uniform by model truncation (a model whose left bound falls
            within h keeps ONE left point), geometric (model) and geometric with bounds, hand-made one-point half axes}.
            MARKEDLY FEWER POINTS ON ONE SIDE of the origin than on the other, several on both, AND THE MIRROR IMAGE (the
            shells of the n-d pairing then leave the short side - negative coordinates on the left, coordinates >= size on
            the right - long before the long side is exhausted): hand-made axes 2 / 6 and 6 / 2 (uniform steps), 3 / 9 and
            9 / 3 (non-uniform steps), 2 / 6 with a different axis per coordinate in both orders, and the uniform grid the
            library derives (truncation probability 0.999, h = 0.1) from HEM margins with small negative resp. small
            positive jumps (2 / 7 and 7 / 2 points); thorough: also the other Clayton pair, refined once, p = 0.99999
            (3 / 12).
            3-d: fixed 3^3, 5^3, hand-made one-point half axis (4^3), hand-made 2 / 5 and 5 / 2 points (8^3: the long side is
            three points longer, so that a complete shell holds coordinates two beyond the short end).
            4-d: fixed 3^4 (adapted tree; inversion in thorough).
            For the samplers that memoise (inversion, adapted trees; unrefined grids) the law is recovered once more on a sampler
            built AFTER a sampler of another model was built and used on the same grid object, and that other sampler
            must answer as before afterwards.
            Not judged: a state of probability 0 or the origin returned within the last (8 + number of states) ulps of
            [0, 1): the float sum of the target vector may fall short of 1 there (counted as rounding-zone-answers); a
            state of probability 0 returned by an ADAPTED tree on one interior float (u > 0): these trees descend on masses
            of unions of cells, which are the sums of the cell masses up to rounding only (counted). The origin and states
            off the grid are judged on every float, for every sampler.
 chainbig   n-d chains with >= 10 001 points on their axes together (2-d 5001 x 5001, h = 0.0004; thorough: a second model and
            3-d 3335^3): the adapted tree then bisects its AXIS buckets too instead of reading pre-computed cumulative sums.
            25 million states cannot be recovered completely: a sweep of 4096 uniforms, then for up to 12 spread states of
            each class met (each axis, off the axes) the whole interval of uniforms mapped to the state (doubling steps +
            bisection to neighbouring floats) must have the length mass(reference cell) / intensity (1e-12 + 1e-9 rel.);
            origin / off-grid answers judged on every probe; the sweep drawn again downwards on the same object and in one
            batch call on a fresh one.
 history    explicit-state search (BFS) over operation histories on ONE sampler object, for every method (inversion with the
            library's and with shrunk logs, adapted trees 1-d / n-d driven with a RE-USED argument array, alias, tree,
            Huffman, table), 1-d, 2-d and 3-d chains, including a one-point half axis, a 2-d grid with 2 points left / 6 right
            of the origin (inversion with a shrunk log, adapted tree) and the one-sided model.
            Events: a draw at every u of the menu (one u per state interval, the first u of a middle piece, 0, top;
            thinned to 14 / 12 / 10 / 8 values with the cost of the chain); a batch call sample(3) on a sub-menu of 5;
            and, at most once per history and anywhere before its last draw, an operation without a draw:
            the public cost reset (process.reset_one_simulation_cost + sampling.reset_sampling_cost: what the engines call
            between runs); copy.deepcopy of the process (what next_level does); a dill round trip of the process (what the
            pathos pool does); copy.copy of the process and of its sampler (containers shared with the original) - in all
            three the copy is used from then on, and the ORIGINAL is drawn from at the sub-menu right after the copy was
            taken (it must answer as before, and the copy must not notice); a SECOND sampler of the same method for
            another model built on the same grid object and drawn from at the sub-menu. Every draw of the menu is tried
            right after each operation. Histories hold up to 3 draw-bearing events for the inversion sampler (4 in thorough) and 2
            (3) for the samplers that only hold caches of pure values. Invariant: every answer equals the answer of a fresh
            sampler for the same u; the second sampler answers as its fresh twin (same draws, own copy of the grid).
            ACCUMULATION: after the search ONE sampler is drawn at the mid-point of every piece (up to 240) downwards,
            upwards, after a cost reset in steps of 7, after a deepcopy in steps of 11 on the copy, and in one batch call
            (several hundred draws on one object); every answer must be the one of the first sampler of the case.
            Canonical state = digest of the integer / float / string attributes and container sizes of the sampler and of
            the rpylib.distribution objects it owns (cost counters excluded: memo length, _last_projected_index,
            _index_after_last_logged, _switch/_kk if they exist ...) + for cache-only samplers the set of u drawn + the
            pending operation when the last event was one.
Exclusions (statement silent / not reachable): grid.refine() after the sampler was built (the target law itself changes);
 n-d probability-step grids (their middle() is one-dimensional; C13); n-d grids whose axes have UNEQUAL LENGTHS (no grid class
 of the library builds them: "fixed length across all axes", spatial.py; a hand-made one raises IndexError); model-truncated grids for one-sided models (the
 truncation helper divides by the mass of the empty side); a complete recovery of the law on chains of >= 10 001 points
 (chainbig judges selected states); chains of more than 32768 states through the factory (the table method's exact law on a
 dense vector of that length costs 10^8 draws: the size classes are covered on the sampler classes themselves, rawbig);
 probability vectors of shape (1, n) / (n, 1) and the empty vector (refused or not a probability vector); the uniform of
 the n-d adapted tree's sample_with_us in another form than a float array (it is documented to work in place on the array it
 is given; a 0-d ARRAY handed to the 1-d adapted tree's sample_with_u is also decremented in place: counted as
 outside the statement, the answer itself is judged); a two-sided companion model on the one-state grid; the diffusion matrix of the copula chain (its pathos pool is answered by
 zeros while the constructor runs); numpy's Generator API (the seams patch numpy.random.uniform / choice, which is what the
 library calls).
Assumption (stated in the evidence): partition recovery starts from a dyadic sweep of n0 >= 16 x (number of states) probes;
 a piece that starts and ends strictly between two neighbouring probes that agree would be missed.
"""
from __future__ import annotations

import collections
import copy
import itertools
import math

import numpy as np

from mc import alphabets as A
from mc import core
from mc import oracle as O

PID = "C02"
LEVEL = "model_checking"
RULE = (
    "raw: every weak composition of D units into K parts for the stated (K, D), each probed on the complete lattice 1/(KD) and on "
    "both sides of every possible break point; rawbig: the stated long vectors; "
    "chain: every (model, grid, refinement, sampling method) of the stated lattice, law recovered by bisection to 1 ulp; "
    "chainbig: the stated sweep and selected states of chains with >= 10001 axis points; "
    "history: BFS over operation histories (draws, cost reset, deepcopy / copy.copy / dill round trip with the original used "
    "further, batch call, second sampler on the grid) up to the stated depth, then one long run of several hundred draws; "
    "a case is non-trivial when a law with at least two states of "
    "positive probability was compared; states/transitions are those of the history search"
)
ASSUMPTIONS = [
    "partition recovery: no piece of the map u -> state lies strictly between two neighbouring agreeing probes of the initial "
    "dyadic sweep (n0 >= 16 x number of states)",
    "target law of a chain sampler = process.model.mass(reference cell) / process.intensity_of_jumps (cells re-derived from "
    "the axes with the grid's own middle()); the masses themselves are the subject of C01 / C09 / C12",
    "inversion sampler: _max_storage shrunk below the number of states is a scaled-down model of the overflow regime at 10^6 "
    "(labelled 'scaled'); a cap is recorded when the sampler does not honour it",
]
CHUNK = 1
ONE_MINUS = 1.0 - 2.0 ** -53
ULP = 2.0 ** -52


# ----------------------------------------------------------------------------------------------------------------------
# partition recovery
# ----------------------------------------------------------------------------------------------------------------------

def recover_partition(f, n0, lo=0.0, hi=1.0, max_pieces=100000, extra=()):
    """Pieces of the piecewise-constant map f on [lo, hi): list of (start, state), starts increasing.
    f is probed at lo + i (hi-lo)/n0, at points approaching both ends geometrically (lo + (hi-lo) 2^-k and hi - (hi-lo) 2^-k,
    k = 1..60: pieces of any size glued to an end are seen) and at the caller's extra points (e.g. the column edges of an
    alias table); between neighbouring probes that differ the break point is located by bisection to 1 ulp, splitting again
    if a third state appears (a contiguous piece between two different neighbours is always found this way)."""
    top = math.nextafter(hi, -math.inf)
    xs = {lo + (hi - lo) * i / n0 for i in range(n0)}
    for k in range(1, 61):
        xs.add(lo + (hi - lo) * 2.0 ** -k)
        xs.add(hi - (hi - lo) * 2.0 ** -k)
    xs.update(x for x in extra if lo <= x <= top)
    xs.add(top)
    xs = sorted(x for x in xs if lo <= x <= top)
    vals = [f(x) for x in xs]
    pieces = [(xs[0], vals[0])]
    evals = len(xs)

    def refine(a, fa, b, fb):
        nonlocal evals
        # invariant: f(a) = fa != fb = f(b), a < b
        while True:
            m = a + (b - a) / 2
            if m <= a or m >= b:
                pieces.append((b, fb))
                return
            fm = f(m)
            evals += 1
            if fm == fa:
                a = m
            elif fm == fb:
                b = m
            else:
                refine(a, fa, m, fm)
                refine(m, fm, b, fb)
                return

    for i in range(len(xs) - 1):
        if vals[i] != vals[i + 1]:
            refine(xs[i], vals[i], xs[i + 1], vals[i + 1])
            if len(pieces) > max_pieces:
                raise RuntimeError("too many pieces")
    return pieces, evals, hi


def lengths(pieces, hi):
    out = {}
    for (s, st), nxt in zip(pieces, pieces[1:] + [(hi, None)]):
        out[st] = out.get(st, 0.0) + (nxt[0] - s)
    return out


def where_returned(pieces, hi, state):
    """(start, length) of the first piece that returns `state`."""
    for (s, st), nxt in zip(pieces, pieces[1:] + [(hi, None)]):
        if st == state:
            return s, nxt[0] - s
    return None, 0.0


def where_class(at, ln, hi=1.0):
    """suffix of the failure class of a 'never' clause by where the offending piece lies: a set of positive length, the
    single float u = 0, or another single float (pieces of at most 1e-12)."""
    if ln > 1e-12:
        return ""
    return "-at-u=0" if at == 0.0 else "-at-single-float"


def compositions(D, K):
    if K == 1:
        yield (D,)
        return
    for j in range(D + 1):
        for rest in compositions(D - j, K - 1):
            yield (j,) + rest


# ----------------------------------------------------------------------------------------------------------------------
# environment seams (scripted answers of the random sources the library consumes)
# ----------------------------------------------------------------------------------------------------------------------

def word_for(i, nbits):
    """Answer of random.getrandbits(nbits) when the scripted random fraction is i / 2^32: its nbits leading bits."""
    nbits = int(nbits)
    return (i >> (32 - nbits)) if nbits <= 32 else (i << (nbits - 32))


def uniform_answer(us, hi):
    """Answer of numpy.random.uniform(low, high, size) for the scripted values us of [0, hi): the values themselves when the
    library asks for [0, hi) (what the single-uniform entry point was recovered on), the affine image of the fractions
    us / hi otherwise; as many values as asked for (the script is repeated / cut)."""
    base = np.array(us, dtype=float)

    def fake(low=0.0, high=1.0, size=None):
        n = 1 if size is None else int(np.prod(size))
        arr = np.resize(base, n).astype(float)
        if not (float(low) == 0.0 and float(high) == float(hi)):
            arr = float(low) + (float(high) - float(low)) * (arr / hi)
        return arr if size is not None else float(arr[0])

    return fake


def first_choice(a, *args, **kw):
    return list(a)[0]


def last_choice(a, *args, **kw):
    return list(a)[-1]


class hidden_choice:
    """numpy.random.choice answered by `answer` inside the block."""

    def __init__(self, answer=first_choice):
        self.answer = answer

    def __enter__(self):
        import numpy.random as npr

        self.npr = npr
        self.orig = npr.choice
        npr.choice = self.answer
        return self

    def __exit__(self, *exc):
        self.npr.choice = self.orig
        return False


# ----------------------------------------------------------------------------------------------------------------------
# cases
# ----------------------------------------------------------------------------------------------------------------------

HEM = {"family": "hem", "exp": False, "params": {}}
HEM_POS = {"family": "hem", "exp": False, "label": "hem-positive-jumps-only",
           "params": {"sigma": 0.05, "p": 1.0, "eta1": 20.0, "eta2": 25.0, "intensity": 3.0}}
# small negative jumps: the left truncation bound of the model-truncated uniform grid falls within h of the origin
HEM_SHORT_LEFT_1 = {"family": "hem", "exp": True, "label": "hem-short-left", "r": 0.02, "d": 0.0, "spot": 100.0,
                    "params": {"sigma": 0.1, "p": 0.6, "eta1": 10.0, "eta2": 50.0, "intensity": 3.0}}
HEM_SHORT_LEFT_2 = {"family": "hem", "exp": True, "label": "hem-short-left", "r": 0.02, "d": 0.0, "spot": 80.0,
                    "params": {"sigma": 0.1, "p": 0.4, "eta1": 12.0, "eta2": 60.0, "intensity": 4.0}}
VG = {"family": "vg", "exp": False, "params": {}}
CGMY05 = {"family": "cgmy", "exp": False, "params": {"c": 1.0, "g": 15.0, "m": 20.0, "y": 0.5}}
CGMY12 = {"family": "cgmy", "exp": False, "params": {"c": 1.0, "g": 15.0, "m": 20.0, "y": 1.2}}
MERTON_EXP = {"family": "merton", "exp": True, "params": {}, "r": 0.02, "d": 0.0, "spot": 100.0}
ONE_LEFT = {"kind": "custom", "label": "one-left-point", "h": 0.1, "axis": [-0.1, 0.0, 0.1, 0.2, 0.3], "origin": 1}
ONE_RIGHT = {"kind": "custom", "label": "one-right-point", "h": 0.1, "axis": [-0.3, -0.2, -0.1, 0.0, 0.1], "origin": 3}
ONE_STATE = {"kind": "custom", "label": "one-state", "h": 0.1, "axis": [0.0, 0.1], "origin": 0}
ONE_LEFT_3D = {"kind": "custom", "label": "one-left-point", "h": 0.1, "axis": [-0.1, 0.0, 0.1, 0.2], "origin": 1}
# markedly FEWER points on one side of the origin than on the other (several on both sides), and the mirror image: the shells
# of the n-d pairing reach beyond the short side long before the long side is exhausted, so the admissibility test of the
# enumeration is asked about coordinates beyond the LEFT end (negative) resp. beyond the RIGHT end (>= size) of an axis
FEW_LEFT = {"kind": "custom", "label": "few-left-points", "h": 0.1,
            "axis": [-0.2, -0.1, 0.0, 0.1, 0.2, 0.3, 0.4, 0.5, 0.6], "origin": 2}
FEW_RIGHT = {"kind": "custom", "label": "few-right-points", "h": 0.1,
             "axis": [-0.6, -0.5, -0.4, -0.3, -0.2, -0.1, 0.0, 0.1, 0.2], "origin": 6}
# non-uniform steps, 3 against 9 points
FEW_LEFT_NU = {"kind": "custom", "label": "few-left-points-nonuniform", "h": 0.05,
               "axis": [-0.3, -0.15, -0.05, 0.0, 0.05, 0.1, 0.15, 0.25, 0.35, 0.5, 0.7, 0.9, 1.2], "origin": 3}
FEW_RIGHT_NU = {"kind": "custom", "label": "few-right-points-nonuniform", "h": 0.05,
                "axis": [-1.2, -0.9, -0.7, -0.5, -0.35, -0.25, -0.15, -0.1, -0.05, 0.0, 0.05, 0.15, 0.3], "origin": 9}
# different axes per coordinate (same number of points and same index of the origin, as in every grid the library builds: axes
# of unequal LENGTH are outside its domain - "fixed length across all axes", spatial.py), both orders
FEW_LEFT_MIXED = {"kind": "custom", "label": "few-left-points-axes-differ", "h": 0.05, "origin": 2,
                  "axes": [[-0.2, -0.1, 0.0, 0.1, 0.2, 0.3, 0.4, 0.5, 0.6], [-0.15, -0.05, 0.0, 0.05, 0.1, 0.2, 0.35, 0.55, 0.8]]}
FEW_LEFT_MIXED_SWAPPED = {"kind": "custom", "label": "few-left-points-axes-differ-swapped", "h": 0.05, "origin": 2,
                          "axes": FEW_LEFT_MIXED["axes"][::-1]}
# (3-d: the long side exceeds the short one by three points, so that a complete shell holds coordinates two beyond the short end)
FEW_LEFT_3D = {"kind": "custom", "label": "few-left-points", "h": 0.1, "axis": [-0.2, -0.1, 0.0, 0.1, 0.2, 0.3, 0.4, 0.5], "origin": 2}
FEW_RIGHT_3D = {"kind": "custom", "label": "few-right-points", "h": 0.1, "axis": [-0.5, -0.4, -0.3, -0.2, -0.1, 0.0, 0.1, 0.2], "origin": 5}
# margins whose jumps of one sign are much smaller than those of the other: the uniform grid that the library derives from the
# model (truncation probability 0.999, h = 0.1) holds 2 points on the short side and 7 on the long one
HEM_SMALL_NEG_1 = {"family": "hem", "exp": False, "label": "hem-small-negative-jumps",
                   "params": {"sigma": 0.1, "p": 0.6, "eta1": 10.0, "eta2": 50.0, "intensity": 3.0}}
HEM_SMALL_NEG_2 = {"family": "hem", "exp": False, "label": "hem-small-negative-jumps",
                   "params": {"sigma": 0.1, "p": 0.4, "eta1": 12.0, "eta2": 50.0, "intensity": 4.0}}
HEM_SMALL_POS_1 = {"family": "hem", "exp": False, "label": "hem-small-positive-jumps",
                   "params": {"sigma": 0.1, "p": 0.4, "eta1": 50.0, "eta2": 10.0, "intensity": 3.0}}
HEM_SMALL_POS_2 = {"family": "hem", "exp": False, "label": "hem-small-positive-jumps",
                   "params": {"sigma": 0.1, "p": 0.6, "eta1": 50.0, "eta2": 12.0, "intensity": 4.0}}
METHODS_1D = ["ALIAS", "TABLE", "BINARYSEARCHTREE", "HUFFMANNTREE", "INVERSION", "BINARYSEARCHTREEADAPTED1D"]
METHODS_ND = ["INVERSION", "BINARYSEARCHTREEADAPTED"]
CLAYTON = {"kind": "clayton", "theta": 0.7, "eta": 0.3}


def chain_specs(tier):
    thorough = tier == "thorough"
    out = []

    def add1(m, g, k, methods=METHODS_1D):
        for meth in methods:
            out.append({"sub": "chain", "dim": 1, "model": m, "grid": dict(g, refine=k), "method": meth})

    models = [HEM, VG, CGMY05, CGMY12, MERTON_EXP]
    if thorough:
        models += [
            {"family": "hem", "exp": True, "params": {"sigma": 0.0, "p": 0.3, "eta1": 10.0, "eta2": 40.0, "intensity": 5.0},
             "r": 0.05, "d": 0.02, "spot": 100.0},
            {"family": "cgmy", "exp": False, "params": {"c": 0.1, "g": 5.0, "m": 7.0, "y": 1.5}},
            {"family": "cgmy", "exp": False, "params": {"c": 1.0, "g": 15.0, "m": 20.0, "y": -0.5}},
            {"family": "vg", "exp": True, "params": {"sigma": 0.2, "nu": 0.2, "theta": -0.15}, "r": 0.02, "d": 0.0, "spot": 100.0},
        ]
    grids = [
        {"kind": "fixed", "h": 0.1, "n": 3},
        {"kind": "fixed", "h": 0.1, "n": 5},
        {"kind": "uniform", "h": 0.2, "p": 0.99999},
        {"kind": "geometric-bounds", "h": 0.1, "bounds": [-0.7, 0.4], "n_side": 3},
        {"kind": "probability", "h": 0.1, "pmin": 0.2},
        {"kind": "credit", "h": 0.1, "a_frac": 0.5, "symmetric": True},
    ]
    if thorough:
        grids += [
            {"kind": "fixed", "h": 0.05, "n": 8},
            {"kind": "uniform", "h": 0.1, "p": 0.99999},
            {"kind": "geometric", "h": 0.1, "n_side": 4, "p": 0.99999},
            {"kind": "probability", "h": 0.1, "pmin": 0.05},
        ]
    for m in models:
        for g in grids:
            for k in ((0, 1, 2) if thorough else (0, 1)):
                if g["kind"] == "probability" and k > 1:
                    continue
                add1(m, g, k)
    # model-truncated geometric grid
    for m in models:
        add1(m, {"kind": "geometric", "h": 0.1, "n_side": 3, "p": 0.99999}, 0)
    # the "reinit" construction route of every family (parameters re-assigned, initialisation(), model constructor)
    for m in A.with_reinit([HEM, VG, CGMY05, MERTON_EXP] + ([CGMY12] if thorough else [])):
        if m.get("via") == "reinit":
            add1(m, {"kind": "fixed", "h": 0.1, "n": 5}, 0)
            if thorough:
                add1(m, {"kind": "uniform", "h": 0.2, "p": 0.99999}, 1)
    # one-sided models: the states of the empty side have probability exactly 0
    # (HEM with p = 1; p = 0 is refused by the parameter object, so "negative jumps only" is not in the library's domain)
    add1(HEM_POS, {"kind": "fixed", "h": 0.1, "n": 5}, 1)
    add1(HEM_POS, {"kind": "geometric-bounds", "h": 0.1, "bounds": [-0.7, 0.4], "n_side": 3}, 0)
    add1(HEM_POS, ONE_LEFT, 0)
    add1(HEM_POS, ONE_RIGHT, 0)
    # the smallest chain: the origin and ONE state (probability 1)
    add1(HEM_POS, ONE_STATE, 0)
    if thorough:
        add1(HEM_POS, ONE_RIGHT, 1)
        add1(HEM_POS, {"kind": "fixed", "h": 0.1, "n": 3}, 0)
    # a half axis with a single point
    for m in ((HEM, CGMY12) + ((VG, MERTON_EXP) if thorough else ())):
        for g in (ONE_LEFT, ONE_RIGHT):
            for k in ((0, 1) if thorough else (0,)):
                add1(m, g, k)
    # production-like size
    add1(HEM, {"kind": "fixed", "h": 0.01, "n": 401}, 0, [x for x in METHODS_1D if x != "TABLE"])
    if thorough:
        add1(VG, {"kind": "fixed", "h": 0.002, "n": 1001}, 0, ["ALIAS", "BINARYSEARCHTREE", "HUFFMANNTREE", "BINARYSEARCHTREEADAPTED1D"])

    def addn(dim, cm, g, k):
        for meth in METHODS_ND:
            out.append({"sub": "chain", "dim": dim, "model": cm, "grid": dict(g, refine=k), "method": meth})

    cms = [
        {"margins": ["hem", "vg"], "copula": CLAYTON},
        {"margins": ["cgmy05", "cgmy12"], "copula": {"kind": "clayton", "theta": 3.0, "eta": 1.0}},
    ]
    if thorough:
        cms += [
            {"margins": ["hem", "hem2"], "copula": {"kind": "independent"}},
            {"margins": ["vg", "cgmy12"], "copula": {"kind": "clayton", "theta": 3.0, "eta": 0.0}},
            {"margins": ["hem", "vg"], "copula": {"kind": "dependent"}},
        ]
    grids2 = [
        {"kind": "fixed", "h": 0.1, "n": 3},
        {"kind": "fixed", "h": 0.1, "n": 5},
        {"kind": "credit", "h": 0.1, "a_frac": 0.5, "symmetric": True},
        {"kind": "credit", "h": 0.1, "a_frac": [0.4, 0.6], "symmetric": False},
    ]
    for cm in cms:
        for g in grids2:
            for k in ((0, 1) if (thorough or g["kind"] == "fixed") else (0,)):
                if g["kind"] == "credit" and k > 0 and not thorough:
                    continue
                addn(2, cm, g, k)
    # n-d grid shapes: one-point half axes, non-uniform axes, model-truncated axes
    for cm in cms[:2]:
        for g in (ONE_LEFT, ONE_RIGHT,
                  {"kind": "geometric-bounds", "h": 0.1, "bounds": [-0.7, 0.4], "n_side": 3},
                  {"kind": "geometric", "h": 0.1, "n_side": 3, "p": 0.99999},
                  {"kind": "uniform", "h": 0.2, "p": 0.99}):
            addn(2, cm, g, 0)
            if thorough and g["kind"] == "custom":
                addn(2, cm, g, 1)
    short_left = {"margins": [HEM_SHORT_LEFT_1, HEM_SHORT_LEFT_2], "copula": CLAYTON}
    addn(2, short_left, {"kind": "uniform", "h": 0.1, "p": 0.9}, 0)
    if thorough:
        addn(2, cms[0], {"kind": "uniform", "h": 0.1, "p": 0.99999}, 0)
    # markedly fewer points on one side of the origin than on the other, and the mirror image: hand-made axes and the
    # uniform grid the library derives from margins with small jumps of one sign
    for g in (FEW_LEFT, FEW_RIGHT):
        addn(2, cms[0], g, 0)
    for g in (FEW_LEFT_NU, FEW_RIGHT_NU):
        addn(2, cms[1], g, 0)
    for g in (FEW_LEFT_MIXED, FEW_LEFT_MIXED_SWAPPED):
        addn(2, cms[0], g, 0)
    small_neg = {"margins": [HEM_SMALL_NEG_1, HEM_SMALL_NEG_2], "copula": CLAYTON}
    small_pos = {"margins": [HEM_SMALL_POS_1, HEM_SMALL_POS_2], "copula": CLAYTON}
    for cm in (small_neg, small_pos):
        addn(2, cm, {"kind": "uniform", "h": 0.1, "p": 0.999}, 0)
        if thorough:
            addn(2, cm, {"kind": "uniform", "h": 0.1, "p": 0.99999}, 0)
            addn(2, cm, {"kind": "uniform", "h": 0.1, "p": 0.999}, 1)
    if thorough:
        for g in (FEW_LEFT, FEW_RIGHT):
            addn(2, cms[1], g, 0)
            addn(2, cms[0], g, 1)
        for g in (FEW_LEFT_NU, FEW_RIGHT_NU):
            addn(2, cms[0], g, 0)
    # zero-probability states: one-sided margin, independent copula (only the axes carry mass), complete dependence
    addn(2, {"margins": [HEM_POS, "hem"], "copula": CLAYTON}, {"kind": "fixed", "h": 0.1, "n": 5}, 0)
    addn(2, {"margins": ["vg", HEM_POS], "copula": CLAYTON}, ONE_RIGHT, 0)
    if not thorough:
        addn(2, {"margins": ["hem", "hem2"], "copula": {"kind": "independent"}}, {"kind": "fixed", "h": 0.1, "n": 3}, 0)
        addn(2, {"margins": ["hem", "vg"], "copula": {"kind": "dependent"}}, {"kind": "fixed", "h": 0.1, "n": 3}, 0)
    cm3 = {"margins": ["hem", "vg", "cgmy05"], "copula": CLAYTON}
    for g in ({"kind": "fixed", "h": 0.1, "n": 3}, {"kind": "fixed", "h": 0.1, "n": 5}, ONE_LEFT_3D):
        addn(3, cm3, g, 0)
    for g in (FEW_LEFT_3D, FEW_RIGHT_3D):
        addn(3, cm3, g, 0)
    if thorough:
        addn(3, {"margins": ["hem", HEM_POS, "vg"], "copula": CLAYTON}, {"kind": "fixed", "h": 0.1, "n": 3}, 0)
    # 4-d (the Rosenberg-Strong pairing beyond three coordinates; the inversion sampler there takes 40 s: thorough only)
    cm4 = {"margins": ["hem", "vg", "hem2", "merton"], "copula": CLAYTON}
    for meth in (METHODS_ND if thorough else ["BINARYSEARCHTREEADAPTED"]):
        out.append({"sub": "chain", "dim": 4, "model": cm4, "grid": {"kind": "fixed", "h": 0.1, "n": 3, "refine": 0}, "method": meth})
    return out


def history_specs(tier):
    thorough = tier == "thorough"
    depth = 4 if thorough else 3
    out = []
    cm = {"margins": ["hem", "vg"], "copula": CLAYTON}
    cm3 = {"margins": ["hem", "vg", "hem2"], "copula": CLAYTON}
    fixed5 = {"kind": "fixed", "h": 0.1, "n": 5, "refine": 0}
    credit2 = {"kind": "credit", "h": 0.1, "a_frac": [0.4, 0.6], "symmetric": False, "refine": 0}
    # (model, dimension, grid, log sizes of the inversion sampler (None = the library's), size of the menu of uniforms)
    for model, dim, grid, storages, nmenu in (
        (HEM, 1, fixed5, (None, 3), 14),
        (CGMY12, 1, {"kind": "geometric-bounds", "h": 0.1, "bounds": [-0.7, 0.4], "n_side": 3, "refine": 0}, (None, 3), 14),
        (HEM, 1, {"kind": "credit", "h": 0.1, "a_frac": 0.5, "symmetric": True, "refine": 0}, (None, 3), 14),
        (HEM_POS, 1, dict(ONE_LEFT, refine=1), (None, 3), 14),
        (cm, 2, {"kind": "fixed", "h": 0.1, "n": 3, "refine": 0}, (None, 3), 12),
        (cm, 2, credit2, (None, 3, 30) if thorough else (30,), 10),
        (cm, 2, dict(ONE_LEFT, refine=0), (None, 3), 10),
        (cm, 2, dict(FEW_LEFT, refine=0), (None, 30) if thorough else (30,), 10),
        (cm3, 3, {"kind": "fixed", "h": 0.1, "n": 3, "refine": 0}, (None, 3) if thorough else (None,), 8),
    ):
        for storage in storages:
            out.append({"sub": "history", "dim": dim, "model": model, "grid": grid, "method": "INVERSION",
                        "storage": storage, "depth": depth, "menu": nmenu})
        out.append({"sub": "history", "dim": dim, "model": model, "grid": grid,
                    "method": "BINARYSEARCHTREEADAPTED1D" if dim == 1 else "BINARYSEARCHTREEADAPTED", "storage": None,
                    "depth": depth, "menu": nmenu})
    for meth in ("ALIAS", "TABLE", "BINARYSEARCHTREE", "HUFFMANNTREE"):
        for model, grid in ((HEM, fixed5),) + (((VG, dict(ONE_RIGHT, refine=1)),) if thorough else ()):
            out.append({"sub": "history", "dim": 1, "model": model, "grid": grid, "method": meth, "storage": None,
                        "depth": min(depth, 3), "menu": 14})
    return out


def rawbig_specs(tier):
    out = [(257, "uniform"), (300, "linear"), (300, "geometric-ties-zeros"), (300, "dominant"), (300, "thresholds"), (1000, "linear"),
           (1000, "geometric-ties-zeros"), (32771, "thresholds"), (65539, "thresholds")]
    if tier == "thorough":
        out += [(1000, "uniform"), (1024, "uniform"), (1000, "dominant"), (4096, "linear"), (4096, "geometric-ties-zeros"),
                (128, "thresholds"), (129, "thresholds"), (256, "thresholds"), (32768, "thresholds"), (32769, "thresholds"),
                (40001, "thresholds"), (65536, "thresholds"), (65537, "thresholds"), (70001, "thresholds"), (70001, "linear")]
    return [{"sub": "rawbig", "K": K, "shape": s} for K, s in out]


def chainbig_specs(tier):
    """n-d chains with at least 10 001 points on their axes together: the adapted tree then does not pre-compute the
    cumulative sums of its axis buckets but bisects them like the others."""
    out = [{"sub": "chainbig", "dim": 2, "model": {"margins": ["hem", "vg"], "copula": CLAYTON},
            "grid": {"kind": "fixed", "h": 0.0004, "n": 5001, "refine": 0}, "method": "BINARYSEARCHTREEADAPTED"}]
    if tier == "thorough":
        out.append({"sub": "chainbig", "dim": 2, "model": {"margins": ["cgmy05", "hem"], "copula": {"kind": "clayton", "theta": 3.0, "eta": 1.0}},
                    "grid": {"kind": "fixed", "h": 0.0004, "n": 5001, "refine": 0}, "method": "BINARYSEARCHTREEADAPTED"})
        out.append({"sub": "chainbig", "dim": 3, "model": {"margins": ["hem", "vg", "hem2"], "copula": CLAYTON},
                    "grid": {"kind": "fixed", "h": 0.0006, "n": 3335, "refine": 0}, "method": "BINARYSEARCHTREEADAPTED"})
    return out


def cases(tier):
    thorough = tier == "thorough"
    out = []
    Ds = (16, 12, 10) if thorough else (16,)
    Kmax = 6 if thorough else 5
    for D in Ds:
        for K in range(1, Kmax + 1):
            if K <= 3:
                out.append({"sub": "raw", "D": D, "K": K, "first": None})
            else:
                for j in range(D + 1):
                    out.append({"sub": "raw", "D": D, "K": K, "first": j})
    out.append({"sub": "rawx"})
    for D in (16, 12, 10):
        for K in range(1, (5 if thorough else 4)):
            out.append({"sub": "rawtable", "D": D, "K": K})
    out += rawbig_specs(tier)
    out += chainbig_specs(tier)
    out += chain_specs(tier)
    out += history_specs(tier)
    return out


def check_case(sh, case):
    {"raw": _raw, "rawx": _rawx, "rawbig": _rawbig, "rawtable": _rawtable, "chain": _chain, "chainbig": _chainbig,
     "history": _history}[case["sub"]](sh, case)


# ----------------------------------------------------------------------------------------------------------------------
# raw samplers
# ----------------------------------------------------------------------------------------------------------------------

def _ident(k):
    return k


def alias_edges(K, hi=1.0):
    """floats on both sides of every column edge x/K of an alias table with K columns (pieces start there)."""
    out = []
    for x in range(1, K):
        e = hi * x / K
        out += [e, math.nextafter(e, math.inf), math.nextafter(e, -math.inf), math.nextafter(math.nextafter(e, math.inf), math.inf)]
    return out


def raw_objects(p):
    """name -> constructor of (sampler object, u -> state index) of the three uniform-driven raw samplers on the vector p
    (handed over as it is: array, list, tuple ...)."""
    from rpylib.distribution.variate import huffmantree as H
    from rpylib.distribution.variate.alias import AliasMethod
    from rpylib.distribution.variate.binarysearchtree import BinarySearchTree

    def alias():
        s = AliasMethod(p, _ident)
        return s, lambda u: int(s._draw_with_u(u))

    def bst():
        s = BinarySearchTree(p, _ident)
        return s, lambda u: int(s.sample_with_u(u))

    def huff():
        s = H.HuffmanTree(p, _ident)
        return s, lambda u: int(H.sample_with_u(u, s.head)[0])

    return {"alias": alias, "binarysearchtree": bst, "huffmantree": huff}


def raw_samplers(p):
    return {name: (lambda mk=mk: mk()[1]) for name, mk in raw_objects(p).items()}


def raw_batch(s, us, size):
    """the public batch call sample(size=...) of a raw sampler on scripted uniforms (numpy.random.uniform seam): list of ints."""
    import rpylib.distribution.univariate.uniform as U

    orig = U.npr.uniform
    U.npr.uniform = uniform_answer(us, 1.0)
    try:
        r = s.sample(size=size)
    finally:
        U.npr.uniform = orig
    return [int(x) for x in np.asarray(r).ravel()]


def table_batch(tm, words, size):
    """the public batch call sample(size) of a table method on scripted 32-bit words: list of ints."""
    from rpylib.distribution.variate import table as T

    orig = T.random.getrandbits
    dq = collections.deque(words)
    T.random.getrandbits = lambda nbits: word_for(dq.popleft(), nbits)
    try:
        r = tm.sample(size)
    finally:
        T.random.getrandbits = orig
    return [int(x) for x in np.asarray(r).ravel()]


SIZE_FORMS = (("python-int", int), ("numpy-int64", np.int64), ("numpy-int32", np.int32), ("0-d-array", np.array))


def judge_raw_batch(sh, sub, name, s, f, pieces, hi, label, suffix=""):
    """batch call of a raw sampler = element-wise single-uniform entry, on the first float of up to 120 pieces, the float before
    it, 0 and the last float; the size handed over as Python int, numpy integers (what the library passes: Poisson numbers)
    and 0-d array; sample(0) is empty."""
    sel = list(range(len(pieces)))
    if len(sel) > 120:
        sel = sorted({round(i * (len(pieces) - 1) / 119) for i in range(120)})
    us = [pieces[i][0] for i in sel] + [math.nextafter(pieces[i][0], -math.inf) for i in sel if i > 0] + [0.0, math.nextafter(hi, -math.inf)]
    us = [u for u in us if 0.0 <= u < hi]
    single = [f(u) for u in us]
    for fname, conv in SIZE_FORMS:
        try:
            got = raw_batch(s, us, conv(len(us)))
        except Exception as e:  # noqa
            sh.violation(f"C02:{sub}:{name}:batch-call-raises-{type(e).__name__}:size-as-{fname}{suffix}", f"{label}: {e!r}", None)
            continue
        sh.count("evaluations", len(us))
        if got != single:
            j = next((i for i, (a, b) in enumerate(zip(got, single)) if a != b), -1)
            sh.violation(f"C02:{sub}:{name}:batch-differs-from-single-uniform-entry:size-as-{fname}{suffix}",
                         f"{label}: sample(size={len(us)}) on scripted uniforms: element {j}: batch {got[j] if j >= 0 else len(got)} vs single {single[j] if j >= 0 else len(single)}", None)
    try:
        if len(raw_batch(s, us, 0)):
            sh.violation(f"C02:{sub}:{name}:batch-of-size-0-not-empty{suffix}", f"{label}", None)
    except Exception as e:  # noqa
        sh.violation(f"C02:{sub}:{name}:batch-call-raises-{type(e).__name__}:size-0{suffix}", f"{label}: {e!r}", None)


def vec_class(c):
    K = len(c)
    if K == 1:
        return "length-1"
    z = "zeros" if 0 in c else "nozeros"
    return f"length>1:{z}"


def _raw(sh, case):
    D, K = case["D"], case["K"]
    n_nt = 0
    probes = [(i + 0.5) / (K * D) for i in range(K * D)]
    # every possible break point (multiples of 1/D: cumulative sums in any order; x/K: alias columns), the float on either side
    pts = sorted({j / D for j in range(1, D)} | {x / K for x in range(1, K)})
    # (the last float of [0, 1) only when the entries j/D are exact in binary: otherwise their float sum may fall short of 1 and
    # that float belongs to no state of the target)
    singles = [0.0] + ([ONE_MINUS] if D & (D - 1) == 0 else [])
    for e in pts:
        singles += [e, math.nextafter(e, math.inf), math.nextafter(e, -math.inf)]
    def lattice(f):
        cnt = [0] * K
        for u in probes:
            k = f(u)
            if not (0 <= k < K):
                return None, (u, k)
            cnt[k] += 1
        return cnt, None

    # the caller's array after the constructor returned: it must be unchanged, and the caller may re-use it (here: overwritten
    # by another probability vector before the first draw) without any effect on the sampler
    other = np.zeros(K)
    other[-1] = 1.0
    for c in compositions(D, K):
        if case["first"] is not None and c[0] != case["first"]:
            continue
        p = np.array(c, dtype=float) / D
        parr = p.copy()
        for name, mk in raw_objects(parr).items():
            sh.count("evaluations", len(probes) + len(singles))
            try:
                parr[:] = p
                _, f = mk()
                if not np.array_equal(parr, p):
                    sh.violation(f"C02:raw:{name}:constructor-modifies-the-caller-s-vector:{vec_class(c)}",
                                 f"p={list(c)}/{D}: the array handed over reads {parr.tolist()} after the constructor returned", None)
                parr[:] = other
                cnt, out = lattice(f)
                if out is not None:
                    sh.violation(f"C02:raw:{name}:state-outside-range:{vec_class(c)}", f"p={list(c)}/{D}: u={out[0]} -> {out[1]}", None)
                    continue
                want = [cj * K for cj in c]
                if cnt != want:
                    parr[:] = p
                    cnt2, _ = lattice(mk()[1])
                    if cnt2 == want:
                        sh.violation(f"C02:raw:{name}:keeps-a-reference-to-the-caller-s-vector:{vec_class(c)}",
                                     f"p={list(c)}/{D}: lattice counts {cnt} (units 1/{K * D}) instead of {want} once the caller has overwritten "
                                     f"its array by {other.tolist()} after the construction", {"p": list(c), "D": D})
                        continue
                    zero_hit = any(w == 0 and g > 0 for w, g in zip(want, cnt))
                    cls = "zero-probability-state-returned" if zero_hit else "law-differs"
                    sh.violation(f"C02:raw:{name}:{cls}:{vec_class(c)}",
                                 f"p={list(c)}/{D}: lattice counts {cnt} (units 1/{K * D}) instead of {want}", {"p": list(c), "D": D})
                else:
                    for u in singles:
                        k = f(u)
                        if not (0 <= k < K):
                            sh.violation(f"C02:raw:{name}:state-outside-range-at-single-float:{vec_class(c)}",
                                         f"p={list(c)}/{D}: u={u!r} -> {k}", None)
                            break
                        if c[k] == 0:
                            sh.violation(f"C02:raw:{name}:zero-probability-state-returned{where_class(u, 0.0)}:{vec_class(c)}",
                                         f"p={list(c)}/{D}: u={u!r} -> state {k} of probability 0", {"p": list(c), "D": D, "u": u})
                            break
            except Exception as e:  # noqa
                sh.violation(f"C02:raw:{name}:raises-{type(e).__name__}:{vec_class(c)}", f"p={list(c)}/{D}: {e!r}", None)
        if sum(1 for x in c if x) >= 2:
            n_nt += 1
    sh.outcome((D, K, case["first"], n_nt))
    if n_nt:
        sh.nontriv()
    if K == 3 and D == 16:
        sh.sample({"sub": "raw", "example_vector": [3 / 16, 0.0, 13 / 16], "probes": 48 + len(singles), "samplers": ["alias", "bst", "huffman"]})


def judge_vector(sh, sub, name, p, pieces, hi, label, sfx=""):
    """Law of a raw sampler recovered as pieces against the vector p: lengths within 1e-12 + 1e-9 p_k; a state of probability
    exactly 0 or outside the range must not be returned on any probe (a piece of one float counts)."""
    K = len(p)
    L = lengths(pieces, hi)
    # the float sum of p may fall short of 1: the last (8 + K) ulps of [0, 1) belong to no state of the target and are not
    # judged against a probability of 0
    top_zone = hi * (1.0 - (8 + K) * ULP)
    said = collections.Counter()

    def say(cls, text):
        # (a broken sampler on a long vector is wrong for thousands of states: the first 8 of each class are written out)
        said[cls] += 1
        if said[cls] <= 8:
            sh.violation(f"C02:{sub}:{name}:{cls}{sfx}", f"{label}: {text}", None)

    for k in sorted(set(L) - set(range(K))):
        say("state-outside-range", f"state {k} returned")
    for k in range(K):
        got = L.get(k, 0.0)
        if p[k] == 0:
            if k in L:
                at, ln = where_returned(pieces, hi, k)
                if at >= top_zone:
                    sh.count("rounding-zone-answers-not-judged")
                    continue
                say("zero-probability-state-returned" + where_class(at, ln), f"state {k} of probability 0 returned from u={at!r} on a length {ln!r}")
        elif abs(got - p[k]) > 1e-12 + 1e-9 * p[k]:
            say("law-differs", f"state {k} gets length {got!r} instead of {p[k]!r}")


def vector_forms(p):
    """the same probability vector in the other forms a caller may hand over: list, tuple, a non-contiguous view, a read-only
    array (a constructor that writes into its argument raises on it), and for 0/1 vectors integer and boolean arrays."""
    p = np.asarray(p, dtype=float)
    wide = np.zeros(2 * len(p))
    wide[::2] = p
    ro = p.copy()
    ro.flags.writeable = False
    forms = [("list", p.tolist()), ("tuple", tuple(p.tolist())), ("non-contiguous-view", wide[::2]), ("read-only-array", ro)]
    if all(x in (0.0, 1.0) for x in p.tolist()):
        forms += [("integer-array", p.astype(np.int64)), ("boolean-array", p.astype(bool)), ("list-of-ints", [int(x) for x in p.tolist()])]
    return forms


def _rawx(sh, case):
    """hand-listed extremes by partition recovery (break points not on a convenient lattice); every vector also in each of
    the other forms of `vector_forms`: same pieces as with the float array (table method: same answers on 64 scripted words)."""
    from rpylib.distribution.variate import table as T

    vecs = [
        [1 - 2.0 ** -20, 2.0 ** -20],
        [2.0 ** -30, 1 - 2.0 ** -29, 2.0 ** -30],
        [0.5, 0.5 - 2.0 ** -30, 2.0 ** -30],
        [1 / 3, 1 / 3, 1 / 3],
        [0.1] * 10,
        [1.0 / 7] * 7,
        [0.0, 0.25, 0.0, 0.75, 0.0],
        [2.0 ** -k for k in range(1, 11)] + [2.0 ** -10],
        [0.0, 1.0, 0.0],
        [1.0],
    ]
    words = [((k * 2654435761) % (1 << 32)) for k in range(1, 65)]
    for p in vecs:
        p = np.array(p, dtype=float)
        K = len(p)
        usual = {}
        for name, mk in raw_objects(p.copy()).items():
            try:
                s_, f = mk()
                pieces, ev, hi = recover_partition(f, 1 << 12, extra=alias_edges(K))
            except Exception as e:  # noqa
                sh.violation(f"C02:rawx:{name}:raises-{type(e).__name__}", f"p={p.tolist()}: {e!r}", None)
                continue
            sh.count("evaluations", ev)
            judge_vector(sh, "rawx", name, p, pieces, hi, f"p={p.tolist()}")
            judge_raw_batch(sh, "rawx", name, s_, f, pieces, hi, f"p={p.tolist()}")
            usual[name] = pieces
        try:
            usual_table = table_batch(T.TableMethod(p, _ident), words, len(words))
        except Exception as e:  # noqa
            sh.violation(f"C02:rawx:table:raises-{type(e).__name__}", f"p={p.tolist()}: {e!r}", None)
            usual_table = None
        for fname, form in vector_forms(p):
            for name, mk in raw_objects(form).items():
                if name not in usual:
                    continue
                try:
                    pieces, ev, hi = recover_partition(mk()[1], 1 << 12, extra=alias_edges(K))
                except Exception as e:  # noqa
                    sh.violation(f"C02:rawx:{name}:raises-{type(e).__name__}:vector-as-{fname}", f"p={p.tolist()}: {e!r}", None)
                    continue
                sh.count("evaluations", ev)
                if pieces != usual[name]:
                    sh.violation(f"C02:rawx:{name}:answers-depend-on-the-form-of-the-vector:vector-as-{fname}",
                                 f"p={p.tolist()}: {len(pieces)} pieces {pieces[:4]} ... instead of {len(usual[name])} pieces {usual[name][:4]} ... with the float array", None)
            if usual_table is not None:
                try:
                    got = table_batch(T.TableMethod(form, _ident), words, len(words))
                    sh.count("evaluations", len(words))
                    if got != usual_table:
                        sh.violation(f"C02:rawx:table:answers-depend-on-the-form-of-the-vector:vector-as-{fname}",
                                     f"p={p.tolist()}: sample({len(words)}) on scripted words differs from the answers with the float array", None)
                except Exception as e:  # noqa
                    sh.violation(f"C02:rawx:table:raises-{type(e).__name__}:vector-as-{fname}", f"p={p.tolist()}: {e!r}", None)
        sh.outcome(tuple(p.tolist()))
    sh.nontriv()


def thresholds_vector(K):
    """a vector of K entries that are zero except at the indices around the limits of the small integer types (127 / 128,
    255 / 256, 32767 / 32768, 65535 / 65536), at 0 and at K - 1, where p = (m + f) / 256 with m >= 1 (every such state owns
    slots of a 256-slot table), weights growing with the index, fractional parts f in eighths (one of them 0) that sum to 2."""
    at = sorted({i for i in (0, 127, 128, 255, 256, 32767, 32768, 65535, 65536, K - 1) if 0 <= i < K})
    n = len(at)
    pattern = [4, 2, 2, 1, 1, 2, 0, 1, 1, 2]
    f = [pattern[j % len(pattern)] for j in range(n)]
    while sum(f) % 8:
        f[-1] += 1
    whole = 256 - sum(f) // 8
    tot = sum(j + 1 for j in range(n))
    m = [1 + ((whole - n) * (j + 1)) // tot for j in range(n)]
    m[-1] += whole - sum(m)
    p = np.zeros(K)
    for t, mk, fk in zip(at, m, f):
        p[t] = (mk + fk / 8.0) / 256.0
    return p


def big_vector(K, shape):
    k = np.arange(K, dtype=float)
    if shape == "uniform":
        w = np.ones(K)
    elif shape == "linear":
        w = k + 1.0
    elif shape == "geometric-ties-zeros":
        w = 2.0 ** -np.floor(k / max(K // 10, 1))
        w[::7] = 0.0
    elif shape == "dominant":
        w = (k + 1.0)
        w[:3] = 0.0
        w = 0.08 * w / w.sum()
        w[:3] = [0.5, 0.3, 0.12]
    elif shape == "thresholds":
        return thresholds_vector(K)
    else:
        raise ValueError(shape)
    return w / w.sum()


def size_class(K):
    return ":more-than-65536-entries" if K > 65536 else ":more-than-32768-entries" if K > 32768 else ""


def _rawbig(sh, case):
    """long probability vectors: sizes at which index dtypes, incomplete tree levels and long tie runs matter."""
    from rpylib.distribution.variate import table as T

    K, shape = case["K"], case["shape"]
    p = big_vector(K, shape)
    label = f"{shape} vector of {K} entries"
    sfx = size_class(K)
    # sparse vectors: every piece of a correct sampler is longer than 2^-9 but for the alias pieces, which start at the column
    # edges (all probed); a sweep of 2^17 probes is enough whatever K
    n0 = 1 << (17 if shape == "thresholds" and K > 4096 else int(math.ceil(math.log2(16 * K))))
    for name, mk in raw_objects(p).items():
        try:
            s_, f = mk()
            pieces, ev, hi = recover_partition(f, n0, extra=alias_edges(K) if name == "alias" else (), max_pieces=max(100000, 4 * K))
        except Exception as e:  # noqa
            sh.violation(f"C02:rawbig:{name}:raises-{type(e).__name__}{sfx}", f"{label}: {e!r}", None)
            continue
        sh.count("evaluations", ev)
        judge_vector(sh, "rawbig", name, p, pieces, hi, label, sfx)
        judge_raw_batch(sh, "rawbig", name, s_, f, pieces, hi, label, sfx)
        sh.outcome((K, shape, name, len(pieces)))
    if shape in ("dominant", "thresholds"):
        try:
            tm = T.TableMethod(p, _ident)
            prob = table_law(sh, tm, lambda r: int(np.asarray(r).ravel()[0]), K)
        except Exception as e:  # noqa
            sh.violation(f"C02:rawbig:table:raises-{type(e).__name__}{sfx}", f"{label}: {e!r}", None)
        else:
            for k in sorted(set(prob) - set(range(K))):
                sh.violation(f"C02:rawbig:table:state-outside-range{sfx}", f"{label}: state {k}", None)
            bad = [k for k in range(K) if abs(prob.get(k, 0.0) - p[k]) > 2.0 ** -20]
            for k in bad[:6]:
                c2 = "zero-probability-state-returned" if p[k] == 0 else "law-differs"
                sh.violation(f"C02:rawbig:table:{c2}{sfx}", f"{label}: state {k} has probability {prob.get(k, 0.0)!r} instead of {p[k]!r}", None)
            sh.outcome((K, shape, "table", len(prob)))
            # batch call on scripted words = element-wise calls, the size in each form; an empty batch
            try:
                words = [((k * 2654435761) % (1 << 32)) for k in range(1, 97)] + [low for low in range(256)]
                single = [table_batch(tm, [w], 1)[0] for w in words]
                for fname, conv in SIZE_FORMS:
                    if table_batch(tm, words, conv(len(words))) != single:
                        sh.violation(f"C02:rawbig:table:batch-differs-from-single-word-calls:size-as-{fname}{sfx}",
                                     f"{label}: sample({len(words)}) on scripted words differs from {len(words)} calls of sample(1)", None)
                sh.count("evaluations", len(words) * (1 + len(SIZE_FORMS)))
                if len(table_batch(tm, [], 0)):
                    sh.violation(f"C02:rawbig:table:batch-of-size-0-not-empty{sfx}", label, None)
            except Exception as e:  # noqa
                sh.violation(f"C02:rawbig:table:batch-call-raises-{type(e).__name__}{sfx}", f"{label}: {e!r}", None)
    sh.nontriv()


def table_law(sh, tm, decode, n_columns):
    """Exact law of a TableMethod as a function of the 32-bit word it consumes (seam random.getrandbits): for every low
    byte, either a direct slot (the table marks it and the answer is the same for 4 spread upper parts: counted 1/256) or
    the alias branch, whose map 'upper 24 bits -> state' is recovered by integer bisection from a sweep of 256 probes plus the
    alias column edges. Returns dict outcome -> probability."""
    from rpylib.distribution.variate import table as T

    J = list(getattr(tm, "J", []))
    orig = T.random.getrandbits
    prob = {}
    Ka = getattr(getattr(tm, "alias_method", None), "K", None) or n_columns or 1

    def draw(i):
        T.random.getrandbits = lambda nbits: word_for(i, nbits)
        r = tm.sample(1)
        return decode(r[0] if hasattr(r, "__len__") else r)

    try:
        for low in range(256):
            if len(J) == 256 and J[low] >= 0:
                ks = {draw((h << 8) | low) for h in (0x5A5A5A, 0x000000, 0xA5A5A5, 0xFFFFFF)}
                sh.count("evaluations", 4)
                if len(ks) == 1:
                    k = ks.pop()
                    prob[k] = prob.get(k, 0.0) + 1.0 / 256
                    continue

            def g(h, low=low):
                return draw((h << 8) | low)

            n0 = 256
            hs = {((1 << 24) * i) // n0 for i in range(n0)} | {(1 << 24) - 1}
            for x in range(1, Ka):
                e = ((1 << 24) * x) // Ka
                hs.update(h for h in (e - 1, e, e + 1, e + 2) if 0 <= h < (1 << 24))
            hs = sorted(hs)
            vs = [g(h) for h in hs]
            sh.count("evaluations", len(hs))
            starts = [(0, vs[0])]

            def refine(a, fa, b, fb):
                while b - a > 1:
                    m = (a + b) // 2
                    fm = g(m)
                    sh.count("evaluations")
                    if fm == fa:
                        a = m
                    elif fm == fb:
                        b = m
                    else:
                        refine(a, fa, m, fm)
                        refine(m, fm, b, fb)
                        return
                starts.append((b, fb))

            for i in range(len(hs) - 1):
                if vs[i] != vs[i + 1]:
                    refine(hs[i], vs[i], hs[i + 1], vs[i + 1])
            for (st0, st), nx in zip(starts, starts[1:] + [(1 << 24, None)]):
                prob[st] = prob.get(st, 0.0) + (nx[0] - st0) / float(1 << 32)
    finally:
        T.random.getrandbits = orig
    return prob


def _rawtable(sh, case):
    from rpylib.distribution.variate import table as T

    D, K = case["D"], case["K"]
    n_nt = 0
    for c in compositions(D, K):
        p = np.array(c, dtype=float) / D
        mult256 = all((256 * cj) % D == 0 for cj in c)
        cls = ("multiples-of-1/256" if mult256 else "generic") + (":length-1" if K == 1 else "")
        try:
            tm = T.TableMethod(p, _ident)
        except Exception as e:  # noqa
            sh.violation(f"C02:rawtable:constructor-raises-{type(e).__name__}:{cls}", f"p={list(c)}/{D}: {e!r}", None)
            continue
        try:
            prob = table_law(sh, tm, lambda r: int(np.asarray(r).ravel()[0]), K)
        except Exception as e:  # noqa
            sh.violation(f"C02:rawtable:sample-raises-{type(e).__name__}:{cls}", f"p={list(c)}/{D}: {e!r}", None)
            continue
        for k in set(prob) - set(range(K)):
            sh.violation(f"C02:rawtable:state-outside-range:{cls}", f"p={list(c)}/{D}: state {k}", None)
        for k in range(K):
            got = prob.get(k, 0.0)
            if p[k] == 0 and got > 0:
                sh.violation(f"C02:rawtable:zero-probability-state-returned:{cls}", f"p={list(c)}/{D}: state {k} has probability {got!r}", None)
            elif abs(got - p[k]) > 2.0 ** -20:
                sh.violation(f"C02:rawtable:law-differs:{cls}", f"p={list(c)}/{D}: state {k} has probability {got!r} instead of {p[k]!r}", None)
        if sum(1 for x in c if x) >= 2:
            n_nt += 1
    sh.outcome((D, K, n_nt))
    if n_nt:
        sh.nontriv()


# ----------------------------------------------------------------------------------------------------------------------
# chain samplers
# ----------------------------------------------------------------------------------------------------------------------

def make_copula_model_x(spec):
    """as alphabets.make_copula_model, but a margin may be written out as a 1-d model spec instead of a name."""
    from rpylib.model.utils import create_levy_copula_model

    models = [A.make_model(dict(A.MARGINS[m]) if isinstance(m, str) else {k: v for k, v in m.items() if k != "label"})
              for m in spec["margins"]]
    return create_levy_copula_model(models=models, copula=A.make_copula(spec["copula"]))


def make_grid_x(gspec, model, dim):
    """as alphabets.make_grid, plus hand-made axes (kind 'custom': the same axis on every coordinate, CTMCGrid itself) and a
    credit threshold moved towards the left bound when the stated fraction does not fit (VG: 0.5 l is within h of 0)."""
    if gspec["kind"] == "custom":
        from rpylib.grid.spatial import CTMCGrid

        axes = gspec["axes"] if "axes" in gspec else [gspec["axis"]] * dim
        g = CTMCGrid(h=gspec["h"], origin_coordinate=gspec["origin"], axes=[np.array(a, dtype=float) for a in axes])
        for _ in range(gspec.get("refine", 0)):
            g.refine()
        return g
    if gspec["kind"] == "credit" and not isinstance(gspec["a_frac"], (list, tuple)):
        for fr in (gspec["a_frac"], 0.8, 0.9):
            try:
                return A.make_grid(dict(gspec, a_frac=fr), model, dim)
            except A.OutsideAlphabet:
                continue
        raise A.OutsideAlphabet("no credit threshold fits")
    return A.make_grid(gspec, model, dim)


def model_of(case):
    if case["dim"] == 1:
        return A.make_model({k: v for k, v in case["model"].items() if k != "label"})
    return make_copula_model_x(case["model"])


class _ZeroResult:
    def get(self, timeout=None):
        return 0.0


class _ZeroPool:
    def __init__(self, *a, **k):
        pass

    def __enter__(self):
        return self

    def __exit__(self, *a):
        return False

    def apply_async(self, func, args=(), kwds=None):
        return _ZeroResult()


class _ZeroMP:
    Pool = _ZeroPool


def process_on(case, model, grid):
    """The chain through the public constructors. The copula chain's constructor starts a pathos pool to integrate the
    small-jump covariance of infinite-variation margins (its diffusion matrix: not observed here, 0.5 s per chain): the pool
    is answered by zeros while the constructor runs."""
    import rpylib.process.markovchain.markovchainlevycopula as M
    from rpylib.distribution.sampling import SamplingMethod
    from rpylib.process.markovchain.markovchain import MarkovChainProcess

    method = SamplingMethod[case["method"]]
    if case["dim"] == 1:
        return MarkovChainProcess(model=model, method=method, grid=grid)
    old = getattr(M, "mp", None)
    M.mp = _ZeroMP
    try:
        return M.MarkovChainLevyCopula(levy_copula_model=model, grid=grid, method=method)
    finally:
        M.mp = old


def build_process(case):
    model = model_of(case)
    grid = make_grid_x(case["grid"], model, case["dim"])
    return process_on(case, model, grid), grid


def model_label(m):
    if "margins" in m:
        return "+".join(x if isinstance(x, str) else (x.get("label") or x["family"]) for x in m["margins"]) + \
            ("" if m["copula"]["kind"] == "clayton" else ":" + m["copula"]["kind"])
    return (m.get("label") or m["family"]) + ("[reinit]" if m.get("via") == "reinit" else "")


def grid_label(g):
    return g["kind"] + (":" + g["label"] if g.get("label") else "")


def target_law(proc, grid, dim):
    """dict increment(tuple) -> probability, from reference cells and the process's own truncated model."""
    lam = float(proc.intensity_of_jumps)
    if dim == 1:
        axis = grid.axes[0]
        o = grid.origin_coordinate.value
        cells, _ = O.ref_cells(axis, o, middle=grid.middle)
        out = {}
        for k, cell in enumerate(cells):
            if cell is None:
                continue
            out[(k - o,)] = max(float(proc.model.mass(float(cell[0]), float(cell[1]))), 0.0) / lam
        return out
    per_axis = []
    orig = list(grid.origin_coordinate)
    for k, axis in enumerate(grid.axes):
        # the n-d CTMCGrid.middle takes tuples; use the arithmetic mean per axis (CTMCGrid's definition for n-d grids)
        cells, central = O.ref_cells(axis, orig[k], middle=None)
        cells = [c if c is not None else central for c in cells]
        per_axis.append(cells)
    out = {}
    for idx in itertools.product(*[range(len(ax)) for ax in grid.axes]):
        inc = tuple(i - o for i, o in zip(idx, orig))
        if not any(inc):
            continue
        a = tuple(float(per_axis[k][i][0]) for k, i in enumerate(idx))
        b = tuple(float(per_axis[k][i][1]) for k, i in enumerate(idx))
        out[inc] = max(float(proc.model.mass(a, b)), 0.0) / lam
    return out


def as_inc(x):
    if isinstance(x, tuple):
        return tuple(int(v) for v in x)
    a = np.atleast_1d(np.asarray(x))
    return tuple(int(v) for v in a.ravel())


def word_of(u):
    return min(int(u * 4294967296.0), (1 << 32) - 1)


class Driver:
    """The uniform-number interface of ONE sampler object: draw(u) = single-uniform entry point (the table method: one
    sample(1) on the scripted 32-bit word floor(u 2^32)), batch(us) = the public batch call sample(size) on scripted
    uniforms. The n-d adapted tree is always driven with the same, re-used argument array (it writes into its argument)."""

    def __init__(self, proc, meth):
        self.proc = proc
        self.s = proc.sampling
        self.meth = meth
        self.hi = float(getattr(getattr(self.s, "uniform", None), "high", 1.0))
        self._arr = np.empty(1, dtype=float)

    def draw(self, u):
        import rpylib.distribution.variate.huffmantree as H
        import rpylib.distribution.variate.table as T

        s, meth = self.s, self.meth
        if meth == "ALIAS":
            return as_inc(s.states(s._draw_with_u(u)))
        if meth == "BINARYSEARCHTREE":
            return as_inc(s.sample_with_u(u))
        if meth == "HUFFMANNTREE":
            return as_inc(s.states(H.sample_with_u(u, s.head)[0]))
        if meth in ("INVERSION", "BINARYSEARCHTREEADAPTED1D"):
            return as_inc(s.sample_with_u(u))
        if meth == "BINARYSEARCHTREEADAPTED":
            self._arr[0] = u
            return as_inc(s.sample_with_us(self._arr)[0])
        if meth == "TABLE":
            orig = T.random.getrandbits
            i = word_of(u)
            T.random.getrandbits = lambda nbits: word_for(i, nbits)
            try:
                r = s.sample(1)
            finally:
                T.random.getrandbits = orig
            return as_inc(r[0])
        raise ValueError(meth)

    def batch(self, us, size=None):
        """sample(size) on the scripted uniforms us; size = len(us) as a Python int unless given (numpy integer, 0-d array)."""
        import rpylib.distribution.univariate.uniform as U
        import rpylib.distribution.variate.table as T

        size = len(us) if size is None else size
        if self.meth == "TABLE":
            orig = T.random.getrandbits
            words = collections.deque(word_of(u) for u in us)
            T.random.getrandbits = lambda nbits: word_for(words.popleft(), nbits)
            try:
                r = self.s.sample(size)
            finally:
                T.random.getrandbits = orig
            return [as_inc(x) for x in r]
        orig = U.npr.uniform
        U.npr.uniform = uniform_answer(us, self.hi)
        try:
            r = self.s.sample(size=size)
        finally:
            U.npr.uniform = orig
        return [as_inc(x) for x in r]

    def draw_as(self, u, form):
        """the single-uniform entry point with the uniform handed over as a numpy scalar / a (fresh) 0-d array / a Python int."""
        if self.meth in ("TABLE", "BINARYSEARCHTREEADAPTED"):
            return None
        return self.draw({"numpy-float64": np.float64, "0-d-array": np.array, "python-int": int}[form](u))


def single_entry(proc, case):
    """(u -> increment tuple, upper end of the domain) of the single-uniform entry point; kept for other modules."""
    drv = Driver(proc, case["method"])
    return drv.draw, drv.hi


def argument_forms(sh, case, tag, cls, us, hi):
    """(4b) the same call with its arguments in the other legal forms gives the same answers: the size of the batch as numpy
    integer (what the path simulators pass: Poisson numbers) or 0-d array, an empty batch, a batch of one; the uniform of the
    single entry point as numpy scalar, 0-d array and (u = 0) Python int. Two sampler objects (one for the batch calls, one
    for the single entry point), 12 uniforms spread over the pieces."""
    meth = case["method"]
    if len(us) > 12:
        us = [us[round(i * (len(us) - 1) / 11)] for i in range(12)]
    try:
        ref = Driver(build_process(case)[0], meth)
        single = [ref.draw(u) for u in us]
    except Exception as e:  # noqa
        sh.violation(f"C02:chain:{tag}:single-uniform-entry-raises-{type(e).__name__}:{cls}", f"{e!r}", None)
        return
    try:
        d = Driver(build_process(case)[0], meth)
    except Exception as e:  # noqa
        sh.violation(f"C02:chain:{tag}:constructor-raises-{type(e).__name__}:{cls}", f"{e!r}", None)
        return
    for fname, conv in SIZE_FORMS[1:]:
        try:
            got = d.batch(us, conv(len(us)))
            sh.count("evaluations", len(us))
            if got != single:
                sh.violation(f"C02:chain:{tag}:batch-differs-from-single-uniform-entry:size-as-{fname}:{cls}",
                             f"sample(size={conv(len(us))!r}) on scripted uniforms gives {got[:6]} ..., element-wise {single[:6]} ...", None)
        except Exception as e:  # noqa
            sh.violation(f"C02:chain:{tag}:batch-call-raises-{type(e).__name__}:size-as-{fname}:{cls}", f"{e!r}", None)
    try:
        if len(d.batch(us, 0)):
            sh.violation(f"C02:chain:{tag}:batch-of-size-0-not-empty:{cls}", "sample(size=0) returns states", None)
        got1 = d.batch(us[-1:], 1)
        if got1 != single[-1:]:
            sh.violation(f"C02:chain:{tag}:batch-differs-from-single-uniform-entry:size-1:{cls}",
                         f"sample(size=1) after sample(size=0), u={us[-1]!r}: {got1}, single entry {single[-1:]}", None)
        sh.count("evaluations", 2)
    except Exception as e:  # noqa
        sh.violation(f"C02:chain:{tag}:batch-call-raises-{type(e).__name__}:size-0-then-1:{cls}", f"{e!r}", None)
    for form in ("numpy-float64", "0-d-array", "python-int"):
        try:
            for u, want in zip(us, single):
                if form == "python-int" and u != 0.0:
                    continue
                got = ref.draw_as(u, form)
                if got is None:
                    break
                sh.count("evaluations")
                if got != want:
                    sh.violation(f"C02:chain:{tag}:answer-depends-on-the-form-of-the-uniform:u-as-{form}:{cls}",
                                 f"u={u!r} handed over as {form}: {got}, as Python float: {want}", None)
                    break
        except Exception as e:  # noqa
            sh.violation(f"C02:chain:{tag}:single-uniform-entry-raises-{type(e).__name__}:u-as-{form}:{cls}", f"{e!r}", None)


def _chain(sh, case):
    dim, meth = case["dim"], case["method"]
    tag = f"d{dim}:{meth.lower()}"
    cls = f"{grid_label(case['grid'])}:{model_label(case['model'])}"
    sh.cls(f"chain:{tag}:{grid_label(case['grid'])}")
    try:
        proc, grid = build_process(case)
    except A.OutsideAlphabet:
        sh.count("outside-alphabet-grid")
        return
    except Exception as e:  # noqa
        sh.violation(f"C02:chain:{tag}:constructor-raises-{type(e).__name__}:{cls}", f"{e!r}", None)
        return
    law = target_law(proc, grid, dim)
    nstates = len(law)
    if any(v == 0.0 for v in law.values()):
        sh.cls(f"chain:{tag}:states-of-probability-zero")
    if meth == "TABLE":
        try:
            prob = table_law(sh, proc.sampling, as_inc, len(grid.axes[0]))
        except Exception as e:  # noqa
            sh.violation(f"C02:chain:{tag}:sample-raises-{type(e).__name__}:{cls}", f"{e!r}", None)
            return
        for inc, pk in law.items():
            got = prob.get(inc, 0.0)
            if pk == 0.0 and got > 0.0:
                sh.violation(f"C02:chain:{tag}:zero-probability-state-returned:{cls}", f"state increment {inc}: probability {got!r}, target 0", None)
            elif abs(got - pk) > 2.0 ** -20:
                c2 = "state-never-returned" if got == 0.0 else "law-differs"
                sh.violation(f"C02:chain:{tag}:{c2}:{cls}", f"state increment {inc}: probability {got!r}, target {pk!r}", None)
        for st in set(prob) - set(law):
            c2 = "origin-returned" if not any(st) else "state-outside-grid"
            sh.violation(f"C02:chain:{tag}:{c2}:{cls}", f"increment {st} returned with probability {prob[st]!r}", None)
        # the batch call on scripted words equals the element-wise call
        try:
            us = [((k * 2654435761) % (1 << 32)) / 4294967296.0 for k in range(1, 97)]
            pa, _ = build_process(case)
            pb, _ = build_process(case)
            da, db = Driver(pa, meth), Driver(pb, meth)
            single = [da.draw(u) for u in us]
            batch = db.batch(us)
            sh.count("evaluations", 2 * len(us))
            if batch != single:
                sh.violation(f"C02:chain:{tag}:batch-differs-from-single-uniform-entry:{cls}",
                             f"sample(size={len(us)}) on scripted words differs from {len(us)} calls of sample(1)", None)
        except Exception as e:  # noqa
            sh.violation(f"C02:chain:{tag}:batch-call-raises-{type(e).__name__}:{cls}", f"sample(size=n): {e!r}", None)
        argument_forms(sh, case, tag, cls, us, 1.0)
        sh.outcome((tag, cls, case["grid"].get("refine"), nstates, len(prob)))
        if sum(1 for v in law.values() if v > 0) >= 2:
            sh.nontriv()
        return
    # hidden randomness: scripted numpy.random.choice, two answers
    results = []
    evals = 0
    n0 = 1 << max(10, int(math.ceil(math.log2(16 * max(nstates, 1)))))
    for answer in (first_choice, last_choice):
        with hidden_choice(answer):
            try:
                procx, gridx = build_process(case)
                drv = Driver(procx, meth)
                extra = alias_edges(len(grid.axes[0]), drv.hi) if meth == "ALIAS" else ()
                pieces, ev, hi = recover_partition(drv.draw, n0, 0.0, drv.hi, extra=extra)
                evals += ev
                results.append((pieces, hi))
            except Exception as e:  # noqa
                sh.violation(f"C02:chain:{tag}:single-uniform-entry-raises-{type(e).__name__}:{cls}", f"{e!r}", None)
                return
        if meth != "INVERSION":
            break
    sh.count("evaluations", evals)
    pieces, hi = results[0]
    L = lengths(pieces, hi)
    scale = hi
    # the zone at the top of [0, hi) where the rounded cumulative sums of a correct sampler may fall short of hi (the float sum
    # of the target vector is not exactly 1: these floats belong to no state of the target; the inversion sampler hands them
    # to its hidden choice): a state of probability 0 or the origin there is counted, not judged; a state off the grid is
    top_zone = hi * (1.0 - (8 + nstates) * ULP)
    # (1) law; a target of exactly 0 is judged on every probe
    worst = 0.0
    for inc, pk in law.items():
        got = L.get(inc, 0.0) / scale
        err = abs(got - pk)
        worst = max(worst, err)
        if pk == 0.0:
            if inc in L:
                at, ln = where_returned(pieces, hi, inc)
                if at >= top_zone:
                    sh.count("rounding-zone-answers-not-judged")
                    continue
                if ln <= 1e-12 and at > 0.0 and meth in ("BINARYSEARCHTREEADAPTED1D", "BINARYSEARCHTREEADAPTED"):
                    # the adapted trees descend on masses of UNIONS of cells, which equal the sum of the cell masses up to
                    # rounding only (a union of cells of mass exactly 0 may have a mass of 1e-20): one float at the start of
                    # such a box is explained by the masses themselves (C01's subject), not by the sampler
                    sh.count("single-float-answers-explained-by-mass-rounding")
                    continue
                c2 = "zero-probability-state-returned" + where_class(at, ln)
                sh.violation(f"C02:chain:{tag}:{c2}:{cls}",
                             f"state increment {inc} of target probability 0 is returned from u={at!r} on a length {ln!r}",
                             {"increment": inc, "u": at, "length": ln})
        elif err > 1e-12 + 1e-9 * pk:
            c2 = "state-never-returned" if got == 0.0 else "law-differs"
            sh.violation(f"C02:chain:{tag}:{c2}:{cls}",
                         f"state increment {inc}: recovered length {got!r}, target mass/intensity {pk!r} ({nstates} states)",
                         {"increment": inc, "recovered": got, "target": pk})
    # (2) range: on any probe
    for s in [s for s in L if s not in law]:
        at, ln = where_returned(pieces, hi, s)
        if not any(s) and at >= top_zone:
            sh.count("rounding-zone-answers-not-judged")
            continue
        c2 = ("origin-returned" if not any(s) else "state-outside-grid") + where_class(at, ln)
        sh.violation(f"C02:chain:{tag}:{c2}:{cls}", f"increment {s} returned from u={at!r} on a length {ln!r}", None)
    # (1b) the same law when the memoised prefix is shorter than the number of states (scaled-down overflow regime of the
    # inversion sampler: _max_storage is 10^6 in the library; here about 60 % of the states, so that the enumeration is
    # restarted behind the stored prefix for the remaining ones - on grids where the pairing skips inadmissible indices too)
    if meth == "INVERSION" and nstates >= 5:
        storage = max(3, int(0.6 * nstates)) if nstates <= 150 else nstates - 24
        with hidden_choice(first_choice):
            try:
                procs, _ = build_process(case)
                procs.sampling._max_storage = storage
                drs = Driver(procs, meth)
                ps, ev, his = recover_partition(drs.draw, n0, 0.0, drs.hi)
                sh.count("evaluations", ev)
                Ls = lengths(ps, his)
                for inc, pk in law.items():
                    got = Ls.get(inc, 0.0) / his
                    if abs(got - pk) > 1e-12 + 1e-9 * pk:
                        sh.violation(f"C02:chain:{tag}:law-differs-under-scaled-storage:{cls}",
                                     f"_max_storage={storage} (of {nstates} states): state increment {inc}: recovered length {got!r}, target {pk!r}",
                                     {"increment": inc, "recovered": got, "target": pk})
                        break
                cum = getattr(procs.sampling, "_cumulative_probabilities", None)
                if cum is None or len(cum) > storage:
                    sh.cap("inversion sampler does not honour _max_storage: the scaled overflow regime was not reached")
                elif len(cum) == storage:
                    sh.count("scaled-storage-log-full")
            except Exception as e:  # noqa
                sh.violation(f"C02:chain:{tag}:scaled-storage-raises-{type(e).__name__}:{cls}", f"{e!r}", None)
    # (3) hidden randomness
    if len(results) == 2:
        p2, hi2 = results[1]
        L2 = lengths(p2, hi2)
        diff = sum(abs(L.get(k, 0.0) - L2.get(k, 0.0)) for k in set(L) | set(L2))
        if diff > 2 * (8 + nstates) * ULP:
            sh.violation(f"C02:chain:{tag}:result-depends-on-hidden-random-choice:{cls}",
                         f"the map u -> state changes on a set of length {diff / 2!r} with the answer of numpy.random.choice", None)
    # (4) batch equals element-wise single (through the uniform seam)
    sel = list(range(len(pieces)))
    if len(sel) > 400:
        sel = sorted({round(i * (len(pieces) - 1) / 399) for i in range(400)})
    us = [pieces[i][0] for i in sel] + [math.nextafter(pieces[i][0], -math.inf) for i in sel if i > 0] + [0.0, math.nextafter(hi, -math.inf)]
    us = [u for u in us if 0.0 <= u < hi]
    with hidden_choice(first_choice):
        try:
            procb, _ = build_process(case)
            single = [Driver(procb, meth).draw(u) for u in us]
            procc, _ = build_process(case)
            batch = Driver(procc, meth).batch(us)
            sh.count("evaluations", 2 * len(us))
            if batch != single:
                j = next(i for i, (a, b) in enumerate(zip(batch, single)) if a != b) if len(batch) == len(single) else -1
                sh.violation(f"C02:chain:{tag}:batch-differs-from-single-uniform-entry:{cls}",
                             f"sample(size={len(us)}) with scripted uniforms: element {j}: batch {batch[j] if j >= 0 else len(batch)} vs single {single[j] if j >= 0 else len(single)}",
                             {"u": us[j] if j >= 0 else None})
        except Exception as e:  # noqa
            sh.violation(f"C02:chain:{tag}:batch-call-raises-{type(e).__name__}:{cls}", f"sample(size=n): {e!r}", None)
        argument_forms(sh, case, tag, cls, us, hi)
    # (5) the law of a sampler built AFTER a sampler of another model was built and used on the same grid object (memos shared
    # between objects - class attributes, module-level caches keyed by cell bounds only - show here whatever the order in
    # which the cases of a run are scheduled), and the answers of that other sampler once the new one has been used
    # (not on the one-state grid: it has no left point, and the other model has negative jumps)
    if meth in ("INVERSION", "BINARYSEARCHTREEADAPTED1D", "BINARYSEARCHTREEADAPTED") and case["grid"].get("refine", 0) == 0 \
            and nstates <= 130 and case["grid"].get("label") != "one-state":
        with hidden_choice(first_choice):
            try:
                ccase = companion_model(case)
                g = make_grid_x(case["grid"], model_of(case), dim)
                comp = Driver(process_on(ccase, model_of(ccase), g), meth)
                cus = [comp.hi * (j + 0.5) / 48 for j in range(48)]
                before = [comp.draw(u) for u in cus]
                late = Driver(process_on(case, model_of(case), g), meth)
                pl, ev, hl = recover_partition(late.draw, n0, 0.0, late.hi)
                sh.count("evaluations", ev + 2 * len(cus))
                Ll = lengths(pl, hl)
                for inc, pk in law.items():
                    got = Ll.get(inc, 0.0) / hl
                    if abs(got - pk) > 1e-12 + 1e-9 * pk:
                        sh.violation(f"C02:chain:{tag}:law-differs-after-a-second-sampler-on-the-grid:{cls}",
                                     f"built after a sampler for {model_label(ccase['model'])} was used on the same grid object: state increment {inc}: recovered length {got!r}, target {pk!r}",
                                     {"increment": inc, "recovered": got, "target": pk})
                        break
                after = [comp.draw(u) for u in cus]
                if after != before:
                    j = next(i for i, (a, b) in enumerate(zip(after, before)) if a != b)
                    sh.violation(f"C02:chain:{tag}:answer-changes-when-a-second-sampler-is-used-on-the-grid:{cls}",
                                 f"sampler for {model_label(ccase['model'])}: u={cus[j]!r} -> {before[j]}, after a second sampler was built and used on its grid -> {after[j]}", None)
            except Exception as e:  # noqa
                sh.violation(f"C02:chain:{tag}:second-sampler-on-the-grid-raises-{type(e).__name__}:{cls}", f"{e!r}", None)
    sh.outcome((tag, cls, case["grid"].get("refine"), nstates, len(pieces)))
    if sum(1 for v in law.values() if v > 0) >= 2:
        sh.nontriv()
    if dim == 1 and meth == "INVERSION" and case["grid"]["kind"] == "fixed" and case["grid"].get("n") == 5 \
            and case["grid"].get("refine") == 0 and model_label(case["model"]) == "hem":
        sh.sample({"sub": "chain", "case": case, "pieces": [(s, list(st)) for s, st in pieces[:8]],
                   "target": {str(k): v for k, v in list(law.items())[:6]}, "max_abs_error": worst})


def local_piece(f, u0, hi):
    """(state, first float, first float after) of the maximal interval around u0 on which f is constant, found by doubling
    steps away from u0 and bisection to neighbouring floats (assumes that the pre-image of f(u0) is an interval, as it is for
    nested bisections); number of evaluations."""
    s = f(u0)
    ev = 1

    def edge(direction):
        nonlocal ev
        inside = u0
        step = max(abs(u0), hi * 2.0 ** -30) * 2.0 ** -30
        while True:
            out = u0 + direction * step
            if direction < 0 and out <= 0.0:
                ev += 1
                if f(0.0) == s:
                    return 0.0
                out = 0.0
            elif direction > 0 and out >= hi:
                out = math.nextafter(hi, -math.inf)
                ev += 1
                if f(out) == s:
                    return hi
            else:
                ev += 1
                if f(out) == s:
                    inside = out
                    step *= 2
                    continue
            a, b = (out, inside) if direction < 0 else (inside, out)
            while True:
                m = a + (b - a) / 2
                if m <= a or m >= b:
                    return b
                ev += 1
                if (f(m) == s) == (direction < 0):
                    b = m
                else:
                    a = m

    lo = edge(-1)
    up = edge(+1)
    return s, lo, up, ev


def _chainbig(sh, case):
    """a chain too large for a complete recovery: a sweep of 4096 uniforms (mid-points of the lattice 1/4096), then for up to 12
    spread states of each class met (on each axis, off the axes) the whole interval of uniforms mapped to the state, whose
    length must be mass(reference cell) / intensity; origin / off-grid answers are judged on every probe; the states of the
    sweep are drawn again downwards (one object) and in one batch call."""
    dim, meth = case["dim"], case["method"]
    tag = f"d{dim}:{meth.lower()}"
    cls = f"{grid_label(case['grid'])}:{model_label(case['model'])}"
    sh.cls(f"chainbig:{tag}")
    try:
        proc, grid = build_process(case)
        drv = Driver(proc, meth)
    except Exception as e:  # noqa
        sh.violation(f"C02:chainbig:{tag}:constructor-raises-{type(e).__name__}:{cls}", f"{e!r}", None)
        return
    hi = drv.hi
    lam = float(proc.intensity_of_jumps)
    orig = list(grid.origin_coordinate)
    sizes = [len(ax) for ax in grid.axes]
    cells = []
    for k, axis in enumerate(grid.axes):
        cs, central = O.ref_cells(axis, orig[k], middle=None)
        cells.append([c if c is not None else central for c in cs])
    n_sweep = 4096
    sweep = {}
    try:
        for j in range(n_sweep):
            u = hi * (j + 0.5) / n_sweep
            sweep.setdefault(drv.draw(u), u)
    except Exception as e:  # noqa
        sh.violation(f"C02:chainbig:{tag}:single-uniform-entry-raises-{type(e).__name__}:{cls}", f"{e!r}", None)
        return
    sh.count("evaluations", n_sweep)
    groups = {}
    for st, u in sweep.items():
        if not any(st) or not all(0 <= o + i < n for o, i, n in zip(orig, st, sizes)):
            c2 = "origin-returned" if not any(st) else "state-outside-grid"
            sh.violation(f"C02:chainbig:{tag}:{c2}:{cls}", f"increment {st} returned for u={u!r}", None)
            continue
        moving = [k for k, v in enumerate(st) if v]
        groups.setdefault(f"axis-{moving[0]}" if len(moving) == 1 else "off-the-axes", []).append((st, u))
    for g in sorted(groups):
        lst = sorted(groups[g])
        sh.cls(f"chainbig:{tag}:{g}")
        sel = lst if len(lst) <= 12 else [lst[round(i * (len(lst) - 1) / 11)] for i in range(12)]
        for st, u in sel:
            try:
                s_, a, b, ev = local_piece(drv.draw, u, hi)
            except Exception as e:  # noqa
                sh.violation(f"C02:chainbig:{tag}:single-uniform-entry-raises-{type(e).__name__}:{cls}", f"{e!r}", None)
                break
            sh.count("evaluations", ev)
            idx = [o + i for o, i in zip(orig, st)]
            lo = tuple(float(cells[k][i][0]) for k, i in enumerate(idx))
            up = tuple(float(cells[k][i][1]) for k, i in enumerate(idx))
            pk = max(float(proc.model.mass(lo, up)), 0.0) / lam
            got = (b - a) / hi
            if abs(got - pk) > 1e-12 + 1e-9 * pk:
                sh.violation(f"C02:chainbig:{tag}:law-differs:{g}:{cls}",
                             f"state increment {st}: the uniforms [{a!r}, {b!r}) are mapped to it, length {got!r}, target mass/intensity {pk!r}",
                             {"increment": st, "recovered": got, "target": pk})
                break
    if not any(g.startswith("axis") for g in groups):
        sh.cap("chainbig: no state of an axis bucket was met by the sweep")
    # the same object once more, downwards; a fresh object in one batch call
    try:
        us = sorted(sweep.values())
        want = {u: st for st, u in sweep.items()}
        again = [drv.draw(u) for u in us[::-1]]
        if again != [want[u] for u in us[::-1]]:
            sh.violation(f"C02:chainbig:{tag}:answer-depends-on-earlier-draws:{cls}", "the uniforms of the sweep drawn again downwards on the same object give other states", None)
        batch = Driver(build_process(case)[0], meth).batch(us)
        if batch != [want[u] for u in us]:
            sh.violation(f"C02:chainbig:{tag}:batch-differs-from-single-uniform-entry:{cls}", f"sample(size={len(us)}) on scripted uniforms differs from the element-wise calls", None)
        sh.count("evaluations", 2 * len(us))
    except Exception as e:  # noqa
        sh.violation(f"C02:chainbig:{tag}:batch-call-raises-{type(e).__name__}:{cls}", f"{e!r}", None)
    sh.outcome((tag, cls, len(sweep), tuple(sorted((g, len(v)) for g, v in groups.items()))))
    sh.nontriv()


# ----------------------------------------------------------------------------------------------------------------------
# history search
# ----------------------------------------------------------------------------------------------------------------------

def state_digest(obj, depth=3, prefix=""):
    """Integer / float / string attributes and container sizes of obj and of the objects of rpylib.distribution it owns
    (cost counters excluded: they grow with every draw and the property does not speak of them)."""
    out = []
    d = getattr(obj, "__dict__", None)
    if not isinstance(d, dict):
        return out
    for name in sorted(d):
        if "cost" in name:
            continue
        v = d[name]
        path = prefix + name
        if isinstance(v, (bool, int, float, str, type(None))):
            out.append((path, v))
        elif isinstance(v, (list, tuple, dict, set, frozenset, collections.deque)):
            out.append((path, len(v)))
        elif isinstance(v, np.ndarray):
            out.append((path, tuple(v.shape)))
        elif depth > 0 and type(v).__module__.startswith("rpylib.distribution"):
            out += state_digest(v, depth - 1, path + ".")
    return out


def companion_model(case):
    """another model of the same dimension (for the second sampler built on the same grid object)."""
    if case["dim"] == 1:
        return dict(case, model=VG if case["model"]["family"] == "hem" else HEM)
    margins = list(case["model"]["margins"])
    return dict(case, model={"margins": margins[1:] + margins[:1], "copula": {"kind": "clayton", "theta": 3.0, "eta": 0.0}})


PURE_OPS = ("reset", "copy", "shallow", "pickle", "other")
OP_WORDS = {"reset": "cost-reset", "copy": "deepcopy", "shallow": "copy.copy", "pickle": "dill-round-trip", "batch": "batch-call",
            "other": "second-sampler-on-the-grid"}


def _history(sh, case):
    dim, meth = case["dim"], case["method"]
    tag = f"d{dim}:{meth.lower()}:{'scaled-storage' if case['storage'] else 'default-storage'}"
    sh.cls(f"history:{tag}:{grid_label(case['grid'])}")
    try:
        import dill
    except Exception:  # noqa
        dill = None
    # samplers whose whole mutable state is visible in the digest (the memo of the inversion search and the indices of its
    # enumeration); the others only hold caches of pure values: the set of u drawn so far stands for the cache contents
    digest_complete = meth == "INVERSION"
    draws_max = case["depth"] if digest_complete else max(2, case["depth"] - 1)

    def new_driver(c=case, grid=None):
        if grid is None:
            p, _ = build_process(c)
        else:
            p = process_on(c, model_of(c), grid)
        if case["storage"] and hasattr(p.sampling, "_max_storage"):
            p.sampling._max_storage = case["storage"]
        return Driver(p, meth)

    def main_grid():
        return make_grid_x(case["grid"], model_of(case), dim)

    with hidden_choice(first_choice):
        try:
            d0 = new_driver()
        except A.OutsideAlphabet:
            sh.count("outside-alphabet-grid")
            return
        hi = d0.hi
        law = target_law(d0.proc, d0.proc.grid, dim)
        nstates = len(law)
        nmenu = case.get("menu", 14)
        expected = {}
        if meth == "TABLE":
            menu_us = [(j + 0.37) / nmenu for j in range(nmenu)]
        else:
            pieces, ev, hi = recover_partition(d0.draw, 1 << 10, 0.0, hi)
            # menu: one u inside every piece, the first u of a middle piece, 0, top
            menu_us = []
            for (s, st), nx in zip(pieces, pieces[1:] + [(hi, None)]):
                menu_us.append(s + (nx[0] - s) / 2)
            menu_us += [pieces[len(pieces) // 2][0], 0.0, math.nextafter(hi, -math.inf)]
            menu_us = sorted({u for u in menu_us if 0.0 <= u < hi})  # (the middle of a last piece of one float rounds to hi)
            # the whole menu (every piece), for the long run at the end: the answers of the first sampler
            # (the mid-point of a piece of ONE float rounds to the first float of the next piece: the piece's own first float
            # is taken then)
            for (s, st), nx in zip(pieces, pieces[1:] + [(hi, None)]):
                mid = s + (nx[0] - s) / 2
                if not mid < nx[0]:
                    mid = s
                if mid < hi:
                    expected[mid] = st
            if len(menu_us) > nmenu:
                # spread over the whole of [0, hi): the draws beyond the memoised prefix are the interesting ones
                idx = sorted({round(i * (len(menu_us) - 1) / (nmenu - 1)) for i in range(nmenu)})
                menu_us = [menu_us[i] for i in idx]
        n = len(menu_us)
        sub = sorted({0, n // 3, (2 * n) // 3, n - 2, n - 1} & set(range(n)))
        fresh = {}
        for u in menu_us:
            fresh[u] = new_driver().draw(u)
        # the second sampler: another model, same method, on the grid object of the first, drawn at the sub-menu in order; its
        # fresh twin (same draws in the same order) lives on its own copy of that grid
        ccase = companion_model(case)
        cfresh = {}
        try:
            dc = new_driver(ccase, grid=main_grid())
            for i in sub:
                cu = min(menu_us[i], math.nextafter(dc.hi, -math.inf))
                cfresh[i] = (cu, dc.draw(cu))
        except Exception as e:  # noqa
            sh.note(f"history: no second sampler for {tag} ({type(e).__name__})")
            cfresh = None
        ops = [o for o in PURE_OPS if not (o == "pickle" and dill is None) and not (o == "other" and cfresh is None)]
        if "pickle" in ops:
            try:
                dill.loads(dill.dumps(new_driver().proc))
            except Exception as e:  # noqa
                ops.remove("pickle")
                sh.note(f"history: the process of {tag} does not survive a dill round trip ({type(e).__name__}): operation dropped")
        draw_events = [["u", i] for i in range(n)]
        batch_events = [["batch", i] for i in sub]
        op_events = [[o, -1] for o in ops]

        def batch_us(i):
            return [menu_us[i], menu_us[(2 * i + 1) % n], menu_us[(i + n // 2) % n]]

        def apply(st, ev):
            """apply one event to the state; the comparisons made are appended to st['bad'] when they fail."""
            kind, i = ev
            drv = st["drv"]
            if kind == "reset":
                drv.proc.reset_one_simulation_cost()
                drv.s.reset_sampling_cost()
            elif kind in ("copy", "shallow", "pickle"):
                if kind == "copy":
                    twin = copy.deepcopy(drv.proc)
                elif kind == "pickle":
                    twin = dill.loads(dill.dumps(drv.proc))
                else:
                    # copy.copy of the process and of its sampler: the containers are shared with the original, which is alive
                    twin = copy.copy(drv.proc)
                    twin.sampling = copy.copy(drv.proc.sampling)
                st["drv"] = Driver(twin, meth)
                # the ORIGINAL is used further (sub-menu) once the copy exists: it answers as before, and the copy - drawn
                # from in the events that follow - is not affected
                for j in sub:
                    got = drv.draw(menu_us[j])
                    if got != fresh[menu_us[j]]:
                        st["bad"].append((f"original-answer-changes-after-{OP_WORDS[kind]}",
                                          f"the original maps u={menu_us[j]!r} to {got} once a copy exists ({OP_WORDS[kind]}), a fresh sampler to {fresh[menu_us[j]]}"))
                        break
            elif kind == "other":
                if st["comp"] is None:
                    st["comp"] = new_driver(ccase, grid=drv.proc.grid)
                for j in sub:
                    cu, want = cfresh[j]
                    got = st["comp"].draw(cu)
                    if got != want:
                        st["bad"].append(("second-sampler-answer-depends-on-the-first-sampler-of-the-grid",
                                          f"a second sampler ({model_label(ccase['model'])}) built on the grid of the first maps u={cu!r} to {got}, its fresh twin to {want}"))
                        break
            elif kind == "batch":
                us3 = batch_us(i)
                got3 = drv.batch(us3)
                want3 = [fresh[x] for x in us3]
                st["obs"].append(got3)
                if got3 != want3:
                    st["bad"].append((None, f"batch call sample(3) on u={us3} gives {got3}, fresh samplers give {want3}"))
            else:
                u = menu_us[i]
                got = drv.draw(u)
                st["obs"].append(got)
                if got != fresh[u]:
                    st["bad"].append((None, f"u={u!r} is mapped to {got} but a fresh sampler maps it to {fresh[u]}"))

        def build(hist):
            st = {"drv": new_driver(), "comp": None, "obs": [], "bad": []}
            for j, ev in enumerate(hist):
                if j == len(hist) - 1:
                    st["bad"] = []
                try:
                    apply(st, ev)
                except Exception as e:  # noqa
                    st["bad"].append((f"raises-{type(e).__name__}", f"event {ev}: {e!r}"))
                    break
            return st

        def menu(state, hist):
            """up to draws_max draw-bearing events (single draws at every u of the menu, batch calls on the sub-menu) and at
            most one operation without a draw anywhere before the last draw; after such an operation every single draw."""
            n_draws = sum(1 for k, _ in hist if k in ("u", "batch"))
            if n_draws >= draws_max:
                return []
            if hist and hist[-1][0] in PURE_OPS:
                return draw_events
            used = any(k in PURE_OPS for k, _ in hist)
            return draw_events + batch_events + ([] if used else op_events)

        def canon(state, hist):
            drawn = set()
            if not digest_complete:
                for kind, i in hist:
                    if kind == "u":
                        drawn.add(i)
                    elif kind == "batch":
                        drawn.update([i, (2 * i + 1) % n, (i + n // 2) % n])
            # a state reached by an operation without a draw is kept apart from the state before it, so that every draw of
            # the menu is observed right after the operation; one draw later the states merge again when their digests agree
            pending = hist[-1][0] if hist and hist[-1][0] in PURE_OPS else None
            return (tuple(state_digest(state["drv"].s)), tuple(sorted(drawn)), pending)

        def describe(ev):
            if ev[0] == "u":
                return repr(menu_us[ev[1]])
            if ev[0] == "batch":
                return f"sample(3)@{batch_us(ev[1])}"
            return OP_WORDS[ev[0]]

        def invariant(state, hist, ev):
            if ev is None or not state["bad"]:
                return None
            kinds = sorted({OP_WORDS[k] for k, _ in hist if k != "u"})
            what, text = state["bad"][0]
            what = what or ("answer-depends-on-earlier-draws" + "".join("-and-" + k for k in kinds))
            return (f"C02:history:{tag}:{what}",
                    f"after the history [{', '.join(describe(e) for e in hist[:-1])}] then {describe(hist[-1])}: {text}",
                    {"history": hist, "menu_us": menu_us, "observed": state["obs"]})

        s_, t_, d_ = core.bfs(sh, build, menu, canon, invariant, draws_max + 1, max_states=4000)
        sh.count("evaluations", t_)
        # accumulation: ONE sampler drawn several hundred times - every u of the whole menu (up to 240 pieces) downwards, upwards,
        # cost reset, in steps of 7, deepcopy, in steps of 11 on the copy, then one batch call with all of them
        if not expected:
            expected = dict(fresh)
        allu = sorted(expected)
        if len(allu) > 240:
            allu = [allu[round(i * (len(allu) - 1) / 239)] for i in range(240)]
        m = len(allu)

        def stride(k):
            k = next(x for x in range(k, k + m + 1) if math.gcd(x, m) == 1) if m > 1 else 1
            return [allu[(i * k) % m] for i in range(m)]

        try:
            dl = new_driver()
            n_long = 0
            for phase, seq in (("downwards", allu[::-1]), ("upwards", allu), ("reset", None), ("in-steps-of-7", stride(7)),
                               ("deepcopy", None), ("in-steps-of-11", stride(11)), ("batch", allu)):
                if seq is None:
                    if phase == "reset":
                        dl.proc.reset_one_simulation_cost()
                        dl.s.reset_sampling_cost()
                    else:
                        dl = Driver(copy.deepcopy(dl.proc), meth)
                    continue
                got = dl.batch(seq) if phase == "batch" else [dl.draw(u) for u in seq]
                n_long += len(seq)
                wrong = [(u, g, expected[u]) for u, g in zip(seq, got) if g != expected[u]] if len(got) == len(seq) else [(None, len(got), len(seq))]
                if wrong:
                    u, g, w = wrong[0]
                    sh.violation(f"C02:history:{tag}:answer-changes-in-a-long-run-of-draws",
                                 f"one sampler drawn {n_long} times (phase {phase}): u={u!r} -> {g}, the first sampler of the case gave {w} ({len(wrong)} of {len(seq)} differ)", None)
                    break
            sh.count("evaluations", n_long)
            sh.count("long-run-draws", n_long)
        except Exception as e:  # noqa
            sh.violation(f"C02:history:{tag}:long-run-raises-{type(e).__name__}", f"{e!r}", None)
        sh.outcome((tag, nstates, s_, t_))
        sh.nontriv()
        if case["storage"]:
            d1 = new_driver()
            for u in menu_us:
                d1.draw(u)
            cum = getattr(d1.s, "_cumulative_probabilities", None)
            if cum is None or len(cum) > case["storage"]:
                sh.cap("inversion sampler does not honour _max_storage: the scaled overflow regime was not reached")
        if dim == 1 and meth == "INVERSION" and case["storage"] is None and case["grid"]["kind"] == "fixed":
            sh.sample({"sub": "history", "case": case, "menu_us": menu_us, "operations": ops, "bfs_states": s_, "bfs_transitions": t_})
