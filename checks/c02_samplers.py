"""C02 - every state sampler realises exactly the target law, independent of call history.

The samplers are deterministic piecewise-constant maps u -> state. The law is the vector of total lengths of the pieces and is
recovered exactly (lattice probing where the break points provably lie on a lattice, partition recovery by bisection to
1 ulp elsewhere), never estimated by sampling.

Sub-checks
 raw        alias, binary search tree, Huffman tree on EVERY weak composition of D units into K parts (p = j/D; zeros, ties,
            dominant entries included), K <= 5 (6 thorough), D = 16 (+ 12, 10 thorough), probed at the mid-point of every cell
            of the lattice 1/(K D): all break points of these samplers on such targets lie on that lattice, so the INTEGER
            count per state must equal p_k K D exactly; plus hand-listed extremes by partition recovery.
 rawtable   table method = function of a 32-bit integer (seam random.getrandbits): for each of the 256 low bytes the map
            "upper 24 bits -> state" is recovered exactly by integer bisection; the law must be p within 2^-20 and the 256-slot
            table must hold floor(256 p_k) copies of k. Vectors: compositions with D in {16, 12, 10} (16: all multiples of 1/256).
 chain      samplers built by the public factory (MarkovChainProcess / MarkovChainLevyCopula with every sampling method the
            constructor accepts) on 1-d, 2-d and 3-d chains: partition recovery of the single-uniform entry point, compared
            with the target law mass(cell)/intensity computed on reference cells; never a zero-probability state, a state off
            the grid, or the origin; probes at every recovered break point +- 1 ulp, at 0 and at 1-2^-53; the batch call
            equals the element-wise single-uniform call (numpy.random.uniform seam); the inversion sampler's hidden
            numpy.random.choice is an enumerated environment answer (first / last element): any u whose result depends on it
            beyond the last ulps of [0,1) is a violation.
 history    explicit-state search over draw histories on one sampler object (inversion with default and shrunk storage,
            adapted tree 1-d, adapted tree n-d with fresh and re-used argument arrays): menu = one u per state interval + the u
            just above the memoised frontier + 0 + 1-2^-53; invariant: answer(u | history) = answer(u | fresh sampler).
Assumption (stated in the evidence): partition recovery starts from a dyadic sweep of n0 >= 16 x (number of states) probes;
 a piece that starts and ends strictly between two neighbouring probes that agree would be missed.
"""
from __future__ import annotations

import itertools
import math

import numpy as np

from mc import alphabets as A
from mc import core
from mc import oracle as O

PID = "C02"
LEVEL = "model_checking"
RULE = (
    "raw: every weak composition of D units into K parts for the stated (K, D), each probed on the complete lattice 1/(KD); "
    "chain: every (model, grid, refinement, sampling method) of the stated lattice, law recovered by bisection to 1 ulp; "
    "history: BFS over draw histories up to the stated depth; a case is non-trivial when a law with at least two states of "
    "positive probability was compared; states/transitions are those of the history search"
)
ASSUMPTIONS = [
    "partition recovery: no piece of the map u -> state lies strictly between two neighbouring agreeing probes of the initial "
    "dyadic sweep (n0 >= 16 x number of states)",
    "target law of a chain sampler = process.model.mass(reference cell) / process.intensity_of_jumps (cells re-derived from "
    "the axes with the grid's own middle()); the masses themselves are the subject of C01 / C09 / C12",
    "inversion sampler: _max_storage shrunk to 3 is a scaled-down model of the overflow regime at 10^6 (labelled 'scaled')",
]
CHUNK = 1
ONE_MINUS = 1.0 - 2.0 ** -53


# ----------------------------------------------------------------------------------------------------------------------
# partition recovery
# ----------------------------------------------------------------------------------------------------------------------

def recover_partition(f, n0, lo=0.0, hi=1.0, max_pieces=100000, extra=()):
    """Pieces of the piecewise-constant map f on [lo, hi): list of (start, state), starts increasing.
    f is probed at lo + i (hi-lo)/n0, at points approaching both ends geometrically (lo + (hi-lo) 2^-k and hi - (hi-lo) 2^-k,
    k = 1..60: pieces of any size glued to an end are seen) and at the caller's extra points (e.g. the column edges of an
    alias table); between neighbouring probes that differ the break point is located by bisection to 1 ulp, splitting again
    if a third state appears (a contiguous piece between two different neighbours is always found this way)."""
    top = math.nextafter(hi, -math.inf)
    xs = {lo + (hi - lo) * i / n0 for i in range(n0)}
    for k in range(1, 61):
        xs.add(lo + (hi - lo) * 2.0 ** -k)
        xs.add(hi - (hi - lo) * 2.0 ** -k)
    xs.update(x for x in extra if lo <= x <= top)
    xs.add(top)
    xs = sorted(x for x in xs if lo <= x <= top)
    vals = [f(x) for x in xs]
    pieces = [(xs[0], vals[0])]
    evals = len(xs)

    def refine(a, fa, b, fb):
        nonlocal evals
        # invariant: f(a) = fa != fb = f(b), a < b
        while True:
            m = a + (b - a) / 2
            if m <= a or m >= b:
                pieces.append((b, fb))
                return
            fm = f(m)
            evals += 1
            if fm == fa:
                a = m
            elif fm == fb:
                b = m
            else:
                refine(a, fa, m, fm)
                refine(m, fm, b, fb)
                return

    for i in range(len(xs) - 1):
        if vals[i] != vals[i + 1]:
            refine(xs[i], vals[i], xs[i + 1], vals[i + 1])
            if len(pieces) > max_pieces:
                raise RuntimeError("too many pieces")
    return pieces, evals, hi


def lengths(pieces, hi):
    out = {}
    for (s, st), nxt in zip(pieces, pieces[1:] + [(hi, None)]):
        out[st] = out.get(st, 0.0) + (nxt[0] - s)
    return out


def compositions(D, K):
    if K == 1:
        yield (D,)
        return
    for j in range(D + 1):
        for rest in compositions(D - j, K - 1):
            yield (j,) + rest


# ----------------------------------------------------------------------------------------------------------------------
# cases
# ----------------------------------------------------------------------------------------------------------------------

def chain_specs(tier):
    thorough = tier == "thorough"
    out = []
    models = [
        {"family": "hem", "exp": False, "params": {}},
        {"family": "vg", "exp": False, "params": {}},
        {"family": "cgmy", "exp": False, "params": {"c": 1.0, "g": 15.0, "m": 20.0, "y": 0.5}},
        {"family": "cgmy", "exp": False, "params": {"c": 1.0, "g": 15.0, "m": 20.0, "y": 1.2}},
        {"family": "merton", "exp": True, "params": {}, "r": 0.02, "d": 0.0, "spot": 100.0},
    ]
    if thorough:
        models += [
            {"family": "hem", "exp": True, "params": {"sigma": 0.0, "p": 0.3, "eta1": 10.0, "eta2": 40.0, "intensity": 5.0},
             "r": 0.05, "d": 0.02, "spot": 100.0},
            {"family": "cgmy", "exp": False, "params": {"c": 0.1, "g": 5.0, "m": 7.0, "y": 1.5}},
            {"family": "cgmy", "exp": False, "params": {"c": 1.0, "g": 15.0, "m": 20.0, "y": -0.5}},
            {"family": "vg", "exp": True, "params": {"sigma": 0.2, "nu": 0.2, "theta": -0.15}, "r": 0.02, "d": 0.0, "spot": 100.0},
        ]
    grids = [
        {"kind": "fixed", "h": 0.1, "n": 3},
        {"kind": "fixed", "h": 0.1, "n": 5},
        {"kind": "uniform", "h": 0.2, "p": 0.99999},
        {"kind": "geometric-bounds", "h": 0.1, "bounds": [-0.7, 0.4], "n_side": 3},
        {"kind": "probability", "h": 0.1, "pmin": 0.2},
        {"kind": "credit", "h": 0.1, "a_frac": 0.5, "symmetric": True},
    ]
    if thorough:
        grids += [
            {"kind": "fixed", "h": 0.05, "n": 8},
            {"kind": "uniform", "h": 0.1, "p": 0.99999},
            {"kind": "geometric", "h": 0.1, "n_side": 4, "p": 0.99999},
            {"kind": "probability", "h": 0.1, "pmin": 0.05},
        ]
    methods1 = ["ALIAS", "TABLE", "BINARYSEARCHTREE", "HUFFMANNTREE", "INVERSION", "BINARYSEARCHTREEADAPTED1D"]
    for m in models:
        for g in grids:
            for k in ((0, 1, 2) if thorough else (0, 1)):
                if g["kind"] == "probability" and k > 1:
                    continue
                for meth in methods1:
                    out.append({"sub": "chain", "dim": 1, "model": m, "grid": dict(g, refine=k), "method": meth})
    cms = [
        {"margins": ["hem", "vg"], "copula": {"kind": "clayton", "theta": 0.7, "eta": 0.3}},
        {"margins": ["cgmy05", "cgmy12"], "copula": {"kind": "clayton", "theta": 3.0, "eta": 1.0}},
    ]
    if thorough:
        cms += [
            {"margins": ["hem", "hem2"], "copula": {"kind": "independent"}},
            {"margins": ["vg", "cgmy12"], "copula": {"kind": "clayton", "theta": 3.0, "eta": 0.0}},
            {"margins": ["hem", "vg"], "copula": {"kind": "dependent"}},
        ]
    grids2 = [
        {"kind": "fixed", "h": 0.1, "n": 3},
        {"kind": "fixed", "h": 0.1, "n": 5},
        {"kind": "credit", "h": 0.1, "a_frac": 0.5, "symmetric": True},
        {"kind": "credit", "h": 0.1, "a_frac": [0.4, 0.6], "symmetric": False},
    ]
    for cm in cms:
        for g in grids2:
            for k in ((0, 1) if (thorough or g["kind"] == "fixed") else (0,)):
                if g["kind"] == "credit" and k > 0 and not thorough:
                    continue
                for meth in ("INVERSION", "BINARYSEARCHTREEADAPTED"):
                    out.append({"sub": "chain", "dim": 2, "model": cm, "grid": dict(g, refine=k), "method": meth})
    cm3 = {"margins": ["hem", "vg", "cgmy05"], "copula": {"kind": "clayton", "theta": 0.7, "eta": 0.3}}
    for g in ([{"kind": "fixed", "h": 0.1, "n": 3}] + ([{"kind": "fixed", "h": 0.1, "n": 5}] if thorough else [])):
        for meth in ("INVERSION", "BINARYSEARCHTREEADAPTED"):
            out.append({"sub": "chain", "dim": 3, "model": cm3, "grid": dict(g, refine=0), "method": meth})
    return out


def history_specs(tier):
    thorough = tier == "thorough"
    depth = 4 if thorough else 3
    out = []
    hem = {"family": "hem", "exp": False, "params": {}}
    cg = {"family": "cgmy", "exp": False, "params": {"c": 1.0, "g": 15.0, "m": 20.0, "y": 1.2}}
    cm = {"margins": ["hem", "vg"], "copula": {"kind": "clayton", "theta": 0.7, "eta": 0.3}}
    for model, dim, grid in (
        (hem, 1, {"kind": "fixed", "h": 0.1, "n": 5, "refine": 0}),
        (cg, 1, {"kind": "geometric-bounds", "h": 0.1, "bounds": [-0.7, 0.4], "n_side": 3, "refine": 0}),
        (hem, 1, {"kind": "credit", "h": 0.1, "a_frac": 0.5, "symmetric": True, "refine": 0}),
        (cm, 2, {"kind": "fixed", "h": 0.1, "n": 3, "refine": 0}),
        (cm, 2, {"kind": "credit", "h": 0.1, "a_frac": [0.4, 0.6], "symmetric": False, "refine": 0}),
    ):
        for storage in (None, 3) + ((30,) if grid["kind"] == "credit" and dim == 2 else ()):
            out.append({"sub": "history", "dim": dim, "model": model, "grid": grid, "method": "INVERSION",
                        "storage": storage, "depth": depth})
        out.append({"sub": "history", "dim": dim, "model": model, "grid": grid,
                    "method": "BINARYSEARCHTREEADAPTED1D" if dim == 1 else "BINARYSEARCHTREEADAPTED", "storage": None,
                    "depth": depth})
    return out


def cases(tier):
    thorough = tier == "thorough"
    out = []
    Ds = (16, 12, 10) if thorough else (16,)
    Kmax = 6 if thorough else 5
    for D in Ds:
        for K in range(1, Kmax + 1):
            if K <= 3:
                out.append({"sub": "raw", "D": D, "K": K, "first": None})
            else:
                for j in range(D + 1):
                    out.append({"sub": "raw", "D": D, "K": K, "first": j})
    out.append({"sub": "rawx"})
    for D in (16, 12, 10):
        for K in range(1, (5 if thorough else 4)):
            out.append({"sub": "rawtable", "D": D, "K": K})
    out += chain_specs(tier)
    out += history_specs(tier)
    return out


def check_case(sh, case):
    {"raw": _raw, "rawx": _rawx, "rawtable": _rawtable, "chain": _chain, "history": _history}[case["sub"]](sh, case)


# ----------------------------------------------------------------------------------------------------------------------
# raw samplers
# ----------------------------------------------------------------------------------------------------------------------

def _ident(k):
    return k


def alias_edges(K, hi=1.0):
    """floats on both sides of every column edge x/K of an alias table with K columns (pieces start there)."""
    out = []
    for x in range(1, K):
        e = hi * x / K
        out += [e, math.nextafter(e, math.inf), math.nextafter(e, -math.inf), math.nextafter(math.nextafter(e, math.inf), math.inf)]
    return out


def raw_samplers(p):
    from rpylib.distribution.variate import huffmantree as H
    from rpylib.distribution.variate.alias import AliasMethod
    from rpylib.distribution.variate.binarysearchtree import BinarySearchTree

    def alias():
        s = AliasMethod(p, _ident)
        return lambda u: int(s._draw_with_u(u))

    def bst():
        s = BinarySearchTree(p, _ident)
        return lambda u: int(s.sample_with_u(u))

    def huff():
        s = H.HuffmanTree(p, _ident)
        return lambda u: int(H.sample_with_u(u, s.head)[0])

    return {"alias": alias, "binarysearchtree": bst, "huffmantree": huff}


def vec_class(c):
    K = len(c)
    if K == 1:
        return "length-1"
    z = "zeros" if 0 in c else "nozeros"
    return f"length>1:{z}"


def _raw(sh, case):
    D, K = case["D"], case["K"]
    n_nt = 0
    for c in compositions(D, K):
        if case["first"] is not None and c[0] != case["first"]:
            continue
        p = np.array(c, dtype=float) / D
        probes = [(i + 0.5) / (K * D) for i in range(K * D)]
        for name, mk in raw_samplers(p).items():
            sh.count("evaluations", len(probes))
            try:
                f = mk()
                cnt = [0] * K
                for u in probes:
                    k = f(u)
                    if not (0 <= k < K):
                        sh.violation(f"C02:raw:{name}:state-outside-range:{vec_class(c)}", f"p={list(c)}/{D}: u={u} -> {k}", None)
                        break
                    cnt[k] += 1
                else:
                    want = [cj * K for cj in c]
                    if cnt != want:
                        zero_hit = any(w == 0 and g > 0 for w, g in zip(want, cnt))
                        cls = "zero-probability-state-returned" if zero_hit else "law-differs"
                        sh.violation(f"C02:raw:{name}:{cls}:{vec_class(c)}",
                                     f"p={list(c)}/{D}: lattice counts {cnt} (units 1/{K * D}) instead of {want}", {"p": list(c), "D": D})
            except Exception as e:  # noqa
                sh.violation(f"C02:raw:{name}:raises-{type(e).__name__}:{vec_class(c)}", f"p={list(c)}/{D}: {e!r}", None)
        if sum(1 for x in c if x) >= 2:
            n_nt += 1
    sh.outcome((D, K, case["first"], n_nt))
    if n_nt:
        sh.nontriv()
    if K == 3 and D == 16:
        sh.sample({"sub": "raw", "example_vector": [3 / 16, 0.0, 13 / 16], "probes": 48, "samplers": ["alias", "bst", "huffman"]})


def _rawx(sh, case):
    """hand-listed extremes by partition recovery (break points not on a convenient lattice)."""
    vecs = [
        [1 - 2.0 ** -20, 2.0 ** -20],
        [2.0 ** -30, 1 - 2.0 ** -29, 2.0 ** -30],
        [0.5, 0.5 - 2.0 ** -30, 2.0 ** -30],
        [1 / 3, 1 / 3, 1 / 3],
        [0.1] * 10,
        [1.0 / 7] * 7,
        [0.0, 0.25, 0.0, 0.75, 0.0],
        [2.0 ** -k for k in range(1, 11)] + [2.0 ** -10],
    ]
    for p in vecs:
        p = np.array(p, dtype=float)
        K = len(p)
        for name, mk in raw_samplers(p).items():
            f = mk()
            pieces, ev, hi = recover_partition(f, 1 << 12, extra=alias_edges(K))
            sh.count("evaluations", ev)
            L = lengths(pieces, hi)
            for k in range(K):
                got = L.get(k, 0.0)
                if abs(got - p[k]) > 1e-12 + 1e-9 * p[k]:
                    cls = "zero-probability-state-returned" if p[k] == 0 else "law-differs"
                    sh.violation(f"C02:rawx:{name}:{cls}", f"p={p.tolist()}: state {k} gets length {got!r} instead of {p[k]!r}", None)
            if set(L) - set(range(K)):
                sh.violation(f"C02:rawx:{name}:state-outside-range", f"p={p.tolist()}: states {sorted(L)}", None)
        sh.outcome(tuple(p.tolist()))
    sh.nontriv()


def table_law(sh, tm, decode):
    """Exact law of a TableMethod as a function of the 32-bit integer it consumes (seam random.getrandbits): for every low
    byte, either the direct slot (independent of the upper bits: one probe) or the alias branch, whose map
    'upper 24 bits -> state' is recovered by integer bisection from a sweep of 256 probes plus the alias column edges.
    Returns (dict outcome -> probability, list of (low, returned, slot) mismatches for direct slots)."""
    from rpylib.distribution.variate import table as T

    J = list(tm.J)
    orig = T.random.getrandbits
    prob = {}
    mism = []
    Ka = getattr(getattr(tm, "alias_method", None), "K", 1) or 1

    def draw(i):
        T.random.getrandbits = lambda nbits: i
        r = tm.sample(1)
        return decode(r[0] if hasattr(r, "__len__") else r)

    try:
        for low in range(256):
            if J[low] >= 0:
                k = draw((0x5A5A5A << 8) | low)
                sh.count("evaluations")
                want = decode(tm.states(J[low]))
                if k != want:
                    mism.append((low, k, want))
                prob[k] = prob.get(k, 0.0) + 1.0 / 256
            else:
                def g(h, low=low):
                    return draw((h << 8) | low)

                n0 = 256
                hs = {((1 << 24) * i) // n0 for i in range(n0)} | {(1 << 24) - 1}
                for x in range(1, Ka):
                    e = ((1 << 24) * x) // Ka
                    hs.update(h for h in (e - 1, e, e + 1, e + 2) if 0 <= h < (1 << 24))
                hs = sorted(hs)
                vs = [g(h) for h in hs]
                sh.count("evaluations", len(hs))
                starts = [(0, vs[0])]

                def refine(a, fa, b, fb):
                    while b - a > 1:
                        m = (a + b) // 2
                        fm = g(m)
                        sh.count("evaluations")
                        if fm == fa:
                            a = m
                        elif fm == fb:
                            b = m
                        else:
                            refine(a, fa, m, fm)
                            refine(m, fm, b, fb)
                            return
                    starts.append((b, fb))

                for i in range(len(hs) - 1):
                    if vs[i] != vs[i + 1]:
                        refine(hs[i], vs[i], hs[i + 1], vs[i + 1])
                for (st0, st), nx in zip(starts, starts[1:] + [(1 << 24, None)]):
                    prob[st] = prob.get(st, 0.0) + (nx[0] - st0) / float(1 << 32)
    finally:
        T.random.getrandbits = orig
    return prob, mism


def _rawtable(sh, case):
    from rpylib.distribution.variate import table as T

    D, K = case["D"], case["K"]
    n_nt = 0
    for c in compositions(D, K):
        p = np.array(c, dtype=float) / D
        mult256 = all((256 * cj) % D == 0 for cj in c)
        cls = ("multiples-of-1/256" if mult256 else "generic") + (":length-1" if K == 1 else "")
        try:
            tm = T.TableMethod(p, _ident)
        except Exception as e:  # noqa
            sh.violation(f"C02:rawtable:constructor-raises-{type(e).__name__}:{cls}", f"p={list(c)}/{D}: {e!r}", None)
            continue
        J = list(tm.J)
        want_slots = [int(256 * pk) for pk in p]
        got_slots = [J.count(k) for k in range(K)]
        if len(J) != 256 or got_slots != want_slots:
            sh.violation(f"C02:rawtable:table-slots-differ-from-floor-256p:{cls}", f"p={list(c)}/{D}: slots {got_slots} (len {len(J)}) vs {want_slots}", None)
        try:
            prob, mism = table_law(sh, tm, lambda r: int(np.asarray(r).ravel()[0]))
        except Exception as e:  # noqa
            sh.violation(f"C02:rawtable:sample-raises-{type(e).__name__}:{cls}", f"p={list(c)}/{D}: {e!r}", None)
            continue
        for low, k, want in mism:
            sh.violation(f"C02:rawtable:direct-slot-not-returned:{cls}", f"p={list(c)}/{D}: low byte {low} -> {k}, table says {want}", None)
        for k in set(prob) - set(range(K)):
            sh.violation(f"C02:rawtable:state-outside-range:{cls}", f"p={list(c)}/{D}: state {k}", None)
        for k in range(K):
            if abs(prob.get(k, 0.0) - p[k]) > 2.0 ** -20:
                zc = "zero-probability-state-returned" if p[k] == 0 else "law-differs"
                sh.violation(f"C02:rawtable:{zc}:{cls}", f"p={list(c)}/{D}: state {k} has probability {prob.get(k, 0.0)!r} instead of {p[k]!r}", None)
        if sum(1 for x in c if x) >= 2:
            n_nt += 1
    sh.outcome((D, K, n_nt))
    if n_nt:
        sh.nontriv()


# ----------------------------------------------------------------------------------------------------------------------
# chain samplers
# ----------------------------------------------------------------------------------------------------------------------

def build_process(case):
    from rpylib.distribution.sampling import SamplingMethod
    from rpylib.process.markovchain.markovchain import MarkovChainProcess
    from rpylib.process.markovchain.markovchainlevycopula import MarkovChainLevyCopula

    method = SamplingMethod[case["method"]]
    if case["dim"] == 1:
        model = A.make_model(case["model"])
        grid = A.make_grid(case["grid"], model, 1)
        proc = MarkovChainProcess(model=model, method=method, grid=grid)
    else:
        model = A.make_copula_model(case["model"])
        grid = A.make_grid(case["grid"], model, case["dim"])
        proc = MarkovChainLevyCopula(levy_copula_model=model, grid=grid, method=method)
    return proc, grid


def target_law(proc, grid, dim):
    """dict increment(tuple) -> probability, from reference cells and the process's own truncated model."""
    lam = float(proc.intensity_of_jumps)
    if dim == 1:
        axis = grid.axes[0]
        o = grid.origin_coordinate.value
        cells, _ = O.ref_cells(axis, o, middle=grid.middle)
        out = {}
        for k, cell in enumerate(cells):
            if cell is None:
                continue
            out[(k - o,)] = max(float(proc.model.mass(float(cell[0]), float(cell[1]))), 0.0) / lam
        return out
    per_axis = []
    orig = list(grid.origin_coordinate)
    for k, axis in enumerate(grid.axes):
        # the n-d CTMCGrid.middle takes tuples; use the arithmetic mean per axis (CTMCGrid's definition for n-d grids)
        cells, central = O.ref_cells(axis, orig[k], middle=None)
        cells = [c if c is not None else central for c in cells]
        per_axis.append(cells)
    out = {}
    for idx in itertools.product(*[range(len(ax)) for ax in grid.axes]):
        inc = tuple(i - o for i, o in zip(idx, orig))
        if not any(inc):
            continue
        a = tuple(float(per_axis[k][i][0]) for k, i in enumerate(idx))
        b = tuple(float(per_axis[k][i][1]) for k, i in enumerate(idx))
        out[inc] = max(float(proc.model.mass(a, b)), 0.0) / lam
    return out


def as_inc(x):
    if isinstance(x, tuple):
        return tuple(int(v) for v in x)
    a = np.atleast_1d(np.asarray(x))
    return tuple(int(v) for v in a.ravel())


def single_entry(proc, case):
    """The single-uniform entry point of the sampler as a function u -> increment tuple, and the upper end of its domain."""
    import rpylib.distribution.variate.huffmantree as H
    import rpylib.distribution.variate.table as T

    s = proc.sampling
    meth = case["method"]
    if meth == "ALIAS":
        return (lambda u: as_inc(s.states(s._draw_with_u(u)))), 1.0
    if meth == "BINARYSEARCHTREE":
        return (lambda u: as_inc(s.sample_with_u(u))), 1.0
    if meth == "HUFFMANNTREE":
        return (lambda u: as_inc(s.states(H.sample_with_u(u, s.head)[0]))), 1.0
    if meth in ("INVERSION", "BINARYSEARCHTREEADAPTED1D"):
        return (lambda u: as_inc(s.sample_with_u(u))), 1.0
    if meth == "BINARYSEARCHTREEADAPTED":
        hi = float(s.uniform.high)
        return (lambda u: as_inc(s.sample_with_us(np.array([u], dtype=float))[0])), hi
    raise ValueError(meth)


def _chain(sh, case):
    import numpy.random as npr

    dim, meth = case["dim"], case["method"]
    gk = case["grid"]["kind"]
    mk = case["model"].get("family") or "+".join(case["model"]["margins"])
    tag = f"d{dim}:{meth.lower()}"
    cls = f"{gk}:{mk}"
    try:
        proc, grid = build_process(case)
    except A.OutsideAlphabet:
        sh.count("outside-alphabet-grid")
        return
    except Exception as e:  # noqa
        sh.violation(f"C02:chain:{tag}:constructor-raises-{type(e).__name__}:{cls}", f"{e!r}", None)
        return
    law = target_law(proc, grid, dim)
    nstates = len(law)
    if meth == "TABLE":
        try:
            prob, mism = table_law(sh, proc.sampling, as_inc)
        except Exception as e:  # noqa
            sh.violation(f"C02:chain:{tag}:sample-raises-{type(e).__name__}:{cls}", f"{e!r}", None)
            return
        for low, k, want in mism[:1]:
            sh.violation(f"C02:chain:{tag}:direct-slot-not-returned:{cls}", f"low byte {low} -> {k}, table says {want}", None)
        for inc, pk in law.items():
            got = prob.get(inc, 0.0)
            if abs(got - pk) > 2.0 ** -20:
                c2 = "zero-probability-state-returned" if pk == 0.0 else ("state-never-returned" if got == 0.0 else "law-differs")
                sh.violation(f"C02:chain:{tag}:{c2}:{cls}", f"state increment {inc}: probability {got!r}, target {pk!r}", None)
        for st in set(prob) - set(law):
            c2 = "origin-returned" if not any(st) else "state-outside-grid"
            sh.violation(f"C02:chain:{tag}:{c2}:{cls}", f"increment {st} returned with probability {prob[st]!r}", None)
        sh.outcome((tag, cls, case["grid"].get("refine"), nstates, len(prob)))
        if sum(1 for v in law.values() if v > 0) >= 2:
            sh.nontriv()
        return
    # hidden randomness: scripted numpy.random.choice, two answers
    orig_choice = npr.choice
    results = []
    evals = 0
    for pick in (0, -1):
        npr.choice = lambda a, *args, pick=pick, **kw: list(a)[pick]
        try:
            procx, gridx = build_process(case)
            f, hi = single_entry(procx, case)
            n0 = 1 << max(10, int(math.ceil(math.log2(16 * max(nstates, 1)))))
            extra = alias_edges(len(grid.axes[0]), hi) if meth == "ALIAS" else ()
            pieces, ev, hi = recover_partition(f, n0, 0.0, hi, extra=extra)
            evals += ev
            results.append((pieces, hi, f))
        except Exception as e:  # noqa
            npr.choice = orig_choice
            sh.violation(f"C02:chain:{tag}:single-uniform-entry-raises-{type(e).__name__}:{cls}", f"{e!r}", None)
            return
        finally:
            npr.choice = orig_choice
        if meth != "INVERSION":
            break
    sh.count("evaluations", evals)
    pieces, hi, f = results[0]
    L = lengths(pieces, hi)
    scale = hi
    # (1) law
    worst = 0.0
    for inc, pk in law.items():
        got = L.get(inc, 0.0) / scale
        err = abs(got - pk)
        worst = max(worst, err)
        tol = 1e-12 + 1e-9 * pk
        if err > tol:
            if pk == 0.0:
                c2 = "zero-probability-state-returned"
            elif got == 0.0:
                c2 = "state-never-returned"
            else:
                c2 = "law-differs"
            sh.violation(f"C02:chain:{tag}:{c2}:{cls}",
                         f"state increment {inc}: recovered length {got!r}, target mass/intensity {pk!r} ({nstates} states)",
                         {"increment": inc, "recovered": got, "target": pk})
    # (2) range
    extra = [s for s in L if s not in law]
    for s in extra:
        frac = L[s] / scale
        if not any(s):
            c2 = "origin-returned"
        else:
            c2 = "state-outside-grid"
        if frac > 4 * 2.0 ** -52:
            sh.violation(f"C02:chain:{tag}:{c2}:{cls}", f"increment {s} returned on a set of length {frac!r}", None)
    # (1b) the same law when the memoised prefix is shorter than the number of states (scaled-down overflow regime of the
    # inversion sampler: _max_storage is 10^6 in the library; here about 60 % of the states, so that the enumeration is
    # restarted behind the stored prefix for the remaining ones - on grids where the pairing skips inadmissible indices too)
    if meth == "INVERSION" and nstates >= 5:
        npr.choice = lambda a, *args, **kw: list(a)[0]
        try:
            procs, grids_ = build_process(case)
            procs.sampling._max_storage = max(3, int(0.6 * nstates))
            fs, his = single_entry(procs, case)
            ps, ev, his = recover_partition(fs, n0, 0.0, his)
            sh.count("evaluations", ev)
            Ls = lengths(ps, his)
            for inc, pk in law.items():
                got = Ls.get(inc, 0.0) / his
                if abs(got - pk) > 1e-12 + 1e-9 * pk:
                    sh.violation(f"C02:chain:{tag}:law-differs-under-scaled-storage:{cls}",
                                 f"_max_storage={procs.sampling._max_storage} (of {nstates} states): state increment {inc}: recovered length {got!r}, target {pk!r}",
                                 {"increment": inc, "recovered": got, "target": pk})
                    break
        except Exception as e:  # noqa
            sh.violation(f"C02:chain:{tag}:scaled-storage-raises-{type(e).__name__}:{cls}", f"{e!r}", None)
        finally:
            npr.choice = orig_choice
    # (3) hidden randomness
    if len(results) == 2:
        p2, hi2, _ = results[1]
        L2 = lengths(p2, hi2)
        diff = sum(abs(L.get(k, 0.0) - L2.get(k, 0.0)) for k in set(L) | set(L2))
        if diff > 8 * 2.0 ** -52:
            sh.violation(f"C02:chain:{tag}:result-depends-on-hidden-random-choice:{cls}",
                         f"the map u -> state changes on a set of length {diff / 2!r} with the answer of numpy.random.choice", None)
    # (4) batch equals element-wise single (through the uniform seam)
    if True:
        us = [p[0] for p in pieces[:40]] + [math.nextafter(p[0], -math.inf) for p in pieces[1:40]] + [0.0, math.nextafter(hi, -math.inf)]
        us = [u for u in us if 0.0 <= u < hi]
        import rpylib.distribution.univariate.uniform as U

        orig_u = U.npr.uniform
        try:
            procb, _ = build_process(case)
            fb, _ = single_entry(procb, case)
            npr.choice = lambda a, *args, **kw: list(a)[0]
            single = [fb(u) for u in us]
            procc, _ = build_process(case)
            U.npr.uniform = lambda low=0.0, high=1.0, size=None: np.array(us, dtype=float)
            npr.choice = lambda a, *args, **kw: list(a)[0]
            try:
                batch = procc.sampling.sample(size=len(us))
                batch = [as_inc(b) for b in batch]
            finally:
                U.npr.uniform = orig_u
                npr.choice = orig_choice
            sh.count("evaluations", 2 * len(us))
            if batch != single:
                j = next(i for i, (a, b) in enumerate(zip(batch, single)) if a != b) if len(batch) == len(single) else -1
                sh.violation(f"C02:chain:{tag}:batch-differs-from-single-uniform-entry:{cls}",
                             f"sample(size={len(us)}) with scripted uniforms: element {j}: batch {batch[j] if j >= 0 else len(batch)} vs single {single[j] if j >= 0 else len(single)}",
                             {"u": us[j] if j >= 0 else None})
        except Exception as e:  # noqa
            U.npr.uniform = orig_u
            npr.choice = orig_choice
            sh.violation(f"C02:chain:{tag}:batch-call-raises-{type(e).__name__}:{cls}", f"sample(size=n): {e!r}", None)
    sh.outcome((tag, cls, case["grid"].get("refine"), nstates, len(pieces)))
    if sum(1 for v in law.values() if v > 0) >= 2:
        sh.nontriv()
    if dim == 1 and meth == "INVERSION" and gk == "fixed" and case["grid"].get("n") == 5 and case["grid"].get("refine") == 0:
        sh.sample({"sub": "chain", "case": case, "pieces": [(s, list(st)) for s, st in pieces[:8]],
                   "target": {str(k): v for k, v in list(law.items())[:6]}, "max_abs_error": worst})


# ----------------------------------------------------------------------------------------------------------------------
# history search
# ----------------------------------------------------------------------------------------------------------------------

def _history(sh, case):
    import numpy.random as npr

    dim, meth = case["dim"], case["method"]
    tag = f"d{dim}:{meth.lower()}:{'scaled-storage' if case['storage'] else 'default-storage'}"
    orig_choice = npr.choice
    npr.choice = lambda a, *args, **kw: list(a)[0]
    try:
        try:
            proc0, grid = build_process(case)
        except A.OutsideAlphabet:
            sh.count("outside-alphabet-grid")
            return
        f0, hi = single_entry(proc0, case)
        law = target_law(proc0, grid, dim)
        
        nstates = len(law)
        pieces, ev, hi = recover_partition(f0, 1 << 10, 0.0, hi)
        # menu: one u inside every piece, the first u of every piece, 0, top
        menu_us = []
        for (s, st), nx in zip(pieces, pieces[1:] + [(hi, None)]):
            menu_us.append(s + (nx[0] - s) / 2)
        menu_us += [pieces[len(pieces) // 2][0], 0.0, math.nextafter(hi, -math.inf)]
        menu_us = sorted(set(menu_us))
        if len(menu_us) > 14:
            # spread over the whole of [0, hi): the draws beyond the memoised prefix are the interesting ones
            idx = sorted({round(i * (len(menu_us) - 1) / 13) for i in range(14)})
            menu_us = [menu_us[i] for i in idx]
        fresh = {}
        for u in menu_us:
            p, _ = build_process(case)
            if case["storage"]:
                p.sampling._max_storage = case["storage"]
            fu, _ = single_entry(p, case)
            fresh[u] = fu(u)

        reuse = {"arr": None}

        def build(hist):
            p, _ = build_process(case)
            s = p.sampling
            if case["storage"] and hasattr(s, "_max_storage"):
                s._max_storage = case["storage"]
            fu, _ = single_entry(p, case)
            obs = []
            if meth == "BINARYSEARCHTREEADAPTED":
                # drive with a re-used argument array as well: sample_with_us mutates its argument
                for i in hist:
                    arr = np.array([menu_us[i]], dtype=float)
                    obs.append(as_inc(s.sample_with_us(arr)[0]))
            else:
                for i in hist:
                    obs.append(fu(menu_us[i]))
            return p, obs

        def menu(state, hist):
            return list(range(len(menu_us)))

        def canon(state, hist):
            p, obs = state
            s = p.sampling
            cum = getattr(s, "_cumulative_probabilities", None)
            sm = getattr(s, "state_manager", None)
            key = [len(cum) if cum is not None else None, getattr(sm, "_last_projected_index", None) if sm is not None else None]
            if cum is None:
                # caches only: the futures of the adapted trees depend on nothing but cached pure values; the state is
                # the set of distinct draws made (kept so that the search still visits every ordered pair / triple)
                key.append(tuple(sorted(set(hist))))
            return tuple(key)

        def invariant(state, hist, ev):
            if ev is None:
                return None
            p, obs = state
            u = menu_us[ev]
            if obs[-1] != fresh[u]:
                return (f"C02:history:{tag}:answer-depends-on-earlier-draws",
                        f"after draws at u={[menu_us[i] for i in hist[:-1]]} the sampler maps u={u!r} to {obs[-1]} but a fresh sampler maps it to {fresh[u]}",
                        {"history_us": [menu_us[i] for i in hist], "observed": obs})
            return None

        s_, t_, d_ = core.bfs(sh, build, menu, canon, invariant, case["depth"], max_states=4000)
        sh.count("evaluations", t_)
        sh.outcome((tag, nstates, s_, t_))
        sh.nontriv()
        if dim == 1 and meth == "INVERSION" and case["storage"] is None and case["grid"]["kind"] == "fixed":
            sh.sample({"sub": "history", "case": case, "menu_us": menu_us, "bfs_states": s_, "bfs_transitions": t_})
    finally:
        npr.choice = orig_choice
