"""C11 - the Levy copulas offered by the model helpers are Levy copulas: grounded, d-increasing, uniform margins; the Clayton
conditional distribution is a distribution function whose stated inverse inverts it; the stated mixed derivative.

Mode: lattice sweep (every tuple of the stated finite products is evaluated on the real objects, nothing is sampled).

Copulas (all built through rpylib.model.utils: create_clayton_copula / create_independent_copula / create_dependent_copula)
    Clayton theta x eta, independent, completely dependent; dimension 2 and 3.
        quick     theta in {0.3, 0.7, 1, 3}        x eta in {0, 0.3, 0.5, 1}
        thorough  theta in {0.1, 0.3, 0.7, 1, 3, 10} x eta in {0, 0.3, 0.5, 0.9, 1}
    plus objects WITH A HISTORY ("twins", spec key `via`): the same public parameter values reached on a re-used object.
    Every sub-check below runs on them exactly as on a freshly built object (violation keys get the suffix :via-<route>;
    in the quick tier a twin gets one slice of the 3-d rectangle lattices and two of the six 2-d margins).  Routes:
        set               built with other (theta, eta), both attributes re-assigned before any use
        use-set           built with other values, every public entry point used (d = 2 and 3, all orthants, volume / margin
                          operators, conditional distribution, inverse, derivative, repr; also at every point the
                          sub-check `history` observes afterwards), then theta and eta re-assigned
        use-set-eta-first same, eta assigned before theta;   set-theta / set-eta: only one of the two attributes changes
        round-trip        built with the target values, used, re-assigned to other values, used, re-assigned back
        other-between     a second object of the class is built, used, re-parametrised and used in between (class-level state)
        deepcopy-set      a deep copy of a used object is re-parametrised;   copy-sibling-set: a shallow copy of the used
                          object is re-parametrised and used, the original is observed (shared mutable state)
        pickle            re-parametrised, then sent through a dill round trip (what the engines' pool does)
        clones, THE CLONE IS OBSERVED (clone = copy.copy / copy.deepcopy / dill round trip of a used object; the product
        {which of the two objects is re-parametrised after cloning} x {which is observed} is covered together with
        deepcopy-set / copy-sibling-set above):
          copy              shallow copy, nothing re-parametrised
          copy-set / pickle-set            the clone is re-parametrised (a bumped copy), the original is used again, clone observed
          copy-kept / deepcopy-kept / pickle-kept   the clone is kept aside, the ORIGINAL is re-parametrised and used, clone observed
          copy-original-set a shallow copy is taken and used, the original is re-parametrised and observed
          copy-of-copy-set  shallow copy of a re-parametrised shallow copy, re-parametrised again
        int-parameters    integer-valued theta / eta handed over as Python ints
        numpy-parameters  theta / eta handed over as numpy.float64;   positional-parameters: create_clayton_copula(theta, eta)
        independent / dependent copulas: used, other-between, deepcopy, pickle, copy
      quick: one twin per Clayton route (targets (0.3,0.3), (0.7,0.5), (1,0), (3,1), (0.7,0.3) in turn, starting values off
      the lattice), two int-parameter twins, one numpy- and one positional-parameter twin, three twins per parameter-free
      copula; thorough: one per route with targets (0.1,0.9), (0.3,0.3), (0.7,0.5), (1,0), (3,1), (10,0.3), (0.7,0.3) in turn,
      three int-parameter twins, all plain routes,
      full A8 / X3 3-d lattices and all six 2-d margins for every twin (the wide 3-d lattices A10 / X3W: fresh objects only).

Sub-checks (alphabet / oracle)
 history    (differential) for every ordered pair (from -> to) of the parameter menu {(0.3,0), (0.7,0.3), (1,0.5), (3,1)}
            (thorough: 6 pairs of values) and every Clayton route, and for every route of the parameter-free copulas: the
            object reached through the history gives the same values as a freshly built object with the same public
            parameters for F on {-inf,-5,-0.2,-1e-200,0,1e-200,0.2,1,inf}^2 and {-inf,-1,0,0.2,5,inf}^3, the conditional
            distribution on {+-0.2, +-5} x X, the inverse on {+-0.2, +-5} x U (one call), x_first_derivative on
            {-5,-0.2,0,0.2,1}^d (equal, both nan, or 1e-13 relative: the two objects execute the same code on the same
            parameters).  The fresh object is what all other sub-checks judge.  A history that cannot be carried out because
            a public attribute rejects assignment (AttributeError) is counted `history_not_constructible`, never an alarm.
            The parameter-form routes (int / numpy / positional) are run for every value of the menu they apply to.
 args       (differential, every copula and every twin) ARGUMENT FORM of every public entry point - F(us) in d = 2 on
            {-inf,-5,-0.2,-1e-200,-0.0,0,1e-200,0.2,1,inf}^2 and d = 3 on {-inf,-1,-0.0,0.2,5,inf}^3, margin(F, I, d)(u),
            volume(F, a, b), and for Clayton conditional_distribution on {+-0.2, +-1, +-5} x (X + {-0.0}),
            inverse_conditional_distribution on {+-0.2, +-1, +-5} x U, x_first_derivative on {-5,-0.2,-0.0,0,0.2,1}^d:
            (a) the caller's argument objects (arrays, lists, tuples; the whole parent array of a view) are the same BIT FOR
                BIT after every call (dtype, shape, bytes: a sign of zero counts);
            (b) the usual form (a fresh float64 array; Python float eps) and every other form THE UNCHANGED TREE ACCEPTS give
                the same answer: a second call on the same array, one work array re-filled point after point (what the margin
                operator does), a strided view (column of a 2-d array), integer-dtype arrays / integer lists for
                integer-valued points, eps as Python int / numpy.float64 / numpy.int64 / 0-d array / one-element array /
                integer array, keyword arguments, index sets of margin() as list / tuple / array, its argument as list /
                tuple / array / integer list, the corners of volume() as lists / tuples / arrays / integer lists; the
                vectorised inverse against element-wise calls, against the reversed arrays, a scalar first argument against
                the full array, no element (shape (0,)), one call with more than 65536 elements.  Same object, same parameters, same floating-point operations:
                exact equality, 1e-13 relative where an integer is converted on the way, 1e-9 relative between vectorised
                and element-wise evaluations of the inverse (numpy may use another pow kernel; the inverse amplifies one ulp
                of c^(-theta/(1+theta)) - 1 by up to 1e6 at u = 1 - 1e-6).  An accepted form that raises is a violation;
            (c) no aliasing: a returned array keeps its values when the caller overwrites its argument arrays afterwards
                and when the function is called again (next call, same shapes);
            (d) the tie x = -0.0 of the conditional distribution equals x = 0.0.
            Integer-dtype arrays next to an integer-typed theta (route int-parameters) are rejected by numpy on the unchanged
            tree ("Integers to negative integer powers"): counted `form_outside_alphabet`, never run.
 grounded   every u in (A14 + {-inf, -0.0} + extreme letters)^d with at least one zero entry: F(u) == 0 exactly.
            Extreme letters: +-{1e-300, 1e-200, 1e-120, 1e-60, 1e-10, 1e10, 1e60, 1e120, 1e200, 1e300} (Clayton: those with
            theta |log10 |u|| <= 300, see exclusions).
 volume     every rectangle (a, b] with a_i < b_i (a_i == b_i and a_i = -inf: sub-check `degenerate`), a_i, b_i in the coordinate alphabet, EXCEPT those whose upper ends are all
            +inf (their volume involves F(inf,...,inf) = +inf, not a number the implementation is asked to produce).
            Observed: rpylib.model.levycopulamodel.volume(F, a, b) (F adapted to the generator the library hands over, as
            LevyCopulaModel.margin_tail_integral does) and an independent signed sum (iterated differences, coordinate by
            coordinate, over F evaluated once per lattice vertex).  Oracle: both are numbers, they agree to the rounding of
            a 2^d-term sum, and volume >= -slack.
            A8 (d=2 and d=3, both tiers) = {-5, -1, -0.2, 0, 0.2, 1, 5, +inf}: 735 / 21 609 rectangles per copula;
            thorough in addition: d=3 on A10 = A8 + {-25, 25}: 90 396 rectangles per copula, and d=2 on the wide alphabet
            A14 = {-1e3, -25, -5, -1, -0.2, -1e-3, 0, 1e-3, 0.2, 1, 5, 25, 1e3, +inf}: 8 112 rectangles per copula.
            Extreme magnitudes (products of the arguments underflow to +-0.0, overflow, or are 0 * inf = nan):
            X2 (d=2, quick) = +-{1e-300, 1e-200, 1e-10, 1, 1e10, 1e300} + {0, +inf}: 8 112 rectangles per copula;
            X3 (d=3, both tiers) = {-1e120, -1e-120, -1e-200, 0, 1e-200, 1e-120, 1e120, +inf}: 21 609 per copula;
            thorough: X2W = +-{1e-300, 1e-200, 1e-120, 1e-60, 1e-10, 1, 1e10, 1e60, 1e120, 1e200, 1e300} + {0, +inf} (75 647)
            and X3W = X3 + {-1, 1} (90 396).  For the Clayton family the letters are filtered by theta (exclusions);
            an alphabet left with fewer than 4 letters is skipped (X3 for theta >= 3).
            Options of the margin operator: on the d=2 A8 lattice and on the first slice of the d=3 A8 lattice the volume is
            also taken through margin(F, None, d) and margin(F, [0..d-1], d) (both denote F) and compared with the signed sum.
 degenerate every rectangle (a, b], a <= b, with at least one SPECIAL side: collapsed (a_i == b_i, also the pair a_i = -0.0,
            b_i = 0.0; one, two or all sides; at finite points, at 0, at extreme magnitudes, at +inf and at -inf) or with the
            lower end -inf; the other sides run over all a_i <= b_i of the letters.  Excluded: rectangles with a vertex whose
            coordinates are all infinite (every side has an infinite end).  Observed: levycopulamodel.volume, the independent
            signed sum and (d = 2; one slice in d = 3) the volume through margin(F, None, d) / margin(F, all, d).  Oracle: an
            empty rectangle has volume 0 up to the rounding of the 2^d-term sum (|v| <= 4 2^d eps sum|terms|; the twin
            vertices carry the same value with opposite signs), in particular it is not negative; a rectangle with a lower
            end -inf is judged as in `volume`.  Letters: -inf + the alphabet with -0.0 inserted before 0.0.
            quick: d=2 E2 = A8-based (1800 rectangles per copula) and EX2 = X2-based, every copula and twin; d=3 fresh
            objects E3 = {-inf,-1,-0.0,0,0.2,5,inf} (19 208) and EX3 = {-1e120,-1e-200,0,1e-200,1e120,inf}, twins
            E3S = {-inf,-1,0,0.2,inf}; thorough: d=2 A14- / X2W-based, d=3 A8- / X3-based (fresh), E3 (twins).
            Violation keys deliberately carry no rectangle class (the runner re-runs one case per key).
            The sub-checks margin2 (collapsed sides of the 2-d rectangles) and args (empty rectangles and a lower end -inf
            in every form of the corners) enumerate such rectangles too.
 margin1    margin(F, [i], d)(u) == u for every i, every finite u of the (wide) alphabet including 0 and of the extreme
            letters (the operator itself evaluates F at -inf / +inf in the other coordinates; -inf also occurs as a lower end in `degenerate` / `args`);
            argument handed over as a list and as an array (as LevyCopulaModel.margin_tail_integral does).
 margin2    d = 3: the two-dimensional margins margin(F, [i, j], 3) (limits of 3-d rectangles whose third side is the whole
            line; this is where the margin operator takes the -inf limit) give a non-negative volume to every 2-d rectangle
            of A8 (thorough: A10), again through the library's volume and through an independent 3-d signed sum with third side (-inf, +inf].
            Index pairs in both orders: [0,1], [0,2], [1,2], [1,0], [2,0], [2,1].
 conditional (Clayton, 2-d) for eps in E = +-{0.2, 1, 5, 1e-100, 1e100} (thorough: + +-{1e-3, 0.04, 25}), x along
            X = {-inf, -1e300, -1e100, -1e3, -25, -5, -1, -0.2, -0.04, -1e-3, -1e-100, -1e-300, 0, 1e-300, ..., 1e300, +inf}:
            values in [0, 1], non-decreasing along X, 0 at -inf, 1 at +inf.  Inverse: F_eps(inv(eps, u)) = u for u in
            U = {k/16} + {1e-6, 1e-3, 1-1e-3, 1-1e-6} + the exact ties {eta, 1 - eta} of the inverse's comparisons (when inside
            (0, 1)); inv(eps, F_eps(x)) = x for every finite x of X on whose half line F_eps is
            strictly increasing (orthant weight > 0; x = 0 needs both weights > 0).
 inverse_mixed (Clayton) ONE vectorised call of the inverse with first arguments of both signs and every magnitude of E
            (the series representation calls it with eps = tau (2 U - 1)) x U; F_eps(inverse) = u and the half line, per element.
 xderiv     (Clayton) x_first_derivative(u) against the central mixed finite difference of the copula at u, for u with
            finite non-zero entries of either sign from {0.2, 1, 5} (quick) / {0.04, 0.2, 1, 5, 25} (thorough), d = 2, 3.
            The statement is checked as written: x_first_derivative(u) = d^dF/du_1..du_d (u) * prod(u_i).  A failure is
            classified (the class is part of the violation key): the stated derivative equals the plain mixed partial
            derivative (product factor missing), minus the plain derivative, or is unrelated to it.  u with a zero entry:
            the product is 0 and the mixed derivative is finite (limit 0), so the stated derivative must be exactly 0
            (zero entries 0.0 and -0.0; the other entries from the letters above and the extreme letters).

Exact relations and tolerances (eps = 2^-52)
 * grounded: exact.  library volume vs signed sum: same 2^d rounded terms, only the order of summation differs:
   |difference| <= 4 * 2^d * eps * sum|terms|.
 * volume >= -slack with slack = (64 + 4 d / theta + 2 L) * eps * sum|terms| (theta := 1 for the other two copulas).  Each Clayton
   term is computed with relative error <= (16 + d/theta) eps: one pow per argument, a d-term sum of positive numbers whose
   error is amplified 1/theta by the outer pow, the outer pow, the rounding of its exponent -1/theta (effect |ln F| eps/2
   <= 9 eps on A8..A14; on any alphabet <= L eps / 2 with L = max |ln |letter|| <= 691, which is why the slack factor gets the
   additional term 2 L), two products; summation adds 2^d eps.  The true volume is >= 0 (Kallsen-Tankov,
   Theorem 6.1 / Example 6.2, Theorems 4.4 and 4.6), so the computed one is >= -(that bound) * sum|terms|; the slack is 4
   times it.  A wrong formula gives volumes of relative size 1e-1 .. 1e0.
 * margin1: |m(u) - u| <= (64 + 16/theta + 4 |ln |u||) eps |u| (2^(d-1) terms each equal to a weight times |u| up to the pow roundings).
 * conditional: monotone / range / limits with an absolute slack 16 eps (values are a base in [0,1] plus a product in [0,1]).
   F(inv(u)) = u: first-order forward error analysis (module function _tol_u) gives <= ~60 eps; used with a factor 4.
   inv(F(x)) = x is ill conditioned where F is flat; the relative tolerance 4 kappa eps is computed per point from the
   same analysis (_kappa_x); points with 4 kappa eps > 1e-6 are counted as `inverse_ill_conditioned`, never an alarm.
 * xderiv involves a finite difference.  FD(u, rho) = volume of the box [u - h, u + h], h_i = rho |u_i|, divided by
   prod(2 h_i).  Since F is smooth inside an orthant, FD is EXACTLY the average of the mixed derivative D over the box, so
   |FD - D(u)| <= 1/2 sum_ij max_box|d_i d_j D| * mean|dv_i dv_j| (the linear Taylor term averages to 0 on the symmetric box).
   For the Clayton family, with t_k = ln|v_k|:  |d ln|D| / dt_i| <= Abar = max(theta + 1, (d-1) theta) and
   |d^2 ln|D| / dt_i dt_j| <= Bbar = theta (1 + d theta) / 4  (w_i = |v_i|^-theta / S in (0,1), w(1-w) <= 1/4), hence
   |d_i d_j D(v)| <= |D(v)| (Abar^2 + Abar + Bbar) / |v_i v_j|,  |D(v)| <= |D(u)| exp(Abar d lam), lam = -ln(1 - rho), and
        |FD - D(u)| <= tau |D(u)|,   tau = 1/2 (Abar^2 + Abar + Bbar) (d/3 + d(d-1)/4) rho^2 exp(Abar d lam) / (1-rho)^2.
   Rounding of the 2^d-term difference: r = 4 (12 + d/theta + 2^d) eps sum|F(corner)| / prod(2 h_i) (measured on the actual
   corner values).  rho is taken from the menu {1e-2, 3e-3, 1e-3, 3e-4, 1e-4} as the one minimising the total bound
   tolD = r + tau (|FD| + r) / (1 - tau); the comparison is |X - P FD| <= |P| tolD + 64 (1 + d/theta) eps |X|.  If the
   property holds the bound holds (it is a theorem about the Clayton formula, not an estimate), so the comparison cannot
   fire on a correct implementation; points where tolD > 1e-2 |FD| are counted `fd_inconclusive` (never an alarm).
   Known defects are off by factors (|P| in {0.04 .. 125}, or a sign).

Observed on the PINNED tree when the module was first built (triage in the builder's report; the sign and the nan have
since been repaired by fix: commits, the missing factor is the open known finding): x_first_derivative returned sgn(prod u) times the plain
mixed derivative - no factor prod(u) (keys ...:equals-plain-mixed-derivative-not-times-product:*:prod>0) and the wrong sign
on the orthants where the product is negative (keys ...:equals-minus-plain-mixed-derivative-...:prod<0; this one makes
MarkovChainSDE._integral_zz, its only caller, integrate |x y| instead of x y).  inverse_conditional_distribution(eps > 0,
u = 1 - eta) is nan for eta = 0.3 (u - 1 + eta is rounded differently from the test u >= 1 - eta): key ...:x=0.

Outside the alphabet (statement silent or excluded): Clayton arguments with theta |log10 |u|| > 300 (|u|^-theta or its
sum leaves the range of normal doubles: the formula returns 0 or inf there although the true value is representable - e.g.
theta = 3, F(1e-120, inf) = 0 instead of 1e-120 eta; a limitation of evaluating the closed form in double precision, reported
but not judged); extreme magnitudes in the finite-difference part of xderiv (|prod u|^(-theta-1) overflows; the mixed difference
of arguments of very different size is lost in rounding); histories that poke private attributes or assign parameter values
outside theta > 0, eta in [0, 1]; FrankLevyCopula (no helper in rpylib.model.utils offers it); rectangles with a vertex whose coordinates are all infinite (upper ends all +inf;
every side with an infinite end); -inf as an UPPER end; margin at u = +inf; a_i > b_i; eps = 0 in the conditional distribution;
u in {0, 1} for the inverse; x on a half line that carries no mass (eta in {0, 1}); infinite arguments of
x_first_derivative; argument forms the unchanged tree rejects (lists / tuples / 0-d / (1,n) arrays as the argument of a
copula, of the conditional distribution, of the inverse or of the derivative: the signatures say np.array and the code
reads .size / .shape) and float32 arrays (another precision, nothing stated); the index list handed to margin() modified
AFTER the operator was built (the closure reads the caller's list at call time: latent, the library never does it);
dimension 1 and empty arguments of the copulas; conditional distribution / derivative of the independent and dependent copulas (not stated);
dimension > 3; d > 2 conditional distribution (the library raises NotImplementedError).
"""
from __future__ import annotations

import copy
import itertools
import math

import numpy as np

from mc import core
from mc import alphabets

PID = "C11"
LEVEL = "exploration"
RULE = (
    "complete products: copula parameters x dimension x all rectangles (a_i < b_i) of the coordinate alphabet except those "
    "with all upper ends +inf; all zero-containing argument vectors; all (eps, x) / (eps, u) pairs; all sign/magnitude "
    "tuples for the mixed derivative; all (route, from, to) histories of the route menu x parameter menu; all (entry point, "
    "point of its lattice, accepted argument form) triples of the sub-check args.  A case is non-trivial when at least one oracle comparison was made on real output; "
    "distinct = distinct case dict (copula, dimension, sub-check, slice of the rectangle lattice)"
)
ASSUMPTIONS = [
    "continuous quantifiers (theta, eta, arguments) are covered at the stated lattice points only",
    "rectangles whose upper ends are all +inf are excluded (F(inf,..,inf) = +inf is not a number the code is asked for)",
    "finite-difference oracle for the mixed derivative uses the proven truncation bound of the Clayton family stated in the "
    "module docstring plus a measured rounding bound; inconclusive points are counted, never alarmed",
    "volume slack (64 + 4d/theta + 2 max|ln|letter||) eps sum|terms| from a forward error analysis of the Clayton formula in double precision",
    "Clayton arguments with theta*|log10|u|| > 300 are excluded (the power |u|^-theta leaves the range of normal doubles)",
    "objects with a history are compared with freshly built objects of the same public parameters (same code, same parameters: "
    "equal up to 1e-13) and are judged by every sub-check; the menu of histories is the stated finite list of routes",
    "argument forms: the menu is the list of forms the unchanged tree accepts (module docstring, sub-check args); each is compared "
    "with the usual form on the same object; forms the unchanged tree rejects are outside the alphabet",
]

EPS = 2.0 ** -52
INF = math.inf

A8 = [-5.0, -1.0, -0.2, 0.0, 0.2, 1.0, 5.0, INF]
A10 = [-25.0, -5.0, -1.0, -0.2, 0.0, 0.2, 1.0, 5.0, 25.0, INF]
A14 = [-1e3, -25.0, -5.0, -1.0, -0.2, -1e-3, 0.0, 1e-3, 0.2, 1.0, 5.0, 25.0, 1e3, INF]
# extreme magnitudes (arguments of a Levy copula are tail integrals: tiny far in the tails, huge next to the origin); the
# products of two / three such letters underflow to +-0.0, overflow to +-inf, or give 0 * inf = nan
XM2 = [1e-300, 1e-200, 1e-10, 1.0, 1e10, 1e300]
XM2W = [1e-300, 1e-200, 1e-120, 1e-60, 1e-10, 1.0, 1e10, 1e60, 1e120, 1e200, 1e300]
X2 = sorted([-m for m in XM2] + [0.0] + XM2) + [INF]
X2W = sorted([-m for m in XM2W] + [0.0] + XM2W) + [INF]
X3 = [-1e120, -1e-120, -1e-200, 0.0, 1e-200, 1e-120, 1e120, INF]
X3W = [-1e120, -1.0, -1e-120, -1e-200, 0.0, 1e-200, 1e-120, 1.0, 1e120, INF]
XEXT = sorted(set(x for x in X2W if x not in (0.0, 1.0, -1.0, INF)))  # extreme letters added to the point lattices
ALPHABETS = {"A8": A8, "A10": A10, "A14": A14, "X2": X2, "X2W": X2W, "X3": X3, "X3W": X3W}


def _with_edges(al, minus_inf=True):
    """The letters of the sub-check `degenerate`: -inf in front (a legal LOWER end of a rectangle of (-inf, inf]^d, and a
    point where a side may collapse) and -0.0 just before 0.0 (the side (-0.0, 0.0] is empty: its ends are equal)."""
    out = [-INF] if minus_inf else []
    for x in al:
        out += [-0.0, 0.0] if x == 0 else [x]
    return out


ALPHABETS.update({
    "E2": _with_edges(A8), "E3": [-INF, -1.0, -0.0, 0.0, 0.2, 5.0, INF], "E3S": [-INF, -1.0, 0.0, 0.2, INF],
    "EX2": _with_edges(X2), "EX3": [-1e120, -1e-200, 0.0, 1e-200, 1e120, INF],
    "E2W": _with_edges(A14), "EX2W": _with_edges(X2W), "E3W": _with_edges(A8), "EX3W": _with_edges(X3),
})
XLAT = [-INF, -1e300, -1e100, -1e3, -25.0, -5.0, -1.0, -0.2, -0.04, -1e-3, -1e-100, -1e-300, 0.0,
        1e-300, 1e-100, 1e-3, 0.04, 0.2, 1.0, 5.0, 25.0, 1e3, 1e100, 1e300, INF]
ULAT = sorted([k / 16.0 for k in range(1, 16)] + [1e-6, 1e-3, 1 - 1e-3, 1 - 1e-6])
RHOS = [1e-2, 3e-3, 1e-3, 3e-4, 1e-4]


# ----------------------------------------------------------------------------------------------------------------------
# case lists
# ----------------------------------------------------------------------------------------------------------------------

def _copulas(tier):
    if tier == "thorough":
        thetas, etas = [0.1, 0.3, 0.7, 1.0, 3.0, 10.0], [0.0, 0.3, 0.5, 0.9, 1.0]
    else:
        thetas, etas = [0.3, 0.7, 1.0, 3.0], [0.0, 0.3, 0.5, 1.0]
    out = [{"kind": "independent"}, {"kind": "dependent"}]
    out += [{"kind": "clayton", "theta": t, "eta": e} for t in thetas for e in etas]
    return out


# Histories: the same parameter values reached on a RE-USED object (public attributes re-assigned after the object was
# built with other values and used; another object of the class built / re-parametrised / used in between; copies).
ROUTES_CLAYTON = ["set", "use-set", "use-set-eta-first", "set-theta", "set-eta", "round-trip", "other-between",
                  "deepcopy-set", "copy-sibling-set", "pickle",
                  # clones (copy.copy / copy.deepcopy / dill) x which of the two objects is re-parametrised x which is observed
                  "copy", "copy-set", "copy-kept", "copy-original-set", "copy-of-copy-set", "deepcopy-kept", "pickle-set",
                  "pickle-kept"]
ROUTES_PARAM_FORMS = ["numpy-parameters", "positional-parameters"]  # no starting values: forms of the constructor arguments
ROUTES_PLAIN = ["used", "other-between", "deepcopy", "pickle", "copy"]
HIST_PARAMS = {"quick": [(0.3, 0.0), (0.7, 0.3), (1.0, 0.5), (3.0, 1.0)],
               "thorough": [(0.1, 0.9), (0.3, 0.0), (0.7, 0.3), (1.0, 0.5), (3.0, 1.0), (10.0, 0.3)]}


def _other_params(theta, eta):
    """Parameter values the twin object starts from: both differ from the target, off the lattice."""
    return [2.5 if theta < 1.5 else 0.4, 0.85 if eta < 0.5 else 0.15]


def _twins(tier):
    """Copula specs with a history (`via`): every sub-check is run on them as on freshly built objects."""
    if tier == "thorough":
        targets = [(0.1, 0.9), (0.3, 0.3), (0.7, 0.5), (1.0, 0.0), (3.0, 1.0), (10.0, 0.3), (0.7, 0.3)]
    else:
        targets = [(0.3, 0.3), (0.7, 0.5), (1.0, 0.0), (3.0, 1.0), (0.7, 0.3)]
    out = []
    for k, route in enumerate(ROUTES_CLAYTON):
        t, e = targets[k % len(targets)]
        out.append({"kind": "clayton", "theta": t, "eta": e, "via": {"route": route, "from": _other_params(t, e)}})
    for t, e in ([(1.0, 0.0), (3.0, 1.0), (1.0, 1.0)] if tier == "thorough" else [(1.0, 0.0), (3.0, 1.0)]):
        out.append({"kind": "clayton", "theta": t, "eta": e, "via": {"route": "int-parameters"}})
    for k, route in enumerate(ROUTES_PARAM_FORMS):
        t, e = targets[(k + 1) % len(targets)]
        out.append({"kind": "clayton", "theta": t, "eta": e, "via": {"route": route}})
    plain_routes = ROUTES_PLAIN if tier == "thorough" else ["other-between", "pickle", "copy"]
    for kind in ("independent", "dependent"):
        for route in plain_routes:
            out.append({"kind": kind, "via": {"route": route}})
    return out


def _j(x):
    return core.jsonable(x)


def _letters(name, cspec):
    """Coordinate alphabet `name` for the copula: for the Clayton family the letters whose power |u|^-theta leaves the
    range of normal doubles are dropped (theta * |log10 |u|| > 300; see the exclusions in the module docstring)."""
    al = ALPHABETS[name]
    if cspec["kind"] != "clayton":
        return list(al)
    th = float(cspec["theta"])
    return [x for x in al if x == 0 or math.isinf(x) or th * abs(math.log10(abs(x))) <= 300.0 + 1e-9]


def _ext_letters(cspec):
    th = _theta(cspec)
    return [x for x in XEXT if th * abs(math.log10(abs(x))) <= 300.0 + 1e-9]


def cases(tier):
    thorough = tier == "thorough"
    cops = _copulas(tier) + _twins(tier)
    out = []
    for c in cops:
        out.append({"sub": "args", "copula": c})
    for c in cops:
        for d in (2, 3):
            out.append({"sub": "grounded", "copula": c, "dim": d})
            out.append({"sub": "margin1", "copula": c, "dim": d})
    for c in cops:
        out.append({"sub": "volume", "copula": c, "dim": 2, "alphabet": "A8", "first": None, "margin_options": True})
    # differential histories: every (from -> to) pair of the parameter menu x every route, against a fresh object
    hp = HIST_PARAMS[tier]
    for route in ROUTES_CLAYTON:
        for to in hp:
            for frm in hp:
                if frm != to:
                    out.append({"sub": "history", "copula": {"kind": "clayton", "theta": to[0], "eta": to[1],
                                                             "via": {"route": route, "from": list(frm)}}})
    for t in (1.0, 3.0):
        for e in (0.0, 1.0):
            out.append({"sub": "history", "copula": {"kind": "clayton", "theta": t, "eta": e, "via": {"route": "int-parameters"}}})
    for route in ROUTES_PARAM_FORMS:
        for t, e in hp:
            out.append({"sub": "history", "copula": {"kind": "clayton", "theta": t, "eta": e, "via": {"route": route}}})
    for kind in ("independent", "dependent"):
        for route in ROUTES_PLAIN:
            out.append({"sub": "history", "copula": {"kind": kind, "via": {"route": route}}})
    for c in cops:
        out.append({"sub": "volume", "copula": c, "dim": 2, "alphabet": "X2W" if thorough else "X2", "first": None})
    if thorough:
        for c in cops:
            out.append({"sub": "volume", "copula": c, "dim": 2, "alphabet": "A14", "first": None})
    clay = [c for c in cops if c["kind"] == "clayton"]
    eps_list = [0.2, 1.0, 5.0, 1e-100, 1e100] + ([1e-3, 0.04, 25.0] if thorough else [])
    for c in clay:
        for e in eps_list:
            for s in (1.0, -1.0):
                out.append({"sub": "conditional", "copula": c, "eps": s * e})
        out.append({"sub": "inverse_mixed", "copula": c, "eps": sorted(eps_list)})
    for c in clay:
        for d in (2, 3):
            out.append({"sub": "xderiv", "copula": c, "dim": d,
                        "mags": [0.04, 0.2, 1.0, 5.0, 25.0] if thorough else [0.2, 1.0, 5.0]})
    # degenerate rectangles (a_i == b_i on one, two or all axes: empty, volume 0) and rectangles with a lower end -inf
    for c in cops:
        for name2 in (["E2W", "EX2W"] if thorough else ["E2", "EX2"]):
            out.append({"sub": "degenerate", "copula": c, "dim": 2, "alphabet": name2, "first": None,
                        "margin_options": name2.startswith("E2")})
    for c in cops:
        if "via" in c:
            names3 = ["E3"] if thorough else ["E3S"]
        else:
            names3 = ["E3W", "EX3W"] if thorough else ["E3", "EX3"]
        for name3 in names3:
            al = _letters(name3, c)
            if len(al) < 4:
                continue
            if "via" in c and not thorough:
                out.append({"sub": "degenerate", "copula": c, "dim": 3, "alphabet": name3, "first": None})
                continue
            sides = _sides(al)
            k_opt = min(k for k, (i, j) in enumerate(sides) if i == j and math.isfinite(al[i]))
            for k in range(len(sides)):
                case = {"sub": "degenerate", "copula": c, "dim": 3, "alphabet": name3, "first": k}
                if k == k_opt and name3 in ("E3", "E3W"):
                    case["margin_options"] = True
                out.append(case)
    for c in cops:
        for ij in ([0, 1], [0, 2], [1, 2], [1, 0], [2, 0], [2, 1]) if (thorough or "via" not in c) else ([0, 1], [2, 0]):
            out.append({"sub": "margin2", "copula": c, "pair": ij, "alphabet": "A10" if thorough else "A8"})
    # 3-d rectangles: one case per (copula, first side)
    for name3 in (["A8", "X3", "A10", "X3W"] if thorough else ["A8", "X3"]):
        for c in cops:
            if "via" in c and name3 in ("A10", "X3W"):
                continue  # the wide 3-d lattices are swept on freshly built objects only
            al = _letters(name3, c)
            if len(al) < 4:
                continue  # Clayton with a large theta: no extreme letter survives the range filter
            for i in range(len(al)):
                for k in range(i + 1, len(al)):
                    case = {"sub": "volume", "copula": c, "dim": 3, "alphabet": name3, "first": [_j(al[i]), _j(al[k])]}
                    if name3 == "A8" and (i, k) == (0, 1):
                        case["margin_options"] = True
                    elif "via" in c and not thorough:
                        # quick: objects with a history get one slice of the 3-d lattice (their values on all orthants
                        # of dimension 3 are compared with a fresh object in the sub-check `history`)
                        continue
                    out.append(case)
    return out


# ----------------------------------------------------------------------------------------------------------------------
# helpers
# ----------------------------------------------------------------------------------------------------------------------

class _NotConstructible(Exception):
    """the history of the spec cannot be carried out (a public attribute cannot be assigned): counted, never an alarm"""


def _plain(cspec):
    """A freshly built object (through the helpers of rpylib.model.utils)."""
    return alphabets.make_copula({k: v for k, v in cspec.items() if k != "via"})


_USE_POINTS = [(0.2, 5.0), (-1.0, 0.2), (-5.0, -1.0), (1.0, INF), (0.0, 1.0), (1.0, -INF), (1e-200, -1e-200),
               (0.2, 5.0, 1.0), (-1.0, 0.2, -5.0), (-1.0, -1.0, -0.2), (INF, 1.0, -INF), (0.2, 0.0, 1.0)]


def _use(cop, clayton):
    """Every public entry point once, in both dimensions and on several orthants (results discarded): whatever an
    implementation may compute lazily on first use is computed with the parameters of that moment."""
    from rpylib.model.levycopulamodel import margin, volume

    for u in _USE_POINTS:
        cop(np.array(u, dtype=float))
    margin(cop, [0], 2)([1.0])
    margin(cop, [1], 3)([-0.2])
    margin(cop, [0, 2], 3)([0.2, -1.0])
    volume(_gen_adapter(cop), [-1.0, 0.2], [0.2, INF])
    volume(_gen_adapter(cop), [-1.0, 0.0, 0.2], [1.0, 5.0, INF])
    if clayton:
        for eps in (1.0, -0.2):
            for x in (-INF, -1.0, 0.0, 0.2, INF):
                cop.conditional_distribution(eps, np.array([x]))
        cop.inverse_conditional_distribution(np.array([1.0, -0.2, 5.0]), np.array([0.25, 0.5, 0.9]))
        cop.x_first_derivative(np.array([0.2, -5.0]))
        cop.x_first_derivative(np.array([1.0, 0.2, -1.0]))
    repr(cop)
    # ... and at every point the sub-check `history` observes later (a value remembered per argument is then remembered
    # with the parameters of this moment)
    _observe(cop, clayton)


def _assign(obj, **kw):
    for name, value in kw.items():
        try:
            setattr(obj, name, value)
        except AttributeError as e:  # read-only attribute: the history does not exist for this implementation
            raise _NotConstructible(f"{type(obj).__name__}.{name} cannot be assigned: {e}")


def _roundtrip(obj):
    """Serialisation round trip, as the pool of the Monte-Carlo engines does with the processes it ships."""
    try:
        import dill as pk
    except Exception:  # pragma: no cover
        import pickle as pk
    return pk.loads(pk.dumps(obj))


def _make(cspec):
    """The copula object of the spec.  Without `via`: freshly built.  With `via`: the same parameter values reached
    through the history named by via['route'] (Clayton: starting from the parameter values via['from'])."""
    via = cspec.get("via")
    if not via:
        return _plain(cspec)
    route = via["route"]
    kind = cspec["kind"]
    if kind != "clayton":
        c = _plain(cspec)
        _use(c, False)
        if route == "used":
            return c
        if route == "other-between":
            _use(_plain(cspec), False)
            _use(alphabets.make_copula({"kind": "clayton", "theta": 2.5, "eta": 0.85}), True)
            return c
        if route == "deepcopy":
            return copy.deepcopy(c)
        if route == "pickle":
            return _roundtrip(c)
        if route == "copy":
            return copy.copy(c)
        raise ValueError(cspec)

    def mk(t, e):
        return alphabets.make_copula({"kind": "clayton", "theta": t, "eta": e})

    th, et = float(cspec["theta"]), float(cspec["eta"])
    if route == "int-parameters":  # integer-valued parameters handed over as Python ints
        if th != int(th) or et != int(et):
            raise ValueError(cspec)
        return mk(int(th), int(et))
    if route == "numpy-parameters":  # parameters handed over as numpy scalars (what a calibration routine has in hand)
        return mk(np.float64(th), np.float64(et))
    if route == "positional-parameters":  # positional arguments of the helper
        from rpylib.model import utils as U

        return U.create_clayton_copula(th, et)
    th0, et0 = (float(x) for x in via["from"])

    if route == "set":  # built with other values, re-parametrised before any use
        c = mk(th0, et0)
        _assign(c, theta=th, eta=et)
        return c
    if route == "use-set":
        c = mk(th0, et0)
        _use(c, True)
        _assign(c, theta=th, eta=et)
        return c
    if route == "use-set-eta-first":
        c = mk(th0, et0)
        _use(c, True)
        _assign(c, eta=et)
        _assign(c, theta=th)
        return c
    if route == "set-theta":  # only theta changes
        c = mk(th0, et)
        _use(c, True)
        _assign(c, theta=th)
        return c
    if route == "set-eta":  # only eta changes
        c = mk(th, et0)
        _use(c, True)
        _assign(c, eta=et)
        return c
    if route == "round-trip":  # away and back
        c = mk(th, et)
        _use(c, True)
        _assign(c, theta=th0, eta=et0)
        _use(c, True)
        _assign(c, theta=th, eta=et)
        return c
    if route == "other-between":  # a second object of the class is built, used, re-parametrised, used in between
        c = mk(th, et)
        _use(c, True)
        o = mk(th0, et0)
        _use(o, True)
        _assign(o, theta=1.5 * th0, eta=1.0 - et0)
        _use(o, True)
        return c
    if route == "deepcopy-set":  # a deep copy of a used object is re-parametrised
        o = mk(th0, et0)
        _use(o, True)
        c = copy.deepcopy(o)
        _assign(c, theta=th, eta=et)
        return c
    if route == "copy-sibling-set":  # a shallow copy is re-parametrised and used; the original is observed
        c = mk(th, et)
        _use(c, True)
        o = copy.copy(c)
        _assign(o, theta=th0, eta=et0)
        _use(o, True)
        return c
    if route == "pickle":  # re-parametrised, then shipped
        o = mk(th0, et0)
        _use(o, True)
        _assign(o, theta=th, eta=et)
        return _roundtrip(o)
    # clones: the clone is observed (copy-sibling-set above observes the original next to a re-parametrised clone)
    if route == "copy":  # shallow copy of a used object, same parameters
        o = mk(th, et)
        _use(o, True)
        return copy.copy(o)
    if route in ("copy-set", "pickle-set"):  # the clone is re-parametrised (a bumped / re-calibrated copy) and observed
        o = mk(th0, et0)
        _use(o, True)
        c = copy.copy(o) if route == "copy-set" else _roundtrip(o)
        _assign(c, theta=th, eta=et)
        _use(o, True)
        return c
    if route in ("copy-kept", "deepcopy-kept", "pickle-kept"):  # the clone is kept aside, the original moves on
        o = mk(th, et)
        _use(o, True)
        c = {"copy-kept": copy.copy, "deepcopy-kept": copy.deepcopy, "pickle-kept": _roundtrip}[route](o)
        _assign(o, theta=th0, eta=et0)
        _use(o, True)
        return c
    if route == "copy-original-set":  # a clone is taken and used, then the original is re-parametrised and observed
        o = mk(th0, et0)
        _use(o, True)
        k = copy.copy(o)
        _use(k, True)
        _assign(o, theta=th, eta=et)
        _use(k, True)
        return o
    if route == "copy-of-copy-set":  # clone of a clone; the middle one is re-parametrised too
        o = mk(th0, et0)
        _use(o, True)
        k = copy.copy(o)
        _assign(k, theta=1.5 * th0, eta=1.0 - et0)
        c = copy.copy(k)
        _assign(c, theta=th, eta=et)
        _use(k, True)
        _use(o, True)
        return c
    raise ValueError(cspec)


def _via_cls(cspec):
    via = cspec.get("via")
    return ("via-" + via["route"]) if via else "fresh"


def _vk(cspec):
    """suffix of the violation keys: empty for freshly built objects (keys unchanged), the route for objects with a history"""
    via = cspec.get("via")
    return (":via-" + via["route"]) if via else ""


def _kind(cspec):
    return cspec["kind"]


def _eta_cls(cspec):
    if cspec["kind"] != "clayton":
        return "na"
    e = cspec["eta"]
    return "eta=0" if e == 0 else ("eta=1" if e == 1 else "0<eta<1")


def _theta(cspec):
    return float(cspec.get("theta", 1.0))


def _F(cop):
    """The copula as a function of a tuple of floats (always a fresh float64 array, as the model passes)."""

    def f(u):
        return float(cop(np.array(u, dtype=float)))

    return f


def _gen_adapter(cop):
    """rpylib's volume() hands a *generator* of coordinates to f; LevyCopulaModel turns it into an array before calling
    the copula.  Same adaptation here."""

    def f(g):
        return cop(np.fromiter(g, dtype=float))

    return f


def _slack_factor(cspec, d, letters=()):
    """(64 + 4 d / theta + 2 L) with L = max |ln |letter||: see the tolerances in the module docstring"""
    big = max([abs(math.log(abs(x))) for x in letters if x != 0 and math.isfinite(x)] or [0.0])
    return 64.0 + 4.0 * d / _theta(cspec) + 2.0 * big


def _pairs(al):
    return [(al[i], al[k]) for i in range(len(al)) for k in range(i + 1, len(al))]


def _rect_class(a, b):
    straddle = sum(1 for x, y in zip(a, b) if x < 0 < y)
    touch = sum(1 for x, y in zip(a, b) if x == 0 or y == 0)
    inf = any(math.isinf(y) for y in b)
    ext = any(x != 0 and math.isfinite(x) and not 1e-50 <= abs(x) <= 1e50 for x in list(a) + list(b))
    return (f"{straddle}-sides-straddle-0:{'touches-axis' if touch else 'off-axis'}:{'some-upper-inf' if inf else 'finite'}"
            + (":extreme-magnitudes" if ext else ""))


def _iter_diff(vals, a_idx, b_idx):
    """Independent signed sum: difference operator applied coordinate by coordinate on the table of vertex values.
    Returns (volume, sum of |terms|)."""
    d = len(a_idx)

    def rec(k, prefix):
        if k == d:
            v = vals[tuple(prefix)]
            return v, abs(v)
        hi, s1 = rec(k + 1, prefix + [b_idx[k]])
        lo, s2 = rec(k + 1, prefix + [a_idx[k]])
        return hi - lo, s1 + s2

    return rec(0, [])


# ----------------------------------------------------------------------------------------------------------------------
# dispatcher
# ----------------------------------------------------------------------------------------------------------------------

def check_case(sh, case):
    with np.errstate(all="ignore"):
        import warnings

        with warnings.catch_warnings():
            warnings.simplefilter("ignore")
            try:
                globals()["_sub_" + case["sub"]](sh, case)
            except _NotConstructible as e:
                sh.count("history_not_constructible")
                sh.note(f"history not constructible: {e}")


# ----------------------------------------------------------------------------------------------------------------------
# grounded
# ----------------------------------------------------------------------------------------------------------------------

def _sub_grounded(sh, case):
    cspec, d = case["copula"], case["dim"]
    cop = _make(cspec)
    f = _F(cop)
    letters = [-INF] + A14 + _ext_letters(cspec) + [-0.0]
    bad = 0
    n = 0
    for u in itertools.product(letters, repeat=d):
        if 0.0 not in u:
            continue
        n += 1
        v = f(u)
        if not v == 0.0:
            bad += 1
            sh.violation(f"C11:grounded:{_kind(cspec)}:d{d}:nonzero-with-a-zero-argument:{_eta_cls(cspec)}{_vk(cspec)}",
                         f"{cop!r}: F{tuple(u)} = {v!r}, expected 0", {"u": u, "value": v})
    sh.count("evaluations", n)
    sh.count("grounded_points", n)
    sh.cls(f"grounded:d{d}:{_kind(cspec)}")
    sh.cls(f"history:{_via_cls(cspec)}")
    sh.outcome(("grounded", _j(cspec), d, n, bad))
    sh.nontriv()


# ----------------------------------------------------------------------------------------------------------------------
# volumes
# ----------------------------------------------------------------------------------------------------------------------

def _sub_volume(sh, case):
    from rpylib.model.levycopulamodel import margin, volume

    cspec, d = case["copula"], case["dim"]
    al = _letters(case["alphabet"], cspec)
    cop = _make(cspec)
    f = _F(cop)
    fg = _gen_adapter(cop)
    kind, ecls = _kind(cspec), _eta_cls(cspec) + _vk(cspec)
    sf = _slack_factor(cspec, d, al)
    # rarely used options of the margin operator: I = None and I = all indices both denote the copula itself
    m_opts = []
    if case.get("margin_options"):
        m_none = margin(cop, None, d)
        m_full = margin(cop, list(range(d)), d)
        m_opts = [("indices=None", lambda g: m_none(np.fromiter(g, dtype=float))), ("indices=all", lambda g: m_full(list(g)))]
    n = len(al)
    top = tuple([n - 1] * d)  # (inf, ..., inf): never a vertex of an admitted rectangle
    vals = {}
    for idx in itertools.product(range(n), repeat=d):
        if idx != top:
            vals[idx] = f(tuple(al[i] for i in idx))
    pairs_idx = [(i, k) for i in range(n) for k in range(i + 1, n)]
    if case.get("first") is not None:
        fa, fb = (core.unjson_float(x) for x in case["first"])
        firsts = [(al.index(fa), al.index(fb))]
    else:
        firsts = pairs_idx
    cnt = 0
    minrel = INF
    sig = 0.0
    for first in firsts:
        for rest in itertools.product(pairs_idx, repeat=d - 1):
            sides = (first,) + rest
            a_idx = [s[0] for s in sides]
            b_idx = [s[1] for s in sides]
            if all(k == n - 1 for k in b_idx):
                sh.count("rectangles_excluded_all_upper_inf")
                continue
            a = [al[i] for i in a_idx]
            b = [al[i] for i in b_idx]
            mine, sabs = _iter_diff(vals, a_idx, b_idx)
            lib = float(volume(fg, a, b))
            cnt += 1
            rc = _rect_class(a, b)
            if math.isnan(lib) or math.isinf(lib) or math.isnan(mine) or math.isinf(mine):
                sh.violation(f"C11:volume:{kind}:d{d}:not-a-finite-number:{ecls}:{rc}",
                             f"{cop!r}: volume of ({a}, {b}] = {lib!r} (independent signed sum {mine!r})",
                             {"a": a, "b": b, "library": lib, "signed_sum": mine})
                continue
            if abs(lib - mine) > 4 * 2 ** d * EPS * sabs:
                sh.violation(f"C11:volume:{kind}:d{d}:library-volume-differs-from-signed-sum:{ecls}:{rc}",
                             f"{cop!r}: levycopulamodel.volume over ({a}, {b}] = {lib!r}, signed sum of F over the vertices = {mine!r}",
                             {"a": a, "b": b, "library": lib, "signed_sum": mine, "sum_abs_terms": sabs})
            slack = sf * EPS * sabs
            if lib < -slack or mine < -slack:
                sh.violation(f"C11:volume:{kind}:d{d}:negative-volume:{ecls}:{rc}",
                             f"{cop!r}: volume of ({a}, {b}] = {lib!r} < 0 (signed sum {mine!r}, slack {slack:.3g})",
                             {"a": a, "b": b, "library": lib, "signed_sum": mine, "slack": slack})
            for oname, fo in m_opts:
                vo = float(volume(fo, a, b))
                cnt += 1
                if not abs(vo - mine) <= 4 * 2 ** d * EPS * sabs:  # also catches nan
                    sh.violation(f"C11:volume:{kind}:d{d}:volume-through-margin-option-differs-from-signed-sum:{oname}:{ecls}:{rc}",
                                 f"{cop!r}: volume(margin(F, {oname}, {d})) over ({a}, {b}] = {vo!r}, signed sum of F over the vertices = {mine!r}",
                                 {"a": a, "b": b, "option": oname, "library": vo, "signed_sum": mine})
            if sabs > 0:
                minrel = min(minrel, lib / sabs)
            sig += lib if math.isfinite(lib) else 0.0
            sh.cls(f"volume:d{d}:{rc}")
    sh.count("evaluations", cnt)
    sh.count(f"rectangles_d{d}", cnt)
    sh.outcome(("volume", _j(cspec), d, case["alphabet"], _j(case.get("first")), cnt, round(sig, 9)))
    sh.cls(f"history:{_via_cls(cspec)}")
    if cnt:
        sh.nontriv()
    if kind == "clayton" and case.get("first") is None and cspec["theta"] == 0.7 and cspec["eta"] == 0.3 and "via" not in cspec:
        sh.sample({"sub": "volume", "copula": cspec, "dim": d, "alphabet": case["alphabet"], "rectangles": cnt,
                   "smallest volume / sum|terms|": minrel})


def _sides(al):
    """All sides (a, b] with a <= b of the ascending letter list, as index pairs; (i, i) and (-0.0, 0.0) are collapsed."""
    return [(i, k) for i in range(len(al)) for k in range(i, len(al))]


def _collapse_class(a, b):
    n = sum(1 for x, y in zip(a, b) if x == y)
    where = set()
    for x, y in zip(a, b):
        if x == y:
            if x == 0:
                where.add("at-0" if math.copysign(1.0, x) == math.copysign(1.0, y) else "at-the-pair-minus0-plus0")
            elif math.isinf(x):
                where.add("at-plus-inf" if x > 0 else "at-minus-inf")
            elif not 1e-50 <= abs(x) <= 1e50:
                where.add("at-an-extreme-magnitude")
            else:
                where.add("at-a-finite-point")
    low = any(x == -INF and y != -INF for x, y in zip(a, b))
    return n, (f"{n}-of-{len(a)}-sides-collapsed:" + "+".join(sorted(where)) if n else "no-side-collapsed") + (":some-lower-end-minus-inf" if low else "")


def _sub_degenerate(sh, case):
    """Rectangles (a, b] of (-inf, inf]^d, a <= b, with at least one SPECIAL side: collapsed (a_i == b_i: the rectangle is
    empty, its volume is 0 whatever the copula) or with the lower end -inf.  Excluded: a vertex with all coordinates
    infinite (every side has an infinite end)."""
    from rpylib.model.levycopulamodel import margin, volume

    cspec, d = case["copula"], case["dim"]
    al = _letters(case["alphabet"], cspec)
    cop = _make(cspec)
    f = _F(cop)
    fg = _gen_adapter(cop)
    kind, ecls = _kind(cspec), _eta_cls(cspec) + _vk(cspec)
    sf = _slack_factor(cspec, d, al)
    m_opts = []
    if case.get("margin_options"):
        m_none = margin(cop, None, d)
        m_full = margin(cop, list(range(d)), d)
        m_opts = [("indices=None", lambda g: m_none(np.fromiter(g, dtype=float))), ("indices=all", lambda g: m_full(list(g)))]
    n = len(al)
    vals = {}
    for idx in itertools.product(range(n), repeat=d):
        if not all(math.isinf(al[i]) for i in idx):
            vals[idx] = f(tuple(al[i] for i in idx))
    sides = _sides(al)
    special = [al[i] == al[k] or al[i] == -INF for i, k in sides]
    firsts = list(range(len(sides))) if case.get("first") is None else [int(case["first"])]
    cnt = 0
    n_empty = 0
    sig = 0.0
    for k0 in firsts:
        for rest in itertools.product(range(len(sides)), repeat=d - 1):
            ks = (k0,) + rest
            if not any(special[k] for k in ks):
                continue  # a_i < b_i, a_i finite on every side: the lattice of the sub-check `volume`
            a_idx = [sides[k][0] for k in ks]
            b_idx = [sides[k][1] for k in ks]
            a = [al[i] for i in a_idx]
            b = [al[i] for i in b_idx]
            if all(math.isinf(x) or math.isinf(y) for x, y in zip(a, b)):
                sh.count("rectangles_excluded_vertex_all_infinite")
                continue
            mine, sabs = _iter_diff(vals, a_idx, b_idx)
            lib = float(volume(fg, a, b))
            cnt += 1
            ncol, cc = _collapse_class(a, b)
            # few distinct keys on purpose (the runner re-runs one case per key): the rectangle is in the message / detail
            rc = "extreme-magnitudes" if case["alphabet"].startswith("EX") else "moderate-magnitudes"
            tol = 4 * 2 ** d * EPS * sabs
            results = [("volume", lib), ("volume", mine)]
            for oname, fo in m_opts:
                results.append(("volume-through-a-margin-option", float(volume(fo, a, b))))
                cnt += 1
            for rname, v in results:
                if not math.isfinite(v):
                    sh.violation(f"C11:degenerate:{kind}:d{d}:not-a-finite-number:{rname}:{ecls}:{rc}",
                                 f"{cop!r}: volume of ({a}, {b}] = {v!r} ({rname})", {"a": a, "b": b, "route": rname, "value": v})
                elif ncol:
                    if not abs(v) <= tol:
                        sh.violation(f"C11:degenerate:{kind}:d{d}:volume-of-an-empty-rectangle-not-0:{rname}:{ecls}:{rc}",
                                     f"{cop!r}: ({a}, {b}] is empty (a_i == b_i on {ncol} side(s)) but its volume is {v!r} ({rname}; "
                                     f"rounding bound {tol:.3g})", {"a": a, "b": b, "route": rname, "value": v, "bound": tol})
                else:
                    if abs(v - mine) > tol:
                        sh.violation(f"C11:degenerate:{kind}:d{d}:library-volume-differs-from-signed-sum:{rname}:{ecls}:{rc}",
                                     f"{cop!r}: volume over ({a}, {b}] = {v!r} ({rname}), signed sum of F over the vertices = {mine!r}",
                                     {"a": a, "b": b, "route": rname, "value": v, "signed_sum": mine, "sum_abs_terms": sabs})
                    if v < -sf * EPS * sabs:
                        sh.violation(f"C11:degenerate:{kind}:d{d}:negative-volume:{rname}:{ecls}:{rc}",
                                     f"{cop!r}: volume of ({a}, {b}] = {v!r} < 0 ({rname}; slack {sf * EPS * sabs:.3g})",
                                     {"a": a, "b": b, "route": rname, "value": v, "slack": sf * EPS * sabs})
            n_empty += 1 if ncol else 0
            sig += lib if math.isfinite(lib) else 0.0
            sh.cls(f"degenerate:d{d}:{cc}")
    sh.count("evaluations", cnt)
    sh.count(f"rectangles_empty_d{d}", n_empty)
    sh.count(f"rectangles_lower_end_minus_inf_d{d}", cnt - n_empty if not m_opts else 0)
    sh.outcome(("degenerate", _j(cspec), d, case["alphabet"], case.get("first"), cnt, n_empty, round(sig, 9)))
    sh.cls(f"history:{_via_cls(cspec)}")
    if cnt:
        sh.nontriv()
    if kind == "clayton" and case.get("first") is None and cspec["theta"] == 0.7 and cspec["eta"] == 0.3 and "via" not in cspec:
        sh.sample({"sub": "degenerate", "copula": cspec, "dim": d, "alphabet": case["alphabet"], "rectangles": cnt, "empty": n_empty})


def _sub_margin2(sh, case):
    from rpylib.model.levycopulamodel import margin, volume

    cspec = case["copula"]
    i, j = case["pair"]
    (k,) = set(range(3)) - {i, j}
    al = _letters(case["alphabet"], cspec)
    cop = _make(cspec)
    f = _F(cop)
    kind, ecls = _kind(cspec), _eta_cls(cspec) + _vk(cspec)
    m2 = margin(cop, [i, j], 3)
    sf = _slack_factor(cspec, 3, al)
    n = len(al)
    letters3 = {i: al, j: al, k: [-INF, INF]}
    vals = {}
    for idx in itertools.product(range(n), range(n), range(2)):
        if idx[0] == n - 1 and idx[1] == n - 1:
            continue
        u = [0.0, 0.0, 0.0]
        u[i], u[j], u[k] = al[idx[0]], al[idx[1]], letters3[k][idx[2]]
        vals[idx] = f(tuple(u))
    pairs_idx = [(p, q) for p in range(n) for q in range(p, n)]  # p == q: collapsed side, the rectangle is empty
    cnt = 0
    sig = 0.0
    for s1 in pairs_idx:
        for s2 in pairs_idx:
            if s1[1] == n - 1 and s2[1] == n - 1:
                sh.count("rectangles_excluded_all_upper_inf")
                continue
            a = [al[s1[0]], al[s2[0]]]
            b = [al[s1[1]], al[s2[1]]]
            mine, sabs = _iter_diff(vals, [s1[0], s2[0], 0], [s1[1], s2[1], 1])
            lib = float(volume(lambda g: m2(list(g)), a, b))
            cnt += 1
            rc = _rect_class(a, b)
            ncol, cc = _collapse_class(a, b)
            if ncol:
                sh.count("rectangles_margin2_empty")
                if not (abs(lib) <= 4 * 8 * EPS * sabs and mine == 0.0):
                    sh.violation(f"C11:margin2:{kind}:d3:volume-of-an-empty-rectangle-not-0:{ecls}",
                                 f"{cop!r}: ({a}, {b}] is empty but the {[i, j]}-margin gives it the volume {lib!r} (signed sum {mine!r})",
                                 {"a": a, "b": b, "pair": [i, j], "library": lib, "signed_sum": mine})
                    continue
            if not (math.isfinite(lib) and math.isfinite(mine)):
                sh.violation(f"C11:margin2:{kind}:d3:not-a-finite-number:{ecls}:{rc}",
                             f"{cop!r}: volume of the {[i, j]}-margin over ({a}, {b}] = {lib!r} (signed sum {mine!r})",
                             {"a": a, "b": b, "pair": [i, j], "library": lib, "signed_sum": mine})
                continue
            if abs(lib - mine) > 4 * 8 * EPS * sabs:
                sh.violation(f"C11:margin2:{kind}:d3:margin-operator-volume-differs-from-signed-sum:{ecls}:{rc}",
                             f"{cop!r}: volume(margin(F,{[i, j]},3)) over ({a}, {b}] = {lib!r}, 3-d signed sum with third side (-inf,inf] = {mine!r}",
                             {"a": a, "b": b, "pair": [i, j], "library": lib, "signed_sum": mine})
            slack = sf * EPS * sabs
            if lib < -slack or mine < -slack:
                sh.violation(f"C11:margin2:{kind}:d3:negative-volume:{ecls}:{rc}",
                             f"{cop!r}: {[i, j]}-margin gives volume {lib!r} < 0 to ({a}, {b}] (signed sum {mine!r})",
                             {"a": a, "b": b, "pair": [i, j], "library": lib, "signed_sum": mine, "slack": slack})
            sig += lib
    sh.count("evaluations", cnt)
    sh.count("rectangles_margin2", cnt)
    sh.outcome(("margin2", _j(cspec), i, j, cnt, round(sig, 9)))
    sh.nontriv()


def _sub_margin1(sh, case):
    from rpylib.model.levycopulamodel import margin

    cspec, d = case["copula"], case["dim"]
    cop = _make(cspec)
    kind = _kind(cspec)
    tol_f = (64.0 + 16.0 / _theta(cspec)) * EPS
    us = sorted([x for x in A14 if math.isfinite(x)] + _ext_letters(cspec))
    worst = 0.0
    n = 0
    for i in range(d):
        m = margin(cop, [i], d)
        for u, form in itertools.product(us, ("list", "array")):
            # argument as a list, and as the array LevyCopulaModel.margin_tail_integral hands over
            v = float(m([u] if form == "list" else np.array([u])))
            n += 1
            ucls = "u=0" if u == 0 else ("u>0" if u > 0 else "u<0")
            ok = (v == 0.0) if u == 0 else (abs(v - u) <= (tol_f + 4.0 * abs(math.log(abs(u))) * EPS) * abs(u))
            if u != 0 and not 1e-50 <= abs(u) <= 1e50:
                ucls += ":extreme-magnitude"
            if not ok:
                sh.violation(f"C11:margin1:{kind}:d{d}:one-dimensional-margin-not-identity:{_eta_cls(cspec)}{_vk(cspec)}:{ucls}",
                             f"{cop!r}: margin(F, [{i}], {d})({u}) = {v!r}, expected {u}", {"i": i, "u": u, "value": v})
            elif u != 0:
                worst = max(worst, abs(v - u) / abs(u))
            sh.cls(f"margin1:d{d}:{ucls}")
    sh.count("evaluations", n)
    sh.count("margin1_points", n)
    sh.outcome(("margin1", _j(cspec), d, n))
    sh.nontriv()
    if kind == "clayton" and cspec["theta"] == 0.3 and cspec["eta"] == 0.3 and "via" not in cspec:
        sh.sample({"sub": "margin1", "copula": cspec, "dim": d, "points": n, "largest relative deviation": worst})


# ----------------------------------------------------------------------------------------------------------------------
# Clayton conditional distribution and its inverse
# ----------------------------------------------------------------------------------------------------------------------

def _side_weight(eta, eps, x):
    """Mass weight of the half line of x in F_eps (from the definition: eta on the orthants where eps*x > 0)."""
    if x == 0:
        return min(eta, 1.0 - eta)
    return eta if (eps > 0) == (x > 0) else 1.0 - eta


def _tol_u(theta):
    """Bound (in units of eps, first order) for |F_eps(inv(eps, u)) - u|; see the module docstring."""
    p = 1.0 + 1.0 / theta
    return 4.4 * p + (theta + 1.0) * (2.0 / theta + 3.0) + p * (theta + 3.0) + 4.4


def _kappa_x(theta, w, eps, x):
    """First-order bound (in units of eps) of the relative error of inv(eps, F_eps(x)) for x != 0."""
    p = 1.0 + 1.0 / theta
    try:
        y = abs(eps / x) ** theta
        g = (1.0 + y) ** (-p)
    except (OverflowError, ZeroDivisionError):
        return INF
    if not (g > 0.0 and 0.0 < y < INF):
        return INF
    lng = abs(math.log(g))
    dg = p * (theta + 3.0) + lng + 2.0
    return (((1.0 + y) / y) * (dg + 4.0 / (w * g) + 2.0 * lng + 3.0) + 1.0 + abs(math.log(y))) / theta + 3.0


def _ulat(eta):
    """The u lattice plus the exact ties of the inverse's comparisons u >= 1 - eta, u >= eta (where the inverse is 0)."""
    return sorted(set(ULAT) | {x for x in (float(eta), 1.0 - float(eta)) if 0.0 < x < 1.0})


def _sub_conditional(sh, case):
    cspec = case["copula"]
    theta, eta = cspec["theta"], cspec["eta"]
    eps = float(case["eps"])
    cop = _make(cspec)
    ecls = _eta_cls(cspec)
    scls = ("eps>0" if eps > 0 else "eps<0") + ("" if 1e-50 <= abs(eps) <= 1e50 else ":extreme-eps") + _vk(cspec)
    n = 0

    def F(x):
        r = cop.conditional_distribution(eps, np.array([x]))
        return float(np.asarray(r).reshape(-1)[0])

    vals = [F(x) for x in XLAT]
    n += len(vals)
    slack = 16 * EPS
    key = f"C11:conditional:clayton:{{}}:{ecls}:{scls}"
    for x, v in zip(XLAT, vals):
        if not (-slack <= v <= 1.0 + slack):  # also catches nan
            sh.violation(key.format("value-outside-[0,1]"), f"{cop!r}: F_eps({x}) = {v!r} for eps = {eps}", {"x": x, "value": v})
    if not abs(vals[0]) <= slack:
        sh.violation(key.format("limit-at-minus-inf-not-0"), f"{cop!r}: F_eps(-inf) = {vals[0]!r} for eps = {eps}", {"value": vals[0]})
    if not abs(vals[-1] - 1.0) <= slack:
        sh.violation(key.format("limit-at-plus-inf-not-1"), f"{cop!r}: F_eps(+inf) = {vals[-1]!r} for eps = {eps}", {"value": vals[-1]})
    for (x0, v0), (x1, v1) in zip(zip(XLAT, vals), zip(XLAT[1:], vals[1:])):
        n += 1
        if not v1 >= v0 - slack:
            side = "x<0" if x1 <= 0 else "x>0"
            sh.violation(key.format("decreasing-in-second-argument") + ":" + side,
                         f"{cop!r}: F_eps({x0}) = {v0!r} > F_eps({x1}) = {v1!r} for eps = {eps}", {"x0": x0, "x1": x1, "v0": v0, "v1": v1})
    sh.cls(f"conditional:{scls}:{ecls}")

    inv = cop.inverse_conditional_distribution
    # F o inv = id on the u lattice (array call with one eps per u, as the series representation calls it)
    ulat = _ulat(eta)
    us = np.array(ulat)
    xs = np.asarray(inv(np.full(us.shape, eps), us), dtype=float)
    tol = 4.0 * _tol_u(theta) * EPS
    worst_u = 0.0
    brk = (1.0 - eta) if eps > 0 else eta
    for u, x in zip(ulat, xs):
        n += 1
        ucls = "u=break" if u == brk else ("u<break" if u < brk else "u>break")
        if math.isnan(x):
            sh.violation(f"C11:inverse:clayton:inverse-is-nan:{ecls}:{scls}:{ucls}",
                         f"{cop!r}: inverse_conditional_distribution({eps}, {u}) = nan", {"u": u})
            continue
        back = F(float(x))
        if not abs(back - u) <= tol:
            sh.violation(f"C11:inverse:clayton:F-of-inverse-differs:{ecls}:{scls}:{ucls}",
                         f"{cop!r}: inverse({eps}, {u}) = {x!r} but F_eps of it = {back!r}", {"u": u, "x": float(x), "F": back, "tol": tol})
        else:
            worst_u = max(worst_u, abs(back - u) / EPS)
        # the inverse must land on the correct half line
        if u != brk and (x > 0) != (u > brk):
            sh.violation(f"C11:inverse:clayton:inverse-on-wrong-half-line:{ecls}:{scls}:{ucls}",
                         f"{cop!r}: inverse({eps}, {u}) = {x!r}; F_eps(0) = {brk}", {"u": u, "x": float(x)})
    # inv o F = id on the finite x of the lattice where F_eps is strictly increasing
    worst_k = 0.0
    for x, v in zip(XLAT, vals):
        if not math.isfinite(x):
            continue
        w = _side_weight(eta, eps, x)
        if w <= 0.0:
            sh.count("inverse_skipped_flat_half_line")
            continue
        xcls = "x=0" if x == 0 else ("x<0" if x < 0 else "x>0")
        got = float(np.asarray(inv(np.array([eps]), np.array([v])), dtype=float).reshape(-1)[0])
        n += 1
        if x == 0:
            ok = got == 0.0
            rt = 0.0
        else:
            kap = _kappa_x(theta, w, eps, x)
            rt = 4.0 * kap * EPS
            if not rt <= 1e-6:
                sh.count("inverse_ill_conditioned")
                continue
            ok = abs(got - x) <= rt * abs(x)
            if ok:
                worst_k = max(worst_k, abs(got - x) / abs(x) / (kap * EPS))
        if not ok:
            sh.violation(f"C11:inverse:clayton:inverse-of-F-differs:{ecls}:{scls}:{xcls}",
                         f"{cop!r}: F_eps({x}) = {v!r} for eps = {eps}, inverse of that = {got!r}",
                         {"x": x, "F": v, "inverse": got, "rtol": rt})
        sh.cls(f"inverse:{scls}:{xcls}")
    sh.count("evaluations", n)
    sh.count("conditional_points", n)
    sh.outcome(("conditional", _j(cspec), eps, [round(v, 12) for v in vals[1:-1:3]]))
    sh.nontriv()
    sh.cls(f"history:{_via_cls(cspec)}")
    if theta == 0.7 and eta == 0.3 and abs(eps) == 1.0 and "via" not in cspec:
        sh.sample({"sub": "conditional", "copula": cspec, "eps": eps, "F_eps along X": vals,
                   "max |F(inv(u)) - u| / eps": worst_u, "max observed/bound for inv(F(x))": worst_k})


def _sub_inverse_mixed(sh, case):
    """One vectorised call of the inverse with first arguments of BOTH signs and all magnitudes of the menu (the series
    representation calls it with eps = tau (2 U - 1)); F_eps(inverse) = u is then checked element by element."""
    cspec = case["copula"]
    theta, eta = cspec["theta"], cspec["eta"]
    cop = _make(cspec)
    ecls = _eta_cls(cspec)
    eps_all = [s * float(e) for e in case["eps"] for s in (1.0, -1.0)]
    pairs = [(e, u) for e in eps_all for u in _ulat(eta)]
    es = np.array([p[0] for p in pairs])
    us = np.array([p[1] for p in pairs])
    xs = np.asarray(cop.inverse_conditional_distribution(es, us), dtype=float)
    tol = 4.0 * _tol_u(theta) * EPS
    n = 0
    bad = 0
    if xs.shape != us.shape:
        sh.violation(f"C11:inverse:clayton:mixed-sign-call:wrong-shape:{ecls}{_vk(cspec)}",
                     f"{cop!r}: inverse_conditional_distribution of arrays of shape {us.shape} has shape {xs.shape}", {})
        xs = np.full(us.shape, np.nan)
    for (e, u), x in zip(pairs, xs):
        n += 1
        scls = "eps>0" if e > 0 else "eps<0"
        brk = (1.0 - eta) if e > 0 else eta
        ucls = "u=break" if u == brk else ("u<break" if u < brk else "u>break")
        back = float(np.asarray(cop.conditional_distribution(e, np.array([float(x)]))).reshape(-1)[0]) if not math.isnan(x) else math.nan
        if not abs(back - u) <= tol:  # also catches nan
            bad += 1
            sh.violation(f"C11:inverse:clayton:mixed-sign-call:F-of-inverse-differs:{ecls}:{scls}:{ucls}{_vk(cspec)}",
                         f"{cop!r}: in one call with first arguments of both signs, inverse({e}, {u}) = {x!r} but F_eps of it = {back!r}",
                         {"eps": e, "u": u, "x": float(x), "F": back, "tol": tol})
        elif u != brk and (x > 0) != (u > brk):
            bad += 1
            sh.violation(f"C11:inverse:clayton:mixed-sign-call:inverse-on-wrong-half-line:{ecls}:{scls}:{ucls}{_vk(cspec)}",
                         f"{cop!r}: inverse({e}, {u}) = {x!r}; F_eps(0) = {brk}", {"eps": e, "u": u, "x": float(x)})
    sh.count("evaluations", n)
    sh.count("inverse_mixed_points", n)
    sh.cls("inverse:mixed-sign-call")
    sh.outcome(("inverse_mixed", _j(cspec), n, bad, [round(float(x), 9) for x in xs[:: max(1, len(xs) // 7)] if math.isfinite(x)]))
    sh.nontriv()


# ----------------------------------------------------------------------------------------------------------------------
# Clayton stated mixed derivative
# ----------------------------------------------------------------------------------------------------------------------

def _tau(theta, d, rho):
    abar = max(theta + 1.0, (d - 1.0) * theta)
    bbar = theta * (1.0 + d * theta) / 4.0
    lam = -math.log(1.0 - rho)
    return 0.5 * (abar * abar + abar + bbar) * (d / 3.0 + d * (d - 1) / 4.0) * rho * rho * math.exp(abar * d * lam) / (1.0 - rho) ** 2


def _fd(f, u, rho, theta):
    """Central mixed difference of f at u with relative step rho; returns (FD, tolD) with the bounds of the docstring."""
    d = len(u)
    h = [rho * abs(x) for x in u]
    sabs = 0.0
    terms = []
    for p in itertools.product((0, 1), repeat=d):
        v = tuple(x + hh if pi else x - hh for x, hh, pi in zip(u, h, p))
        t = f(v)
        sabs += abs(t)
        terms.append(t if (d - sum(p)) % 2 == 0 else -t)
    total = math.fsum(terms)
    # actual box half-widths (u +- h are rounded): use the realised widths
    width = 1.0
    for x, hh in zip(u, h):
        width *= (x + hh) - (x - hh)
    fd = total / width
    r = 4.0 * (12.0 + d / theta + 2 ** d) * EPS * sabs / abs(width)
    tau = _tau(theta, d, rho * (1.0 + 1e-9))
    if tau >= 0.5:
        return fd, INF
    return fd, r + tau * (abs(fd) + r) / (1.0 - tau)


def _sub_xderiv(sh, case):
    cspec, d = case["copula"], case["dim"]
    theta = cspec["theta"]
    cop = _make(cspec)
    f = _F(cop)
    ecls = _eta_cls(cspec)
    mags = [float(m) for m in case["mags"]]
    letters = sorted([-m for m in mags] + mags)
    n = 0
    worst = 0.0
    sig = []
    for u in itertools.product(letters, repeat=d):
        X = float(cop.x_first_derivative(np.array(u, dtype=float)))
        P = 1.0
        for x in u:
            P *= x
        best = None
        for rho in RHOS:
            fd, tol = _fd(f, u, rho, theta)
            if best is None or tol < best[1]:
                best = (fd, tol, rho)
        fd, tol, rho = best
        n += 1
        pcls = "prod>0" if P > 0 else "prod<0"
        if not tol <= 1e-2 * abs(fd) and not (fd == 0.0 and tol == 0.0):
            sh.count("fd_inconclusive")
            continue
        xr = 64.0 * (1.0 + d / theta) * EPS * abs(X)
        sh.cls(f"xderiv:d{d}:{pcls}:{ecls}")
        if abs(X - P * fd) <= abs(P) * tol + xr:
            worst = max(worst, abs(X - P * fd) / (abs(P) * tol + xr) if (abs(P) * tol + xr) > 0 else 0.0)
            sh.count("xderiv_agree")
            continue
        # as written the statement fails at this point (or the point cannot distinguish: |P| = 1 never reaches here)
        if abs(X - fd) <= tol + xr:
            fc = "equals-plain-mixed-derivative-not-times-product"
        elif abs(X + fd) <= tol + xr:
            fc = "equals-minus-plain-mixed-derivative-not-times-product"
        else:
            fc = "unrelated-to-mixed-derivative"
        sh.violation(f"C11:xderiv:clayton:d{d}:{fc}:{ecls}:{pcls}{_vk(cspec)}",
                     f"{cop!r}: x_first_derivative({list(u)}) = {X!r}; central mixed difference of the copula = {fd!r} "
                     f"(rho {rho}, bound {tol:.3g}), times the product of the arguments ({P!r}) = {P * fd!r}",
                     {"u": u, "x_first_derivative": X, "mixed_difference": fd, "product": P, "expected": P * fd,
                      "tolerance_on_difference": tol, "rho": rho})
        if len(sig) < 6:
            sig.append(round(X, 9))
    # zero entries: product 0, mixed derivative finite => exactly 0
    zl = sorted(set(letters) | {0.0} | set(_ext_letters(cspec))) + [-0.0]
    for u in itertools.product(zl, repeat=d):
        if 0.0 not in u:
            continue
        X = float(cop.x_first_derivative(np.array(u, dtype=float)))
        n += 1
        if not X == 0.0:
            sh.violation(f"C11:xderiv:clayton:d{d}:nonzero-with-a-zero-argument:{ecls}{_vk(cspec)}",
                         f"{cop!r}: x_first_derivative({list(u)}) = {X!r}, expected 0", {"u": u, "value": X})
    sh.count("evaluations", n)
    sh.count("xderiv_points", n)
    sh.outcome(("xderiv", _j(cspec), d, n, sig))
    sh.nontriv()
    sh.cls(f"history:{_via_cls(cspec)}")
    if theta == 0.7 and cspec["eta"] == 0.3 and "via" not in cspec:
        u = tuple([0.2, 5.0, 1.0][:d])
        X = float(cop.x_first_derivative(np.array(u)))
        fd, tol = _fd(f, u, 1e-3, theta)
        sh.sample({"sub": "xderiv", "copula": cspec, "u": u, "x_first_derivative": X, "mixed_difference": fd, "bound": tol,
                   "largest |X - P FD| / tolerance among agreeing points": worst})


# ----------------------------------------------------------------------------------------------------------------------
# histories on a re-used object against a freshly built one
# ----------------------------------------------------------------------------------------------------------------------

_H2 = [-INF, -5.0, -0.2, -1e-200, 0.0, 1e-200, 0.2, 1.0, INF]
_H3 = [-INF, -1.0, 0.0, 0.2, 5.0, INF]
_HX = [-5.0, -0.2, 0.0, 0.2, 1.0]


def _observe(cop, clayton):
    """Every public function on a fixed lattice: list of (function, argument, value)."""
    obs = []
    for u in itertools.product(_H2, repeat=2):
        obs.append(("call:d2", u, float(cop(np.array(u, dtype=float)))))
    for u in itertools.product(_H3, repeat=3):
        obs.append(("call:d3", u, float(cop(np.array(u, dtype=float)))))
    if clayton:
        for eps in (0.2, -0.2, 5.0, -5.0):
            for x in XLAT:
                obs.append(("conditional_distribution", (eps, x),
                            float(np.asarray(cop.conditional_distribution(eps, np.array([x]))).reshape(-1)[0])))
        es = np.array([e for e in (0.2, -0.2, 5.0, -5.0) for _ in ULAT])
        us = np.array([u for _ in range(4) for u in ULAT])
        xs = np.asarray(cop.inverse_conditional_distribution(es, us), dtype=float)
        for e, u, x in zip(es, us, xs):
            obs.append(("inverse_conditional_distribution", (float(e), float(u)), float(x)))
        for d in (2, 3):
            for u in itertools.product(_HX, repeat=d):
                obs.append((f"x_first_derivative:d{d}", u, float(cop.x_first_derivative(np.array(u, dtype=float)))))
    return obs


def _same(a, b):
    if math.isnan(a) or math.isnan(b):
        return math.isnan(a) and math.isnan(b)
    return a == b or abs(a - b) <= 1e-13 * max(abs(a), abs(b))


def _sub_history(sh, case):
    """The object reached through the history behaves as a freshly built object with the same public parameters, on
    every public function (the fresh object is what all other sub-checks judge)."""
    cspec = case["copula"]
    clayton = cspec["kind"] == "clayton"
    route = cspec["via"]["route"]
    used = _make(cspec)
    fresh = _plain(cspec)
    a = _observe(used, clayton)
    b = _observe(fresh, clayton)
    n = 0
    bad = 0
    seen = set()
    for (fn, arg, va), (_, _, vb) in zip(a, b):
        n += 1
        if not _same(va, vb):
            bad += 1
            if fn not in seen or bad <= 3:
                seen.add(fn)
                sh.violation(f"C11:history:{cspec['kind']}:{fn}:differs-from-a-freshly-built-object-with-the-same-parameters:via-{route}",
                             f"{used!r} reached through the history {route!r} (from {cspec['via'].get('from')}): {fn}{tuple(arg)} = {va!r}, "
                             f"a freshly built {fresh!r} gives {vb!r}", {"function": fn, "argument": arg, "re-used": va, "fresh": vb})
    sh.count("evaluations", n)
    sh.count("history_points", n)
    sh.cls(f"history:via-{route}")
    sh.outcome(("history", _j(cspec), n, bad, round(sum(v for _, _, v in a if math.isfinite(v)), 9)))
    sh.nontriv()
    if clayton and route == "use-set" and cspec["theta"] == 0.7 and cspec["via"]["from"] == [3.0, 1.0]:
        sh.sample({"sub": "history", "copula": cspec, "points compared with a fresh object": n, "differences": bad})


# ----------------------------------------------------------------------------------------------------------------------
# argument forms, argument arrays left alone, no aliasing
# ----------------------------------------------------------------------------------------------------------------------

_G2 = [-INF, -5.0, -0.2, -1e-200, -0.0, 0.0, 1e-200, 0.2, 1.0, INF]
_G3 = [-INF, -1.0, -0.0, 0.2, 5.0, INF]
_GX = [-5.0, -0.2, -0.0, 0.0, 0.2, 1.0]
_GEPS = [0.2, -0.2, 1.0, -1.0, 5.0, -5.0]


def _snap(obj):
    """Value of an argument object, bit for bit (the sign of a zero and the dtype count)."""
    if isinstance(obj, np.ndarray):
        return ("ndarray", obj.dtype.str, obj.shape, obj.tobytes())
    if isinstance(obj, (list, tuple)):
        return (type(obj).__name__, tuple(_snap(x) for x in obj))
    if isinstance(obj, range):
        return ("range", obj.start, obj.stop, obj.step)
    return (type(obj).__name__, repr(obj))


def _integral(u):
    return all(math.isfinite(x) and float(x) == int(x) for x in u)


class _Args:
    """Bookkeeping of the sub-check `args` for one copula object."""

    def __init__(self, sh, cspec, cop):
        self.sh, self.cspec, self.cop = sh, cspec, cop
        self.kind, self.vk = _kind(cspec), _vk(cspec)
        self.n = 0
        self.bad = 0
        via = cspec.get("via") or {}
        # integer-valued arrays raised to the power -theta: rejected by numpy when theta itself is an integer object
        # ("Integers to negative integer powers are not allowed"), on the unchanged tree too: outside the alphabet
        self.int_arrays = not (self.kind == "clayton" and via.get("route") == "int-parameters")

    def fail(self, fn, failure, what, detail):
        self.bad += 1
        self.sh.violation(f"C11:args:{self.kind}:{fn}:{failure}{self.vk}", f"{self.cop!r}: {what}", detail)

    def guarded(self, fn, call, **named):
        """call() with the caller's argument objects `named` compared bit for bit before / after."""
        before = {k: _snap(v) for k, v in named.items()}
        r = call()
        for k, v in named.items():
            if _snap(v) != before[k]:
                after = np.asarray(v, dtype=float).reshape(-1)[:12].tolist()
                self.fail(fn, f"argument-modified-by-the-call:{k}",
                          f"{fn} changed its argument `{k}` (the caller's object is not the same bit for bit after the call; now {after})",
                          {"argument": k, "after": _j(after)})
        return r

    def form(self, fn, name, ref, call, arg, rtol=0.0, **named):
        """An alternative legal form of the arguments (accepted by the unchanged tree): same answer as the usual form."""
        self.n += 1
        try:
            v = self.guarded(fn, call, **named)
        except Exception as e:  # the unchanged tree accepts this form
            self.fail(fn, f"raises-on-argument-form:{name}", f"{fn} with {name} at {arg}: {type(e).__name__}: {e}", {"argument": _j(arg)})
            return None
        va, ra = np.asarray(v, dtype=float), np.asarray(ref, dtype=float)
        if va.size != ra.size:
            self.fail(fn, f"differs-from-usual-form:{name}", f"{fn} with {name} at {arg}: {va.size} value(s), usual form {ra.size}", {"argument": _j(arg)})
            return v
        for x, y in zip(va.reshape(-1), ra.reshape(-1)):
            x, y = float(x), float(y)
            ok = (math.isnan(x) and math.isnan(y)) or x == y or abs(x - y) <= rtol * max(abs(x), abs(y))
            if not ok:
                self.fail(fn, f"differs-from-usual-form:{name}", f"{fn} with {name} at {arg} = {x!r}, with the usual form {y!r}",
                          {"argument": _j(arg), "form": name, "value": x, "usual": y})
                break
        return v


def _sub_args(sh, case):
    """Every public entry point: (a) the caller's argument arrays / lists are bit for bit the same after the call, (b) a
    second call on the same array, a work array re-used with other contents (what the margin operator does), a strided
    view, and every other argument form the unchanged tree accepts give the answer of the usual form, (c) a returned
    array changes neither when the caller's arguments are overwritten afterwards nor when the function is called again."""
    from rpylib.model.levycopulamodel import margin, volume

    cspec = case["copula"]
    cop = _make(cspec)
    clayton = cspec["kind"] == "clayton"
    A = _Args(sh, cspec, cop)

    # -- the copula itself
    for d, letters in ((2, _G2), (3, _G3)):
        fn = f"call:d{d}"
        buf = np.empty(d)
        big = np.full((d, 3), 9.0)
        for u in itertools.product(letters, repeat=d):
            fresh = np.array(u, dtype=float)
            ref = A.guarded(fn, lambda: cop(fresh), us=fresh)
            A.n += 1
            buf[:] = u
            A.form(fn, "re-used-work-array", ref, lambda: cop(buf), u, us=buf)
            A.form(fn, "second-call-on-the-same-array", ref, lambda: cop(buf), u, us=buf)
            big[:, 1] = u
            A.form(fn, "strided-view", ref, lambda: cop(big[:, 1]), u, us=big)
            if A.int_arrays and _integral(u):
                iu = np.array([int(x) for x in u])
                A.form(fn, "integer-array", ref, lambda: cop(iu), u, rtol=1e-13, us=iu)
            elif _integral(u):
                sh.count("form_outside_alphabet")
    sh.cls("args:call")

    # -- margin operator: forms of the index set and of the argument
    for d, idx_sets, points in ((2, ([0], [1]), ([-5.0], [-0.2], [1.0])),
                                (3, ([1], [2, 0], [0, 1]), None)):
        for idx in idx_sets:
            pts = points or ([[-5.0], [1.0]] if len(idx) == 1 else [[-5.0, 1.0], [1.0, -1.0], [-0.2, -5.0]])
            for u in pts:
                fn = f"margin:d{d}"
                il, ua = list(idx), np.array(u, dtype=float)
                m_usual = margin(cop, il, d)
                ref = A.guarded(fn, lambda: m_usual(ua), indices=il, u=ua)
                A.n += 1
                A.form(fn, "second-call-of-the-same-margin", ref, lambda: m_usual(ua), (idx, u), u=ua, indices=il)
                for iname, iobj in (("list", list(idx)), ("tuple", tuple(idx)), ("array", np.array(idx))):
                    for uname, uobj in (("list", list(u)), ("tuple", tuple(u)), ("integer-list", [int(x) for x in u] if _integral(u) else None)):
                        if uobj is None:
                            continue
                        A.form(fn, f"indices-{iname}:u-{uname}", ref, lambda: margin(cop, iobj, d)(uobj), (idx, u), rtol=1e-13,
                               indices=iobj, u=uobj)
    sh.cls("args:margin")

    # -- volume operator: forms of the corners
    fg = _gen_adapter(cop)
    for a, b in (([-1.0, 0.2], [0.2, INF]), ([-5.0, -1.0], [-1.0, 5.0]), ([-1.0, 0.0, 0.2], [1.0, 5.0, INF]), ([-5.0, -1.0, 0.0], [-1.0, 5.0, 1.0]),
                 # empty rectangles (a_i == b_i on one, two, all sides) and a lower end -inf
                 ([1.0, -5.0], [1.0, 5.0]), ([-1.0, 0.2], [5.0, 0.2]), ([-5.0, 1.0], [-5.0, 1.0]), ([-INF, 0.2], [-1.0, 5.0]),
                 ([1.0, -5.0, 0.2], [1.0, 5.0, INF]), ([-1.0, 5.0, -5.0], [1.0, 5.0, -5.0]), ([1.0, -1.0, 5.0], [1.0, -1.0, 5.0]),
                 ([-INF, -1.0, 1.0], [1.0, 5.0, 1.0])):
        fn = f"volume:d{len(a)}"
        ref = A.guarded(fn, lambda: volume(fg, a, b), a=a, b=b)
        A.n += 1
        for name, conv in (("tuples", tuple), ("arrays", lambda z: np.array(z, dtype=float))):
            ca, cb = conv(a), conv(b)
            A.form(fn, name, ref, lambda: volume(fg, ca, cb), (a, b), a=ca, b=cb)
        if _integral(a) and _integral(b):
            ia, ib = [int(x) for x in a], [int(x) for x in b]
            A.form(fn, "integer-lists", ref, lambda: volume(fg, ia, ib), (a, b), a=ia, b=ib)
    sh.cls("args:volume")

    if clayton:
        # -- conditional distribution
        fn = "conditional_distribution"
        prev = None
        for eps in _GEPS:
            at_zero = {}
            for x in XLAT + [-0.0]:
                xa = np.array([x])
                r = A.guarded(fn, lambda: cop.conditional_distribution(eps, xa), x=xa)
                A.n += 1
                ref = np.array(r, dtype=float, copy=True)
                if prev is not None and _snap(prev[0]) != prev[1]:
                    A.fail(fn, "earlier-result-changed-by-a-later-call", f"the array returned for {prev[2]} changed when the function was called at {(eps, x)}",
                           {"earlier": _j(prev[2]), "later": _j((eps, x))})
                if x == 0:
                    at_zero[math.copysign(1.0, x)] = float(ref.reshape(-1)[0])
                forms = [("eps-numpy-float", np.float64(eps), xa), ("eps-0d-array", np.array(eps), xa)]
                if float(eps) == int(eps):
                    forms += [("eps-python-int", int(eps), xa), ("eps-numpy-int", np.int64(int(eps)), xa)]
                if A.int_arrays and _integral([x]):
                    forms.append(("x-integer-array", eps, np.array([int(x)])))
                    if float(eps) == int(eps):
                        forms.append(("eps-python-int:x-integer-array", int(eps), np.array([int(x)])))
                for name, e2, x2 in forms:
                    A.form(fn, name, ref, lambda: cop.conditional_distribution(e2, x2), (eps, x), rtol=1e-13, x=x2)
                A.form(fn, "keywords", ref, lambda: cop.conditional_distribution(eps=eps, x=xa), (eps, x), x=xa)
                if isinstance(r, np.ndarray):
                    keep = _snap(r)
                    xa[0] = 123.0  # the caller re-uses its array
                    if _snap(r) != keep:
                        A.fail(fn, "result-aliases-the-argument", f"the array returned at {(eps, x)} changed when the caller overwrote its argument", {"argument": _j((eps, x))})
                    prev = (r, _snap(r), (eps, x))
            A.n += 1
            if at_zero.get(1.0) != at_zero.get(-1.0):
                A.fail(fn, "minus-zero-differs-from-zero", f"F_eps(-0.0) = {at_zero.get(-1.0)!r}, F_eps(0.0) = {at_zero.get(1.0)!r} for eps = {eps}", {"eps": eps})
        sh.cls("args:conditional")

        # -- inverse: one vectorised call against element-wise calls, scalar first argument, integer first arguments, views
        fn = "inverse_conditional_distribution"
        inv = cop.inverse_conditional_distribution
        eta = float(cspec["eta"])
        ulat = _ulat(eta)
        es = np.array([e for e in _GEPS for _ in ulat])
        us = np.array([u for _ in _GEPS for u in ulat])
        r = A.guarded(fn, lambda: inv(es, us), eps=es, x=us)
        A.n += 1
        ref = np.array(r, dtype=float, copy=True)
        keep = _snap(r) if isinstance(r, np.ndarray) else None
        later = inv(np.full(us.shape, 0.5), us[::-1].copy())  # the very next call, same shapes
        if keep is not None and _snap(r) != keep:
            A.fail(fn, "earlier-result-changed-by-a-later-call", "the array returned by one call changed when the function was called again", {})
        del later
        if ref.shape != us.shape:
            A.fail(fn, "wrong-shape", f"inverse of arrays of shape {us.shape} has shape {ref.shape}", {})
        else:
            for k in range(len(us)):
                e1, u1 = np.array([es[k]]), np.array([us[k]])
                A.form(fn, "element-wise-call", ref[k: k + 1], lambda: inv(e1, u1), (float(es[k]), float(us[k])), rtol=1e-9, eps=e1, x=u1)
            ua = np.array(ulat)
            for i, eps in enumerate(_GEPS):
                sl = ref[i * len(ulat): (i + 1) * len(ulat)]
                forms = [("eps-python-float", eps), ("eps-numpy-float", np.float64(eps)), ("eps-0d-array", np.array(eps)), ("eps-one-element-array", np.array([eps]))]
                if float(eps) == int(eps):
                    forms += [("eps-python-int", int(eps)), ("eps-numpy-int", np.int64(int(eps))), ("eps-integer-array", np.full(len(ulat), int(eps)))]
                for name, e2 in forms:
                    A.form(fn, name, sl, lambda: inv(e2, ua), (eps, "U"), rtol=1e-9, eps=e2, x=ua)
            A.form(fn, "keywords", ref, lambda: inv(eps=es, x=us), ("E", "U"), eps=es, x=us)
            e_big, u_big = np.full((len(us), 2), 7.0), np.full((len(us), 2), 0.4)
            e_big[:, 0], u_big[:, 0] = es, us
            A.form(fn, "strided-views", ref, lambda: inv(e_big[:, 0], u_big[:, 0]), ("E", "U"), rtol=1e-9, eps=e_big, x=u_big)
            A.form(fn, "reversed-order", ref[::-1], lambda: inv(es[::-1], us[::-1]), ("E", "U"), rtol=1e-9, eps=es, x=us)
            reps = -(-70000 // len(us))  # one call beyond 65536 elements
            e_long, u_long = np.tile(es, reps), np.tile(us, reps)
            A.form(fn, "long-arrays", np.tile(ref, reps), lambda: inv(e_long, u_long), ("E x %d" % reps, "U"), rtol=1e-9, eps=e_long, x=u_long)
            r = inv(es, us)
            keep = _snap(r) if isinstance(r, np.ndarray) else None
            es[:] = 3.0  # the caller re-uses its arrays
            us[:] = 0.5
            if keep is not None and _snap(r) != keep:
                A.fail(fn, "result-aliases-the-arguments", "the returned array changed when the caller overwrote its arguments", {})
        # sizes: no element
        A.n += 1
        try:
            r0 = np.asarray(inv(np.array([]), np.array([])))
            if r0.shape != (0,):
                A.fail(fn, "empty-arrays-wrong-shape", f"inverse of two empty arrays has shape {r0.shape}", {})
        except Exception as e:
            A.fail(fn, "raises-on-argument-form:empty-arrays", f"inverse of two empty arrays: {type(e).__name__}: {e}", {})
        sh.cls("args:inverse")

        # -- stated derivative
        for d in (2, 3):
            fn = f"x_first_derivative:d{d}"
            buf = np.empty(d)
            big = np.full((d, 2), 9.0)
            for u in itertools.product(_GX, repeat=d):
                fresh = np.array(u, dtype=float)
                ref = A.guarded(fn, lambda: cop.x_first_derivative(fresh), u=fresh)
                A.n += 1
                buf[:] = u
                A.form(fn, "re-used-work-array", ref, lambda: cop.x_first_derivative(buf), u, u=buf)
                A.form(fn, "keyword", ref, lambda: cop.x_first_derivative(u=buf), u, u=buf)
                big[:, 0] = u
                A.form(fn, "strided-view", ref, lambda: cop.x_first_derivative(big[:, 0]), u, u=big)
                if A.int_arrays and _integral(u):
                    iu = np.array([int(x) for x in u])
                    A.form(fn, "integer-array", ref, lambda: cop.x_first_derivative(iu), u, rtol=1e-13, u=iu)
        sh.cls("args:xderiv")

    sh.count("evaluations", A.n)
    sh.count("argument_form_points", A.n)
    sh.cls(f"history:{_via_cls(cspec)}")
    sh.outcome(("args", _j(cspec), A.n, A.bad))
    sh.nontriv()
    if clayton and cspec["theta"] == 0.7 and cspec["eta"] == 0.3 and "via" not in cspec:
        sh.sample({"sub": "args", "copula": cspec, "calls compared (forms, re-used arrays, aliasing)": A.n, "differences": A.bad})
