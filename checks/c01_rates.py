"""C01 - CTMC jump rates are the Levy-measure masses of the grid cells (1-d and copula).

Mode: lattice sweep over configurations, then complete enumeration of the grid states inside each configuration.

Alphabet (every case is a complete configuration; inside it every non-origin grid state is visited)
  chain1d    mc.alphabets.model_specs(tier) (HEM, Merton, VG, CGMY y in {-0.5, 0, 0.5, 1, 1.2, 1.5}; Levy and exponential
             models) x mc.alphabets.grid_specs(tier, 1) (uniform with truncation probability, fixed number of points,
             geometric, geometric with bounds, probability step, credit) + thorough: two more credit grids
             x k = 0..3 calls of refine() x every sampling method MarkovChainProcess(model, method, grid) accepts:
             ALIAS, TABLE, BINARYSEARCHTREE, HUFFMANNTREE, INVERSION, BINARYSEARCHTREEADAPTED1D.
             Construction routes of a model (the property quantifies over models, not over how they were reached):
             direct (constructor called with the values); "reinit" = mc.alphabets.with_reinit: EVERY model spec of the tier
             is followed by its twin with the same values reached through a parameter object built with other values,
             every attribute re-assigned, initialisation(), model constructor (quick: every k; thorough: k = 0, 1);
             "cycled" = the calibration route proper (model/utils.py calibrate_model_parameter + run_default_calibration):
             one deep copy of the parameter object, the attribute the default calibration moves (HEM sigma, Merton mu_j,
             CGMY c, VG sigma) set and initialisation() called three times with a model constructed and used after each,
             the last cycle restoring the spec's value (one model per family / activity class, every grid, k = 0;
             thorough: every quick model). For a twin the measure of the oracle is the density of the DIRECTLY constructed
             model with the same values (keys end in :reinit / :cycled).
  copula     mc.alphabets.copula_model_specs(tier) (pairs and triples of HEM / VG / CGMY 0.5 / CGMY 1.2 / Merton margins
             under Clayton(theta, eta), independent and completely dependent copulas; the exponential versions of the
             first pair / triple: thorough everywhere, quick under the first copula at k = 0) x {fixed n = 3, 5; uniform
             h = 0.2; credit symmetric / asymmetric / asymmetric with a different threshold (hence a different axis) per
             coordinate; geometric from the model's truncation (2 points per side); geometric with the asymmetric bounds
             (-0.7, 0.4)} x k = 0..1 calls of refine() x {INVERSION, BINARYSEARCHTREEADAPTED} through
             MarkovChainLevyCopula(levy_copula_model, grid, method). Route "reinit": every tuple of margins with ALL margins
             re-initialised, every grid, k = 0 (quick: under the first copula; thorough: every copula); reference =
             the directly constructed copula model; the twin's marginal tail integrals are also compared with the
             directly constructed margins'.
  density    (thorough; two configurations in quick) 2-d Clayton models x {fixed n = 3, 5; credit asymmetric} x k = 0..1:
             every off-axis cell (no coordinate at the origin index) against 2-d quadrature of the implied joint density
             d2F/du1du2 (U_1(x_1), U_2(x_2)) nu_1(x_1) nu_2(x_2), the mixed derivative of the Clayton formula written here.

  history    (both tiers) histories on ONE grid object: use - refine() - use again, up to 3 refinements in 1-d (every model
             x grid constructor of the tier, a chain built through all six methods at every step), 2 in 2-d and 1 in 3-d
             (copula models x {fixed n = 3, uniform h = 0.2, credit with a different axis per coordinate}, both methods);
             and through the real CouplingMarkovChain / CouplingProcessLevyCopula.next_level (real Product and path
             managers), whose fine_process at level l is a chain the library built on the refined, previously used grid:
             representative models x grid constructors x every sampling method x 2 levels. At every step the complete
             per-configuration oracle below runs on the re-used object (keys end in :used-grid-refined or
             :next_level:<method>), and axes, h, origin index, intensity and per-state rates are compared with a chain
             on a freshly constructed grid refined as often before its first use (catches state cached on the grid
             object that refine() does not invalidate). In the direct 1-d histories, at every step, a chain on a deep
             copy of the used grid must equal the chain on the grid, and a second grid of the same class with another h
             (0.75 h) is built, used, refined and used in between (class-level / module-level state of the grids).
             The re-initialised and the cycled twin of one model per family / activity class take part in both kinds
             (direct: every grid constructor; next_level: re-initialised x {ALIAS, BINARYSEARCHTREEADAPTED1D}, cycled x
             INVERSION).
  model-reuse (both tiers; sub "history1d"/"historynd", via "model-reuse") histories on ONE model object: a second model of
             the same class with other parameter values (1-d: mc.alphabets.DONOR_PARAMS, built directly and re-initialised;
             copula: the margins in reverse order under another copula) is built and used on the 3-point grid and on the
             case's grid constructor, refined, used again - BEFORE the first use of the model and again after the model was
             used on the 3-point grid through every method (each constructor deep-copies and truncates the model); the model
             is deep copied. Then the complete oracle runs on the model with a grid constructed now against a reference
             model constructed now (keys end in :model-reused), and the chain before, the chain after and the chain on the
             deep copy must be the same (intensity, per-state rates, axes). Round 8, 1-d: ONE measure object handed to
             create_q_vector with four grids that share h = 0.1, 7 states and both end points (uniform, geometric with the
             same bounds, base-class grid with other interior states, uniform again), each vector against the closed form
             of a reference measure constructed now on the cells of that grid's own axis (keys
             C01:history:measure:*:one-measure-many-grids). 1-d: every model of the tier + the twins x
             {uniform h = 0.1, geometric} (+ probability step, credit in thorough); copula: every copula model (+ reinit
             twins) x fixed n = 5 (2-d) / 3 (3-d). Catches parameter / memo state shared through class attributes, module
             caches or default arguments, and constructors that modify the model they are given.

  sizes / ties / depth (both tiers; sub "chain1d" / "copula", round 4) on top of the lattice above:
             degenerate sizes: DEGENERATE_GRIDS_1D = uniform h = 0.2 with truncation probability 0.5 (the bound falls
             inside h: the constructor's clamp leaves ONE state per half axis) and the base-class constructor
             CTMCGrid(h, origin_coordinate, axes) - kind "custom", the constructor every other one ends in - with one
             state on one half axis and three on the other ([-1,0,1,2,4] h and [-6,-3,-1,0,1] h), k = 0..1, one model per
             family / activity class (thorough: every model); 2-d: custom [-1,0,1,2,4] h, k = 0..1; end states exactly on
             user-given bounds (geometric-with-bounds, fixed) and cell edges exactly at +-h/2 are in the lattice already.
             Deeper levels: fixed n = 3 refined 4, 5 and 6 times (h = 0.1 / 2^6, 129 states; quick: HEM, CGMY 0.5 / 1.2 /
             1.5, thorough: every quick model); 2-d fixed n = 3 refined 2 and 3 times (17 points per axis).
             More states than every small-integer threshold: fixed n = 601 (h = 0.002; HEM, VG; thorough: one model per
             family) and fixed n = 33 001 (h = 2e-5; quick: HEM; thorough as for 601): the complete oracle on every state.
  narrow cells (both tiers, round 7; subs "chain1d" / "copula" / "history1d", grid spec flag "narrow", keys end in
             :narrow-cells) CELLS NARROWER THAN 1e-8 OR THAN 1e-5 |x| - legal ("all spatial steps h", "0..k refinements") and
             exactly what a comparison of cell edges "up to a tolerance" (np.isclose: atol 1e-8, rtol 1e-5) declares empty.
             Small grids of every class (NARROW_GRIDS_1D): fixed-size uniform h = 1e-9 (n = 5) and h = 1e-8 (n = 7: the
             width exactly 1e-8); the model-based uniform grid h = 1e-9 with truncation probability 0.9 (built where its
             bounds are within 2000 h: the infinite-variation models; elsewhere counted outside-alphabet-grid); geometric
             from the model's bounds h = 1e-9 (30 per side, the research scripts' grid with a smaller h); geometric with
             bounds h = 1e-9 / 2e-9; probability step h = 1e-9 / 1e-8; credit with the threshold a relative 1e-6 inside the
             left truncation / beyond -h (h = 0.1 and the credit benchmarks' h0 = 1e-6): states a -+ eps closer than
             1e-6 |a|; base-class constructor with clusters of states 1e-6 apart at |x| = 0.1, 0.3, 0.5, 1 (a uniform grid
             with h = 1e-6 away from the origin without its 10^6 states); thorough: six more (h = 3e-9, 5e-9, 1e-8, delta
             1e-7, clusters at |x| = 1). x one model per family / activity class and its re-initialised twin (thorough:
             every model + twin) x k = 0..1 (thorough 0..2) refinements x every sampling method: the complete oracle
             (rates of every route / sampler table against the density quadrature on the reference cell, tiling, sums =
             reported intensity = quadrature total, truncation probes). Copula (NARROW_GRIDS_ND): fixed h = 1e-9 / 1e-8,
             geometric with bounds h = 1e-9, custom clusters, both credit thresholds, every tuple of margins (quick: first
             copula), k = 0..1 in 2-d, fixed grids in 3-d. Histories: one used grid refined twice, next_level and the
             engine's deep-copied levels on a geometric-with-bounds h = 1e-9 grid and on a cluster grid.
             Tolerance of the regime: RELATIVE 1e-9 of the rate + 64 ulp of T, T = un-truncated mass beyond the central
             cell on the larger side (quadrature; the closed forms are differences of tail integrals of that magnitude, which
             exceeds the chain's own intensity by 10^7 on a support a few h wide) - no term proportional to lambda.
  copula-large (both tiers) 2-d fixed grids with 513 and 5001 points per axis (index > 255; 2 x 5001 > 10 000 = the
             threshold under which BinarySearchTreeAdapted pre-computes the states of the axes - the branch of
             _pre_computation no smaller grid enters). Stated sub-lattice: the states whose index on every axis is one of the
             first three, the last three or within 2 of the origin (120 states) + every bucket of the tree. Rates against
             reference rectangle masses (model.mass, tree._compute_probability, inversion for 513 - its constructor
             enumerates the frontier: > 200 s for 5001), bucket probability x lambda = reference mass of the bucket's
             rectangle, sum of buckets = intensity = compute_intensity_of_jumps = reference mass outside the central cell.
  forms1d / formsnd (both tiers, round 4) ARGUMENT FORMS, THE CALLER'S ARGUMENTS, COPIES. Models: BIG_JUMP_PARAMS (jumps of
             size one, h = 1: the only setting where a Python int is a sensible spatial step; one per family, thorough + the
             exponential versions) with int forms, VG and CGMY of the quick menu (thorough: one model per family / activity
             class + twins) at h = 0.1 without; one copula model per tuple of margins (thorough: every copula).
             (1) every grid constructor in its usual form (which also gets the complete oracle) and in every other legal form
             of its arguments - _grid_forms_1d: h as int / numpy int / numpy float, number of points as numpy int and even,
             bounds as int tuple / list / int list / float array / int array / numpy floats, level_a as int / numpy float
             (n-d: list / tuple / array / numpy floats), truncation probability / minimum probability step as numpy float or
             left to the default, dimension as numpy int, everything by position instead of keyword; must build and give the
             same axes, h, origin index, intensity and per-state rates, unrefined and refined once; arrays / lists handed over
             are compared with a copy taken before (not modified) and then modified by the caller (the grid must not follow);
             the axis array handed to the base-class constructor is not modified by chain constructors and refine().
             (2) the calls made on a chain: model.mass(a, b) with floats / numpy floats / 1-tuples / lists / arrays /
             keywords (n-d: tuples / lists / arrays / numpy floats), probability_to_jump_to_state with int / numpy int64 /
             int32 / intp (n-d: tuple / list / array / numpy ints), the adapted trees' _compute_probability with numpy floats
             first and floats second, compute_intensity_of_jumps and create_q_vector by keyword and by position: same
             answer (1e-12), caller's lists / arrays unchanged.
             (3) copy.copy, copy.deepcopy and a dill round trip of the grid, of the model and of the chain of every method
             answer like the original; after the deep / dill copy was advanced (grid refined, model truncated and
             re-parametrised) the original still answers as before, and the refined copy equals a refined original.
             In every chain1d / copula / history case: MarkovChainProcess is built by keyword and by position in turn, the
             caller's grid (axes, h, origin, truncations) and model (_fingerprint_1d: support, density and masses of its
             measure near and far from the origin, triplet, parameter values) are compared before / after the constructors,
             after the observations and after the couplings (keys C01:arguments:...:modified-by-...); at the end of every
             chain1d / copula case the caller truncates and re-parametrises ITS model object (donor values +
             initialisation()): the rates of the chains built before must not follow (the constructors deep copy).
  engine-levels (both tiers; sub "history1d" / "historynd") the route of the adaptive multilevel engine (Engine.price): the
             coupling of level l is copy.deepcopy of the coupling of level l-1 on which next_level is called, the couplings
             of ALL levels stay in use: after the last level was built the complete oracle runs on the fine_process of every
             level against a fresh grid refined as often; a deepcopy and a dill round trip (what the pool branch ships to its
             workers) of every level's coupling must carry the same chain. 1-d: representative models x {uniform h = 0.1,
             fixed n = 5} (thorough: every coupling grid) x {ALIAS, INVERSION, BINARYSEARCHTREEADAPTED1D} (thorough: all
             six), 3 levels; 2-d: fixed n = 3 (thorough: + uniform, credit; 3-d), both methods, 2 levels. Also deeper
             histories on fixed n = 3: one used grid refined 6 times, 5 levels through next_level.

Observation points
  process.intensity_of_jumps (every method); samplingfactory.compute_intensity_of_jumps(process.model, grid) with the
  arguments of model.mass recorded (the blocks whose masses are added); samplingfactory.create_q_vector(measure, grid)
  with the arguments of measure.integrate recorded (the cell of every state); the probability vector the factory hands to
  the ALIAS / TABLE / BINARYSEARCHTREE / HUFFMANNTREE constructors (recorded by wrapping the four names inside
  samplingfactory while the process is built); the inversion sampler's probability_to_jump_to_state for every state with
  the arguments of model.mass recorded; BinarySearchTreeAdapted1D._cell_bounds, ._compute_probability on every cell,
  ._proba_left_axis; BinarySearchTreeAdapted bucket coordinates / probabilities, ._precomputed_cum_p_for_axes,
  ._compute_probability on every cell, .intensity_of_jumps; process.model.mass(cell_lo, cell_hi) of the truncated deep
  copy held by the process; the truncated measure itself (density and half-line masses beyond the grid bounds).

Oracle (reference cell model computed here from the axes alone)
  boundary between neighbouring states = arithmetic mean; on the probability-step grid the point of equal Levy mass
  between the two states, found by bisection on the quadrature of the model's own density (the boundaries next to the
  origin are +-(distance to the neighbour of the origin)/2 on every grid); outer edges = axis end points.
  (i)   tiling, asserted on the cells the library itself uses (arguments of mass / integrate, _cell_bounds): every state
        strictly inside its cell (the two end states sit on the outer edge of theirs, which is the truncation bound);
        right edge of cell k = left edge of cell k+1 (4 ulp); outer edges = axis end points; inner edges = (mid(-h,0),
        mid(0,h)) = (-grid.h/2, grid.h/2); each library cell = reference cell (4 ulp; on the probability-step grid, whose
        own root finder stops at xtol = 1e-10 on closed forms carrying a few ulp of lambda of absolute error, within
        1e-9 + 16 ulp of lambda / density at the boundary); the blocks of compute_intensity_of_jumps are exactly the
        3^d - 1 products of {left part, central cell, right part} other than the all-central one; the buckets of the
        n-d adapted tree partition the non-origin states.
  (ii)  rate of a state = integral of the density nu.__call__ of the model the user passed (not the process's copy) over
        the reference cell (mc.oracle.integrate_density; cells never touch the origin, so no singular end point occurs);
        copula: mc.oracle.ref_rectangle_mass (signed copula volume of the marginal tail integrals with the straddle
        decomposition) on the un-truncated margins, the marginal tail integrals at every cell boundary being themselves
        compared with the quadrature of the margin's density (rtol 1e-9 + 64 ulp of the largest tail integral on the
        axis); and the joint-density quadrature of sub-check `density`.
  (iii) every rate >= -slack.
  (iv)  sum of the rates = intensity_of_jumps of every process = compute_intensity_of_jumps = the tree's own intensity =
        quadrature total; every route's rate of a state agrees with every other route's; the truncated copy of the model
        held by each of the six processes (built one after the other from the same model object) gives the same cell masses.
  (v)   the measure held by the process is the restriction to [axis[0], axis[-1]]: density 0 outside and unchanged at the
        states, half-line masses (-inf, inner edge] and [inner edge, inf) = sums of the rates on that side, an interval
        wholly outside the bounds has mass 0. (DESIGN section 9 item 20: in the copula chain the truncation does not
        reach `mass`; the cells are inside the box, so the un-truncated joint mass is the right one. Not asserted.)

Outside the alphabet (argument forms): forms the unchanged library rejects - int h for the model-based constructors (uniform,
geometric, credit: TypeError in compute_truncation_helper, whose int axis defeats the dispatch of middle()), float numbers of
points, lists as axes of the base-class constructor (number_of_points needs arrays), a list level_a in 1-d, (1, n) arrays for
mass / probability_to_jump_to_state; 0-d arrays for h (refine() halves the caller's array in place: `self.h /= 2`); int h for
the probability-step grid (np.insert truncates the new states of the LEFT half axis to integers: duplicated state -h, a
malformed axis - reported as a finding of round 4, property C13's subject, not judged here); the caller modifying the axis
arrays it handed to the base-class constructor (the grid keeps a reference, as documented by `self.axes = axes`); a grid refined
AFTER a chain was built on it and that old chain used again (the inversion sampler and the trees read the grid lazily: the
couplings always build a new chain); the probability-step grid following the model it was built from (it keeps that model's
measure for middle(): when the caller re-parametrises the model in place the cells move; the chains' own models must not, and
are judged); copy.copy of a grid / model followed by refine() / truncation of the copy (shallow copies
share axes list, origin coordinate and triplet by definition). The empty chain (fixed n = 1: no state, intensity 0).
Outside the alphabet: the origin state (no rate); the Black-Scholes family (no jumps: no chain rates); parameter objects
modified WITHOUT initialisation() or modified while a model built on them is in use (the library never does it); grids whose axes are not strictly increasing with 0 at the origin index
(property C13); credit thresholds not strictly between the left truncation and -h; sampling methods a constructor does not
accept (BINARYSEARCHTREEADAPTED in 1-d: KeyError; the q-vector methods and BINARYSEARCHTREEADAPTED1D for copulas:
ValueError / TypeError); h below 1e-9; uniform model-based grids with a tiny step and more than 2000 states per half axis
(10^6 .. 10^9 states; the cluster grids stand for their far cells), dimension > 3, the 3-d joint density; where
refine() puts the new states (C13); what the samplers do with the rates (C02); one-sided measures (no model of the library has
one: the `left == 0` / `right == 0` branches of create_sampling_method are unreachable); grids built from a
LevyDrivenSDEModel (C16).

Tolerances. Routes that repeat the same closed-form call: rtol 1e-12 + 1e-15 lambda. Closed form against quadrature of the
density: rtol 1e-9 + 1e-13 lambda + the quadrature's own error estimate (skipped and counted oracle_inconclusive when that
estimate exceeds 1e-10 relative) + 1.5 x density x (boundary tolerance of (i)) for each of the two boundaries.
Sums: rtol 1e-9 (narrow regime: + 16 ulp of T per state). Non-negativity: 64 ulp of lambda (1-d: a rate is a difference of two tail masses <= lambda); copula:
1e-13 S with S = the largest marginal tail integral at an end point of a non-straddling coordinate (every copula value of
the signed sum is bounded by it). Copula mass against reference mass: 1e-12 S + 1e-9 relative (as in C12).
Joint density: rtol 1e-8 + 1e-12 min_i max(|U_i(a_i)|, |U_i(b_i)|), compared only when the nested quadrature's own estimate
is below 1e-9 relative.
"""
from __future__ import annotations

import collections
import contextlib
import itertools
import math
import warnings

import numpy as np

from mc import alphabets as A
from mc import core
from mc import oracle as O

PID = "C01"
LEVEL = "exploration"
RULE = (
    "complete product model (x construction route: direct, re-initialised, calibration cycle) x grid constructor x "
    "refinement count (x copula x dimension), degenerate / deep / large sizes, histories on one grid object, on one model object "
    "and through deep-copied couplings, argument forms x copies of every object, every accepted sampling method "
    "inside each configuration, every non-origin grid state inside each configuration; a case is non-trivial when at least "
    "one state's rate was compared with the density quadrature (1-d), the reference rectangle mass (copula) or the "
    "joint-density quadrature (density); distinct = distinct case dict"
)
ASSUMPTIONS = [
    "the model's density nu.__call__ and the copula function are taken as given (they define the measure); closed-form "
    "marginal integrals are compared with the density quadrature at every cell boundary used",
    "quadrature: scipy QUADPACK with mpmath tanh-sinh fallback (mc.oracle.integrate_density); a comparison is made only "
    "when the quadrature's own error estimate is below the tolerance, otherwise counted as oracle_inconclusive",
    "the pathos pool inside MCLevyCopulaSimulation.__init__ (vol_adjustment_ij of infinite-variation copula models: 1 s in "
    "2-d, > 200 s in 3-d, not observed by this property) is replaced by a stand-in returning 0.0",
    "the probability vector of the q-vector samplers is observed by wrapping the four sampler names inside "
    "rpylib.distribution.samplingfactory during construction; the real constructors are still called",
]
CHUNK = 2

INF = math.inf
METHODS_1D = ["ALIAS", "TABLE", "BINARYSEARCHTREE", "HUFFMANNTREE", "INVERSION", "BINARYSEARCHTREEADAPTED1D"]
QVEC_METHODS = {"ALIAS": "AliasMethod", "TABLE": "TableMethod", "BINARYSEARCHTREE": "BinarySearchTree",
                "HUFFMANNTREE": "HuffmanTree"}
METHODS_ND = ["INVERSION", "BINARYSEARCHTREEADAPTED"]
EPS = float(np.finfo(float).eps)


# ----------------------------------------------------------------------------------------------------------------------
# cases
# ----------------------------------------------------------------------------------------------------------------------

def _copula_grids(tier, d):
    out = [
        {"kind": "fixed", "h": 0.1, "n": 3},
        {"kind": "fixed", "h": 0.1, "n": 5},
        {"kind": "uniform", "h": 0.2, "p": 0.99999},
        {"kind": "credit", "h": 0.1, "a_frac": 0.5, "symmetric": True},
        {"kind": "credit", "h": 0.1, "a_frac": 0.5, "symmetric": False},
    ]
    # a different threshold per coordinate: the only constructor that gives the coordinates different axes
    out.append({"kind": "credit", "h": 0.1, "a_frac": [0.5, 0.3, 0.4][:d], "symmetric": False})
    # non-uniform axes: geometric from the model's truncation (2 points per side) and with given asymmetric bounds
    out.append({"kind": "geometric", "h": 0.1, "n_side": 2, "p": 0.99999})
    out.append({"kind": "geometric-bounds", "h": 0.1, "bounds": [-0.7, 0.4], "n_side": 3 if d == 2 else 2})
    return out


def cases(tier):
    thorough = tier == "thorough"
    out = []
    # ---- one-dimensional chains
    direct_models = A.model_specs(tier)
    models = A.with_reinit(direct_models)  # every spec followed by its twin reached through mutate + initialisation()
    rep = _representative_models(direct_models) if not thorough else A.model_specs("quick")
    rep_twins = [dict(m, via=v) for m in _representative_models(direct_models) for v in ("reinit", "cycled")]
    quick_twins = [dict(m, via=v) for m in A.model_specs("quick") for v in ("reinit", "cycled")]
    grids = A.grid_specs(tier, 1)
    if thorough:
        grids = grids + [{"kind": "credit", "h": 0.05, "a_frac": 0.5, "symmetric": True},
                         {"kind": "credit", "h": 0.1, "a_frac": 0.8, "symmetric": True}]
    for k in range(4):
        for g in grids:
            for m in models:
                if thorough and k > 1 and m.get("via"):
                    continue  # thorough: the re-initialised twins of the large model menu at 0 and 1 refinements only
                out.append({"sub": "chain1d", "model": m, "grid": dict(g, refine=k)})
    # degenerate sizes and exact ties: one state on a half axis (through the clamp of the uniform grid when the truncation
    # bound is closer to the origin than h; through the base-class constructor on one side only), end states exactly on the
    # bounds the user gave; k = 0..1
    for k in range(2):
        for g in DEGENERATE_GRIDS_1D:
            for m in (direct_models if thorough else rep):
                out.append({"sub": "chain1d", "model": m, "grid": dict(g, refine=k)})
    # deeper refinement levels than the lattice above (h down to 0.1 / 2^6) on the cheapest grid, and more states than
    # every small-integer threshold (> 256: quick and thorough; > 32768: one model in quick, four in thorough)
    deep_models = rep if thorough else [m for m in rep if m["family"] in ("hem", "cgmy") and not m.get("exp")]
    for k in (4, 5, 6):
        for m in deep_models:
            out.append({"sub": "chain1d", "model": m, "grid": {"kind": "fixed", "h": 0.1, "n": 3, "refine": k}})
    large_models = [m for m in rep if not m.get("exp") and (m["family"] in ("hem", "vg") or thorough)]
    for m in large_models:
        out.append({"sub": "chain1d", "model": m, "grid": {"kind": "fixed", "h": 0.002, "n": 601, "refine": 0}})
    for m in (large_models if thorough else large_models[:1]):
        out.append({"sub": "chain1d", "model": m, "grid": {"kind": "fixed", "h": 2e-5, "n": 33001, "refine": 0}})
    for g in grids:
        for m in (quick_twins if thorough else rep_twins):
            if m["via"] == "cycled":  # the calibration route proper, unrefined grids
                out.append({"sub": "chain1d", "model": m, "grid": dict(g, refine=0)})
    # ---- narrow cells (round 7): cells narrower than 1e-8 (tiny h next to the origin) or than 1e-5 |x| (fine clusters far
    # from the origin, thresholds a relative 1e-6 away from a bound): every grid class on small grids, one model per family /
    # activity class and its re-initialised twin (thorough: every model), unrefined and refined; the complete oracle
    narrow_models = models if thorough else [mm for m in rep for mm in (m, dict(m, via="reinit"))]
    for g in NARROW_GRIDS_1D + (NARROW_GRIDS_1D_THOROUGH if thorough else []):
        for k in ((0, 1, 2) if thorough else (0, 1)):
            for m in narrow_models:
                out.append({"sub": "chain1d", "model": m, "grid": dict(g, refine=k, narrow=True)})
    # ---- copula chains
    cm = A.copula_model_specs(tier)
    cm = sorted(cm, key=lambda s: len(s["margins"]))
    # narrow cells in 2-d and 3-d: every tuple of margins (quick: under the first copula of the menu)
    seen_margins = set()
    for spec in cm:
        key = tuple(spec["margins"])
        if not thorough and key in seen_margins:
            continue
        seen_margins.add(key)
        for g in NARROW_GRIDS_ND:
            if len(key) == 3 and g["kind"] != "fixed":
                continue
            for k in ((0,) if len(key) == 3 else (0, 1)):
                out.append({"sub": "copula", "model": spec, "exp": False, "grid": dict(g, refine=k, narrow=True)})
    for k in range(2):
        for spec in cm:
            d = len(spec["margins"])
            exps = [False]
            if spec["margins"] in (["hem", "vg"], ["hem", "vg", "cgmy05"]) and (
                    thorough or (k == 0 and spec["copula"] == cm[0]["copula"])):
                exps = [False, True]
            for exp in exps:
                for g in _copula_grids(tier, d):
                    out.append({"sub": "copula", "model": spec, "exp": exp, "grid": dict(g, refine=k)})
    # deeper refinement levels (fixed n = 3 refined 2 and 3 times: 9 and 17 points per axis) and degenerate sizes (one state
    # on the left half of every axis, base-class constructor) in 2-d; quick: under the first copula
    for spec in cm:
        if len(spec["margins"]) != 2 or (not thorough and spec["copula"] != cm[0]["copula"]):
            continue
        for k in (2, 3):
            out.append({"sub": "copula", "model": spec, "exp": False, "grid": {"kind": "fixed", "h": 0.1, "n": 3, "refine": k}})
        for k in (0, 1):
            out.append({"sub": "copula", "model": spec, "exp": False, "grid": {"kind": "custom", "h": 0.1, "mult": [-1, 0, 1, 2, 4], "refine": k}})
    # more points per axis than the small-integer thresholds (513) and than the threshold below which the adapted tree
    # pre-computes the states of the axes (2 x 5001 > 10 000): the states of a stated sub-lattice, every bucket
    for spec in cm:
        if len(spec["margins"]) != 2 or (not thorough and spec["copula"] != cm[0]["copula"]):
            continue
        for n, h in ((513, 0.002), (5001, 0.0002)):
            out.append({"sub": "copula-large", "model": spec, "grid": {"kind": "fixed", "h": h, "n": n, "refine": 0}})
    # copula models whose margins were all reached through mutate + initialisation(): every tuple of margins, under the
    # first copula of the menu (quick) / every copula (thorough), every grid constructor, unrefined
    seen_margins = set()
    for spec in cm:
        key = tuple(spec["margins"])
        if not thorough and key in seen_margins:
            continue
        seen_margins.add(key)
        for g in _copula_grids(tier, len(key)):
            out.append({"sub": "copula", "model": dict(spec, via="reinit"), "exp": False, "grid": dict(g, refine=0)})
    # ---- histories on one grid object (use, refine, use again), directly and through the couplings' next_level
    hist_models = direct_models + rep_twins
    for g in grids:
        for m in hist_models:
            out.append({"sub": "history1d", "via": "direct", "model": m, "grid": dict(g, refine=0), "depth": 3})
    cgrids = [g for g in A.grid_specs("quick", 1) if not (g["kind"] == "uniform" and g["h"] == 0.2)] if thorough else [
        {"kind": "uniform", "h": 0.1, "p": 0.99999}, {"kind": "fixed", "h": 0.1, "n": 5},
        {"kind": "geometric", "h": 0.1, "n_side": 3, "p": 0.99999}, {"kind": "probability", "h": 0.1, "pmin": 0.2},
        {"kind": "credit", "h": 0.1, "a_frac": 0.5, "symmetric": True}]
    for g in cgrids:
        for m in rep:
            for meth in METHODS_1D:
                out.append({"sub": "history1d", "via": "next_level", "method": meth, "model": m, "grid": dict(g, refine=0), "depth": 2})
        for m in rep_twins:
            for meth in (["ALIAS", "BINARYSEARCHTREEADAPTED1D"] if m["via"] == "reinit" else ["INVERSION"]):
                out.append({"sub": "history1d", "via": "next_level", "method": meth, "model": m, "grid": dict(g, refine=0), "depth": 2})
    # narrow cells on ONE grid object (use, refine, use) and through next_level / the engine's deep-copied levels
    for g in NARROW_HISTORY_GRIDS_1D:
        g = dict(g, refine=0, narrow=True)
        for m in rep:
            out.append({"sub": "history1d", "via": "direct", "model": m, "grid": g, "depth": 2})
        for m in (rep if thorough else rep[:1] + rep[3:5]):
            for meth in (METHODS_1D if thorough else ["ALIAS", "INVERSION", "BINARYSEARCHTREEADAPTED1D"]):
                out.append({"sub": "history1d", "via": "next_level", "method": meth, "model": m, "grid": g, "depth": 2})
            out.append({"sub": "history1d", "via": "engine-levels", "method": "BINARYSEARCHTREEADAPTED1D", "model": m, "grid": g, "depth": 2})
    # the route of the adaptive multilevel engine: the coupling of level l is a DEEP COPY of the coupling of level l-1 on
    # which next_level is called, the couplings of all levels stay in use; a dill round trip of every level (what the
    # pool branch of the engines hands to its workers) must carry the same chain
    for g in (cgrids if thorough else cgrids[:2]):
        for m in rep:
            for meth in (METHODS_1D if thorough else ["ALIAS", "INVERSION", "BINARYSEARCHTREEADAPTED1D"]):
                out.append({"sub": "history1d", "via": "engine-levels", "method": meth, "model": m, "grid": dict(g, refine=0), "depth": 3})
    # deeper histories on the cheapest grid: 6 refinements of one used grid, 5 levels through next_level
    for m in deep_models:
        out.append({"sub": "history1d", "via": "direct", "model": m, "grid": {"kind": "fixed", "h": 0.1, "n": 3, "refine": 0}, "depth": 6})
    for m in (deep_models if thorough else deep_models[:1]):
        for meth in ["ALIAS", "INVERSION", "BINARYSEARCHTREEADAPTED1D"]:
            out.append({"sub": "history1d", "via": "next_level", "method": meth, "model": m,
                        "grid": {"kind": "fixed", "h": 0.1, "n": 3, "refine": 0}, "depth": 5})
    # histories on ONE model object: used on a narrow grid, a second model of the same class built and used in between, deep
    # copied - then the complete oracle on it against a freshly constructed reference model
    rgrids = [{"kind": "uniform", "h": 0.1, "p": 0.99999}, {"kind": "geometric", "h": 0.1, "n_side": 3, "p": 0.99999}]
    if thorough:
        rgrids += [{"kind": "probability", "h": 0.1, "pmin": 0.2}, {"kind": "credit", "h": 0.1, "a_frac": 0.5, "symmetric": True}]
    for g in rgrids:
        for m in direct_models + (quick_twins if thorough else rep_twins):
            out.append({"sub": "history1d", "via": "model-reuse", "model": m, "grid": dict(g, refine=0), "depth": 0})
    hgrids = [{"kind": "fixed", "h": 0.1, "n": 3}, {"kind": "uniform", "h": 0.2, "p": 0.99999},
              {"kind": "credit", "h": 0.1, "a_frac": [0.5, 0.3, 0.4], "symmetric": False}]
    for spec in cm:
        d = len(spec["margins"])
        for g in hgrids:
            g = dict(g, refine=0)
            if g["kind"] == "credit":
                g["a_frac"] = g["a_frac"][:d]
            if d == 3 and g["kind"] != "fixed":
                continue
            depth = 2 if d == 2 else 1
            out.append({"sub": "historynd", "via": "direct", "model": spec, "exp": False, "grid": g, "depth": depth})
            for meth in METHODS_ND:
                if d == 3 and not thorough:
                    continue
                out.append({"sub": "historynd", "via": "next_level", "method": meth, "model": spec, "exp": False, "grid": g, "depth": depth})
                if g["kind"] == "fixed" or thorough:
                    out.append({"sub": "historynd", "via": "engine-levels", "method": meth, "model": spec, "exp": False, "grid": g, "depth": depth})
    for spec in cm:
        d = len(spec["margins"])
        for via in ("direct", "reinit"):
            if via == "reinit" and not thorough and spec["copula"] != cm[0]["copula"]:
                continue
            sp = spec if via == "direct" else dict(spec, via="reinit")
            out.append({"sub": "historynd", "via": "model-reuse", "model": sp, "exp": False,
                        "grid": {"kind": "fixed", "h": 0.1, "n": 5 if d == 2 else 3, "refine": 0}, "depth": 0})
    # ---- joint density (2-d Clayton)
    clay2 = [s for s in cm if len(s["margins"]) == 2 and s["copula"]["kind"] == "clayton"]
    if not thorough:
        clay2 = [s for s in clay2 if s["margins"] == ["hem", "vg"]][:2]
    dgrids = [{"kind": "fixed", "h": 0.1, "n": 3}, {"kind": "fixed", "h": 0.1, "n": 5},
              {"kind": "credit", "h": 0.1, "a_frac": 0.5, "symmetric": False}]
    for spec in clay2:
        for g in (dgrids if thorough else dgrids[:2]):
            for k in ((0, 1) if thorough else (0,)):
                grid = dict(g, refine=k)
                npts = _axis_len_hint(grid)
                # one case per row of cells (first coordinate) so that the work is spread evenly
                for row in range(npts):
                    out.append({"sub": "density", "model": spec, "grid": grid, "row": row})
    # ---- argument forms, the caller's arguments, copies of every object
    for fam in ("hem", "merton", "vg", "cgmy"):
        # jumps of size one: the only models for which a Python int is a sensible spatial step
        out.append({"sub": "forms1d", "model": {"family": fam, "exp": False, "params": BIG_JUMP_PARAMS[fam]}, "h": 1.0, "ints": True})
        if thorough:
            out.append({"sub": "forms1d", "model": {"family": fam, "exp": True, "params": BIG_JUMP_PARAMS[fam], "r": 0.02, "d": 0.0, "spot": 100.0},
                        "h": 1.0, "ints": True})
    for m in (rep + rep_twins if thorough else [m for m in rep if m["family"] in ("vg", "cgmy")]):
        out.append({"sub": "forms1d", "model": m, "h": 0.1, "ints": False})
    seen_margins = set()
    for spec in cm:
        key = tuple(spec["margins"])
        if not thorough and key in seen_margins:
            continue
        seen_margins.add(key)
        out.append({"sub": "formsnd", "model": spec, "h": 0.1})
    return out


# models with jumps of size one (the spatial step of the `forms1d` cases is the int 1 / the float 1.0)
BIG_JUMP_PARAMS = {
    "hem": {"sigma": 0.1, "p": 0.4, "eta1": 1.5, "eta2": 1.0, "intensity": 2.0},
    "merton": {"sigma": 0.1, "sigma_j": 1.0, "mu_j": 0.2, "intensity": 3.0},
    "vg": {"sigma": 1.0, "nu": 0.5, "theta": -0.3},
    "cgmy": {"c": 0.5, "g": 1.0, "m": 1.5, "y": 0.7},
}

# narrow cells: cells narrower than 1e-8 or than 1e-5 |x| (a comparison of cell edges "up to a tolerance" - np.isclose has
# atol 1e-8, rtol 1e-5 - treats them as empty). Small grids of every class, so that the cost stays low:
#   tiny spatial steps (h = 1e-9 .. 1e-8: the research scripts use geometric grids with h = 1e-7 / 1e-6) on the fixed-size
#   uniform, geometric (model bounds / user bounds), probability-step grids and on the model-based uniform grid with a
#   low truncation probability (few points; outside the alphabet - counted - where the bound is further than "max_points" h);
#   the width exactly 1e-8 (fixed, h = 1e-8);
#   clusters of states 1e-6 apart at |x| = 0.1 .. 1 (base-class constructor; what a uniform grid with h = 1e-6 - the h0 of the
#   credit benchmarks - looks like away from the origin, without its 10^6 states);
#   credit grids whose threshold is a relative 1e-6 inside the left truncation / beyond -h (states a -+ eps 1e-6 |a| apart).
_C = 1e-6
NARROW_GRIDS_1D = [
    {"kind": "fixed", "h": 1e-9, "n": 5},
    {"kind": "fixed", "h": 1e-8, "n": 7},
    {"kind": "uniform", "h": 1e-9, "p": 0.9, "max_points": 2000},
    {"kind": "geometric", "h": 1e-9, "n_side": 30, "p": 0.99999},
    {"kind": "geometric-bounds", "h": 1e-9, "bounds": [-0.5, 0.4], "n_side": 25},
    {"kind": "geometric-bounds", "h": 2e-9, "bounds": [-1.0, 0.8], "n_side": 20},
    {"kind": "probability", "h": 1e-9, "pmin": 0.2},
    {"kind": "probability", "h": 1e-8, "pmin": 0.05},
    {"kind": "credit", "h": 0.1, "a_near": "truncation", "delta": 1e-6, "symmetric": True},
    {"kind": "credit", "h": 0.1, "a_near": "h", "delta": 1e-6, "symmetric": True},
    {"kind": "credit", "h": 1e-6, "a_near": "h", "delta": 1e-6, "symmetric": True},
    {"kind": "custom", "h": 0.1, "points": [[-0.5, -2 * _C], [-0.5, -_C], -0.5, [-0.5, _C], -0.1, 0.0, 0.1, 0.3, [0.3, _C], [0.3, 2 * _C]]},
    {"kind": "custom", "h": 1e-6, "points": [[-1.0, -_C], -1.0, [-1.0, _C], -0.1, -1e-6, 0.0, 1e-6, 2e-6, 0.1, [0.1, _C], [0.1, 2 * _C]]},
]
NARROW_GRIDS_1D_THOROUGH = [
    {"kind": "fixed", "h": 3e-9, "n": 9},
    {"kind": "uniform", "h": 1e-8, "p": 0.99, "max_points": 2000},
    {"kind": "geometric", "h": 1e-8, "n_side": 12, "p": 0.999},
    {"kind": "geometric-bounds", "h": 5e-9, "bounds": [-0.7, 0.4], "n_side": 40},
    {"kind": "credit", "h": 1e-6, "a_near": "truncation", "delta": 1e-7, "symmetric": True},
    {"kind": "custom", "h": 0.1, "points": [[-1.0, -3e-6], -1.0, -0.1, 0.0, 0.1, 1.0, [1.0, 3e-6], [1.0, 9e-6]]},
]
NARROW_HISTORY_GRIDS_1D = [
    {"kind": "geometric-bounds", "h": 1e-9, "bounds": [-0.5, 0.4], "n_side": 12},
    {"kind": "custom", "h": 0.1, "points": [[-0.5, -_C], -0.5, [-0.5, _C], -0.1, 0.0, 0.1, 0.3, [0.3, _C]]},
]
NARROW_GRIDS_ND = [
    {"kind": "fixed", "h": 1e-9, "n": 5},
    {"kind": "fixed", "h": 1e-8, "n": 3},
    {"kind": "geometric-bounds", "h": 1e-9, "bounds": [-0.5, 0.4], "n_side": 4},
    {"kind": "custom", "h": 0.1, "points": [[-0.5, -_C], -0.5, -0.1, 0.0, 0.1, 0.3, [0.3, _C]]},
    {"kind": "credit", "h": 0.1, "a_near": "h", "delta": 1e-6, "symmetric": False},
    {"kind": "credit", "h": 0.1, "a_near": "truncation", "delta": 1e-6, "symmetric": True},
]

# one state on a half axis: the uniform grid when the truncation bound is closer to the origin than h (the constructor then
# moves the bound out to h), the base-class constructor CTMCGrid(h, origin_coordinate, axes) with one state on one side
DEGENERATE_GRIDS_1D = [
    {"kind": "uniform", "h": 0.2, "p": 0.5},
    {"kind": "custom", "h": 0.1, "mult": [-1, 0, 1, 2, 4]},
    {"kind": "custom", "h": 0.1, "mult": [-6, -3, -1, 0, 1]},
]


def _make_grid(gspec, model, dimension=1):
    """A.make_grid, plus the kind "custom": the base-class constructor CTMCGrid(h, origin_coordinate, axes) - the one every
    other constructor ends in and compute_truncation_helper uses directly - with the states mult[i] * h on every axis"""
    from rpylib.grid import spatial as S

    if gspec["kind"] == "credit" and "a_near" in gspec:
        # credit grid whose threshold sits just inside the left truncation (a = l (1 - delta)) or just beyond -h
        # (a = -h (1 + delta)): the states a - eps, a + eps and their neighbour are closer than delta |a|
        h = gspec["h"]
        l, _r = S.compute_truncation(model=model, h=h)
        a = float(l * (1.0 - gspec["delta"])) if gspec["a_near"] == "truncation" else float(-h * (1.0 + gspec["delta"]))
        if not (l < a < -h):
            raise A.OutsideAlphabet(f"credit threshold {a} not strictly inside ({l}, {-h})")
        g = S.CTMCCredit(h=h, level_a=a if dimension == 1 else [a] * dimension, model=model, symmetric_grid=gspec.get("symmetric", True))
        for _ in range(gspec.get("refine", 0)):
            g.refine()
        return g
    if gspec["kind"] == "uniform" and "max_points" in gspec:
        # model-based uniform grid with a tiny step: built only where its bounds are within max_points steps of the origin
        l, r = S.compute_truncation(model=model, h=gspec["h"], truncation_probability=gspec["p"])
        if not (max(abs(l), abs(r)) <= gspec["max_points"] * gspec["h"]):
            raise A.OutsideAlphabet(f"uniform grid with h = {gspec['h']} would need more than {gspec['max_points']} states per half axis")
    if gspec["kind"] != "custom":
        return A.make_grid(gspec, model, dimension)
    h = gspec["h"]
    if "points" in gspec:  # the states themselves: [base, offset] pairs stand for base + offset (clusters far from 0)
        pts = [float(p[0]) + float(p[1]) if isinstance(p, (list, tuple)) else float(p) for p in gspec["points"]]
        axis = np.array(pts, dtype=float)
        g = S.CTMCGrid(h=h, origin_coordinate=pts.index(0.0), axes=[axis.copy() for _ in range(dimension)] if dimension > 1 else [axis])
        for _ in range(gspec.get("refine", 0)):
            g.refine()
        return g
    axis = np.array([float(m) * h for m in gspec["mult"]], dtype=float)
    g = S.CTMCGrid(h=h, origin_coordinate=gspec["mult"].index(0), axes=[axis] * dimension)
    for _ in range(gspec.get("refine", 0)):
        g.refine()
    return g


def _representative_models(models):
    """one model per family / activity class for the next_level histories of the quick tier"""
    want = [("hem", False, None), ("hem", True, None), ("merton", False, None), ("vg", False, None),
            ("cgmy", False, 0.5), ("cgmy", False, 1.2), ("cgmy", True, 1.5)]
    out = []
    for fam, exp, y in want:
        for m in models:
            if m["family"] == fam and bool(m.get("exp")) == exp and (y is None or m["params"].get("y") == y):
                out.append(m)
                break
    return out


def _axis_len_hint(g):
    """number of points per axis of the grid spec (known without the model for the two kinds used by `density`)"""
    if g["kind"] == "fixed":
        n = 2 * (g["n"] // 2) + 1
    elif g["kind"] == "credit":
        n = 9 if g.get("symmetric", True) else 7
    else:
        raise ValueError(g)
    for _ in range(g.get("refine", 0)):
        n = 2 * n - 1
    return n


# ----------------------------------------------------------------------------------------------------------------------
# helpers
# ----------------------------------------------------------------------------------------------------------------------

class _ZeroResult:
    def get(self, timeout=None):
        return 0.0


class _ZeroPool:
    def __init__(self, *a, **k):
        pass

    def __enter__(self):
        return self

    def __exit__(self, *a):
        return False

    def apply_async(self, func, args=(), kwds=None):
        return _ZeroResult()


class _ZeroMP:
    Pool = _ZeroPool


@contextlib.contextmanager
def _no_vol_adjustment_pool():
    import rpylib.process.markovchain.markovchainlevycopula as M

    old = getattr(M, "mp", None)
    M.mp = _ZeroMP
    try:
        yield
    finally:
        M.mp = old


class _Capture:
    """stands for a sampler class inside samplingfactory: records the probability vector, then builds the real sampler"""

    def __init__(self, real):
        self.real = real
        self.vec = None

    def __call__(self, probabilities, states, *a, **k):
        try:
            self.vec = np.array(probabilities, dtype=float).copy()
        except Exception:  # noqa
            self.vec = None
        return self.real(probabilities, states, *a, **k)


@contextlib.contextmanager
def _captured(name):
    """replace samplingfactory.<name> by a recorder (if the name exists); yields the recorder or None"""
    from rpylib.distribution import samplingfactory as SF

    real = getattr(SF, name, None) if name else None
    if real is None:
        yield None
        return
    cap = _Capture(real)
    setattr(SF, name, cap)
    try:
        yield cap
    finally:
        setattr(SF, name, real)


class _SpyMeasure:
    """duck-typed Levy measure that records the arguments of integrate()"""

    def __init__(self, nu):
        self._nu = nu
        self.calls = []

    def integrate(self, a, b):
        self.calls.append((float(a), float(b)))
        return self._nu.integrate(a, b)

    def __call__(self, x):
        return self._nu(x)

    def __getattr__(self, name):
        return getattr(self._nu, name)


@contextlib.contextmanager
def _spied_mass(model):
    """record the (a, b) arguments of model.mass (an instance attribute shadows the method; removed / restored after)"""
    real = model.mass
    calls = []
    had = "mass" in vars(model)

    def spy(a, b, *args, **kw):
        try:
            calls.append((tuple(float(x) for x in a), tuple(float(x) for x in b)))
        except TypeError:
            calls.append(((float(a),), (float(b),)))
        return real(a, b, *args, **kw)

    model.mass = spy
    try:
        yield calls
    finally:
        if had:
            model.mass = real
        else:
            try:
                del model.mass
            except AttributeError:
                pass


def _family_class(spec):
    """input class of a 1-d model spec in the violation keys; the construction route is part of it, so that a finding on the
    directly constructed models does not hide one on the re-initialised ones"""
    fam = spec["family"]
    if fam == "cgmy":
        fam = f"cgmy:y={spec['params']['y']}"
    return fam + (f":{spec['via']}" if spec.get("via") else "")


def _direct(spec):
    return {k: v for k, v in spec.items() if k != "via"}


# the parameter the library's default calibration moves (model/utils.py default_calibration), with two other admissible values
CYCLED = {"hem": ("sigma", [0.3, 0.01]), "merton": ("mu_j", [0.2, 0.05]), "cgmy": ("c", [3.0, 0.2]), "vg": ("sigma", [0.4, 0.05])}


def _make_model(spec):
    """A.make_model (routes: direct, "reinit"), plus the route "cycled": what calibrate_model_parameter + run_default_calibration
    do - ONE deep copy of the parameter object on which the calibrated attribute is set and initialisation() called several
    times, a model constructed on it (and used) after every cycle, the last cycle restoring the spec's own value; the model
    of the last cycle is returned (the earlier ones share its parameter object)."""
    if spec.get("via") != "cycled":
        return A.make_model(spec)
    import copy

    target = A.make_model(_direct(spec))
    holder = target.levy_model if spec.get("exp") else target
    params = copy.deepcopy(holder.parameters)
    name, values = CYCLED[spec["family"]]
    model = None
    for v in values + [getattr(holder.parameters, name)]:
        setattr(params, name, v)
        params.initialisation()
        if spec.get("exp"):
            model = type(target)(spot=spec.get("spot", 100.0), r=spec["r"], d=spec["d"], parameters=params)
        else:
            model = type(target)(parameters=params)
        model.mass(-1.0, -0.05), model.mass(0.05, 1.0)
    return model


def _reference_model_1d(spec, model):
    """the model whose density defines the measure of the oracle: the model itself when it was constructed directly from
    its parameter values, a directly constructed model with the same values when it was reached another way"""
    return model if spec.get("via") is None else A.make_model(_direct(spec))


def _copula_class(spec):
    return spec["copula"]["kind"] + (":reinit" if spec.get("via") == "reinit" else "")


def _make_copula_model(spec, exp=False):
    """A.make_copula_model, plus the route "reinit": every margin reached through mutate + initialisation()"""
    if spec.get("via") != "reinit":
        return A.make_copula_model(spec, exp=exp)
    from rpylib.model.utils import create_levy_copula_model

    models = []
    for name in spec["margins"]:
        ms = dict(A.MARGINS[name], via="reinit")
        if exp or spec.get("exp"):
            ms = dict(ms, exp=True, r=0.02, d=0.0, spot=100.0)
        models.append(A.make_model(ms))
    return create_levy_copula_model(models=models, copula=A.make_copula(spec["copula"]))


def _activity_class(nu):
    try:
        if nu.jump_of_finite_activity():
            return "finite-activity"
        if nu.jump_of_finite_variation():
            return "infinite-activity-finite-variation"
        return "infinite-variation"
    except Exception:  # noqa
        return "activity-unknown"


def _axis_ok(axis, o):
    return (0 < o < len(axis) - 1 and axis[o] == 0.0 and all(x < y for x, y in zip(axis, axis[1:]))
            and all(math.isfinite(x) for x in axis))


def _quad_cell(nu0, lo, hi):
    v, e = O.integrate_density(nu0, lo, hi)
    return float(v), float(e)


def _equal_mass_point(nu0, x, y):
    """point m of (x, y) with nu((x, m)) = nu((m, y)), by bisection on the quadrature of the density.
    Returns (m, ok): ok False when the density quadrature cannot resolve the half mass."""
    total, e = _quad_cell(nu0, x, y)
    if not (math.isfinite(total) and total > 0.0) or e > 1e-10 * total:
        return 0.5 * (x + y), False
    half = 0.5 * total
    lo, hi = x, y
    for _ in range(200):
        mid = 0.5 * (lo + hi)
        if mid <= lo or mid >= hi:
            break
        v, _e = _quad_cell(nu0, x, mid)
        if v < half:
            lo = mid
        else:
            hi = mid
        if hi - lo <= 1e-14 * max(1.0, abs(x), abs(y)):
            break
    return 0.5 * (lo + hi), True


def _ref_bounds(axis, o, nu0=None, equal_mass=False):
    """n+1 boundaries of the n cells of an axis, from the axis alone (and the density for the probability-step grid).
    Returns (bounds, resolved) with resolved[j] False where the equal-mass point could not be resolved."""
    n = len(axis)
    b = [axis[0]]
    ok = [True]
    for k in range(n - 1):
        x, y = axis[k], axis[k + 1]
        if equal_mass and k != o - 1 and k != o:
            m, good = _equal_mass_point(nu0, x, y)
            b.append(m)
            ok.append(good)
        else:
            b.append(0.5 * (x + y))
            ok.append(True)
    b.append(axis[-1])
    ok.append(True)
    return b, ok


def _close_same(x, y, lam):
    """two evaluations of the same closed-form expression"""
    return core.close(x, y, rtol=1e-12, atol=1e-15 * lam)


# ----------------------------------------------------------------------------------------------------------------------
# the caller's arguments: observable state of a grid / a model object, compared bit for bit before and after a callee ran
# ----------------------------------------------------------------------------------------------------------------------

def _canon(v):
    if isinstance(v, (tuple, list)):
        return [_canon(x) for x in v]
    try:
        return float(v).hex()
    except Exception:  # noqa
        return str(v)


def _safe(f):
    try:
        return _canon(f())
    except Exception as e:  # noqa
        return "raises-" + type(e).__name__


def _grid_snapshot(grid):
    return {"axes": [[float(x).hex() for x in ax] for ax in grid.axes], "h": float(grid.h).hex(),
            "origin": [int(c) for c in grid.origin_coordinate],
            "truncations": _safe(lambda: [tuple(t) for t in grid.truncations])}


_PROBE_X = (-100.0, -30.0, -3.0, -1.0, -0.3, -0.05, 0.05, 0.3, 1.0, 3.0, 30.0, 100.0)
_PROBE_I = ((-INF, -20.0), (-20.0, -2.0), (-2.0, -0.5), (-0.5, -0.02), (0.02, 0.5), (0.5, 2.0), (2.0, 20.0), (20.0, INF))


def _fingerprint_1d(model):
    """what a caller can observe of a 1-d model object: support, density and masses of its measure near and far from the
    origin (any truncation or re-parametrisation moves some of them), drift, diffusion coefficient and representation of
    its triplet, the public numbers of its parameter object"""
    trip = model.levy_triplet
    out = {"support": _safe(lambda: trip.nu.support()), "a": _safe(lambda: trip.a), "sigma": _safe(lambda: trip.sigma),
           "representation": _safe(lambda: trip.representation),
           "density": [_safe(lambda x=x: trip.nu(x)) for x in _PROBE_X],
           "mass": [_safe(lambda a=a, b=b: model.mass(a, b)) for a, b in _PROBE_I]}
    params = getattr(getattr(model, "levy_model", model), "parameters", None)
    if params is not None:
        try:
            out["parameters"] = sorted((k, _canon(v)) for k, v in vars(params).items()
                                       if not k.startswith("_") and isinstance(v, (int, float, np.floating, np.integer)))
        except TypeError:
            pass
    return out


def _fingerprint_nd(model):
    d = len(model.models)
    return {"margins": [_fingerprint_1d(m) for m in model.models],
            "mass": [_safe(lambda a=a, b=b: model.mass((a,) * d, (b,) * d)) for a, b in ((0.02, 0.5), (-0.5, -0.02))]}


def _differing_fields(a, b):
    return sorted(k for k in set(a) | set(b) if a.get(k) != b.get(k))


def _arguments_untouched(sh, who, tag, grid, grid_before, model_now, model_before):
    """the callee `who` must leave the caller's grid and model as they were"""
    sh.count("evaluations", 2)
    diff = _differing_fields(grid_before, _grid_snapshot(grid))
    if diff:
        sh.violation(f"C01:arguments:grid:modified-by-{who}:{tag}",
                     f"the caller's grid differs after the call in {diff}", {"fields": diff})
    diff = _differing_fields(model_before, model_now)
    if diff:
        sh.violation(f"C01:arguments:model:modified-by-{who}:{tag}",
                     f"the caller's model differs after the call in {diff} (support / density / masses of its measure, triplet, parameters)",
                     {"fields": diff, "before": {k: model_before.get(k) for k in diff}, "after": {k: model_now.get(k) for k in diff}})


def _reparametrise_callers_model(model, family):
    """public operations a caller may apply to ITS model object after a chain was built from it: truncate the measure to a
    tiny interval, move every parameter to the donor values and call initialisation()"""
    model.truncate_levy_measure(truncations=(-1e-3, 1e-3))
    params = getattr(model, "levy_model", model).parameters
    for name, v in A.DONOR_PARAMS[family].items():
        setattr(params, name, v)
    params.initialisation()


# ----------------------------------------------------------------------------------------------------------------------
# one-dimensional chains
# ----------------------------------------------------------------------------------------------------------------------

def _tiling_1d(sh, route, tag, cells, axis, o, bounds, bounds_ok, btol):
    """cells: list over non-origin states in increasing order of (lo, hi) as used by the library through `route`."""
    n = len(axis)
    idx = [k for k in range(n) if k != o]
    if len(cells) != len(idx):
        sh.violation(f"C01:tiling:{route}:number-of-cells-differs-from-number-of-states:{tag}",
                     f"{len(cells)} cells observed for {len(idx)} non-origin states", {"cells": cells[:6]})
        return None
    for j, k in enumerate(idx):
        lo, hi = cells[j]
        x = axis[k]
        sh.count("evaluations")
        if not (lo < x < hi):
            edge = "first" if k == 0 else ("last" if k == n - 1 else "interior")
            # an end state sits on the outer edge of its cell (the cell is [x, mid] or [mid, x]): the statement's
            # "inside" is read as closed at the truncation bound, open elsewhere
            if not ((k == 0 and lo == x < hi) or (k == n - 1 and lo < x == hi)):
                sh.violation(f"C01:tiling:{route}:state-not-inside-its-cell:{edge}-state:{tag}",
                             f"state {k} x={x!r} cell=({lo!r}, {hi!r})", {"k": k, "x": x, "cell": [lo, hi]})
        if j + 1 < len(idx) and idx[j + 1] == k + 1:
            nlo = cells[j + 1][0]
            if abs(hi - nlo) > 4 * EPS * max(abs(hi), abs(nlo)):
                kind = "gap" if hi < nlo else "overlap"
                sh.violation(f"C01:tiling:{route}:{kind}-between-neighbouring-cells:{tag}",
                             f"cell {k} ends at {hi!r}, cell {k + 1} starts at {nlo!r}", {"k": k, "hi": hi, "next_lo": nlo})
        for side, val, ref, good in ((0, lo, bounds[k], bounds_ok[k]), (1, hi, bounds[k + 1], bounds_ok[k + 1])):
            if not good:
                sh.count("oracle_inconclusive")
                continue
            if abs(val - ref) > btol[k + side]:
                where = ("outer-edge" if (k + side) in (0, n) else
                         ("central-cell-edge" if (k + side) in (o, o + 1) else "interior-boundary"))
                sh.violation(f"C01:tiling:{route}:cell-differs-from-reference-cell:{where}:{tag}",
                             f"state {k} x={x!r}: library cell ({lo!r}, {hi!r}), reference ({bounds[k]!r}, {bounds[k + 1]!r})",
                             {"k": k, "x": x, "cell": [lo, hi], "reference": [bounds[k], bounds[k + 1]]})
    return idx


def _central_cell_is_h(sh, tag, grid, centrals):
    """the excluded central cell is the cube of side grid.h centred at the origin (CTMCGrid: "the hyper-cube of size h
    centered in the origin of the grid is taken off"; the small-jump variance of the chain is computed on (-h/2, h/2))"""
    h = float(getattr(grid, "h", math.nan))
    if not math.isfinite(h):
        sh.count("grid-h-not-observable")
        return
    for i, (lo, hi) in enumerate(centrals):
        sh.count("evaluations")
        if abs(lo + 0.5 * h) > 4 * EPS * h or abs(hi - 0.5 * h) > 4 * EPS * h:
            sh.violation(f"C01:tiling:grid:central-cell-is-not-the-cube-of-side-h:{tag}",
                         f"axis {i}: central cell of the reference cell model ({lo!r}, {hi!r}), grid.h = {h!r}", {"axis": i, "central": [lo, hi], "h": h})


def _chain1d(sh, case):
    gk = case["grid"]["kind"]
    fam = _family_class(case["model"])
    tag = f"{gk}:{fam}" + (":narrow-cells" if case["grid"].get("narrow") else "")
    model = _make_model(case["model"])
    try:
        grid = _make_grid(case["grid"], model, 1)
    except A.OutsideAlphabet:
        sh.count("outside-alphabet-grid")
        return
    keep = {}
    _oracle_1d(sh, case, model, grid, tag, ref_model=_reference_model_1d(case["model"], model), keep=keep)
    if keep:
        _chains_do_not_follow_the_callers_model_1d(sh, case, tag, model, grid, keep)


def _chains_do_not_follow_the_callers_model_1d(sh, case, tag, model, grid, keep):
    """the processes hold their own copy of the model: after the caller truncated and re-parametrised ITS model object (last
    use of it in this case), the rates of every process built before are what they were"""
    from rpylib.distribution import samplingfactory as SF

    procs, routes, bounds, idx, o, lam = (keep[k] for k in ("procs", "routes", "bounds", "idx", "origin", "lam"))
    if "model.mass" not in routes:
        return
    try:
        _reparametrise_callers_model(model, case["model"]["family"])
    except Exception:  # noqa
        sh.count("callers-model-not-re-parametrisable")
        return
    again = {}
    try:
        for meth, p in procs.items():
            again[f"model.mass:{meth}"] = ({k: float(p.model.mass(bounds[k], bounds[k + 1])) for k in idx}, routes["model.mass"])
        p0 = next(iter(procs.values()))
        # the probability-step grid was built FROM the caller's model and keeps its measure (middle() reads it): the routes
        # that ask the grid for the cells move with the caller's model by construction - only the processes' models are judged
        lazy_cells = case["grid"]["kind"] != "probability"
        if "q-vector" in routes and lazy_cells:
            q = np.asarray(SF.create_q_vector(p0.model.levy_triplet.nu, grid), dtype=float)
            again["q-vector"] = ({k: float(q[k]) for k in idx}, routes["q-vector"])
        f = getattr(procs["INVERSION"].sampling, "probability_to_jump_to_state", None) if "INVERSION" in procs else None
        if f is not None and "inversion" in routes and lazy_cells:
            lam_i = float(procs["INVERSION"].intensity_of_jumps)
            again["inversion"] = ({k: float(f(k - o)) * lam_i for k in idx}, routes["inversion"])
    except Exception as e:  # noqa
        sh.violation(f"C01:arguments:model:chain-raises-{type(e).__name__}-after-the-callers-model-was-changed:{tag}", f"{e!r}"[:300], None)
        return
    for name, (now, before) in again.items():
        sh.count("evaluations")
        bad = [k for k in idx if not _close_same(now[k], before[k], lam)]
        if bad:
            k = bad[0]
            sh.violation(f"C01:arguments:model:chain-follows-the-callers-model-changed-afterwards:{name.split(':')[0]}:{tag}",
                         f"{name}: after the caller truncated and re-parametrised its own model object, {len(bad)} rates of the chain built "
                         f"before changed (state {k}: {before[k]!r} -> {now[k]!r})", {"route": name, "k": k, "before": before[k], "after": now[k]})


def _oracle_1d(sh, case, model, grid, tag, given=None, given_vectors=None, refine=None, ref_model=None, keep=None):
    """the complete per-configuration oracle on `grid` as it is now. given=None: a chain is built on the grid through every
    method of METHODS_1D; given={method: process}: processes the library built itself on that grid object (the
    fine_process of a coupling after next_level) are observed instead, given_vectors the probability vectors recorded
    while they were built. ref_model: the model whose density is the measure of the oracle (default: `model` itself).
    Returns a summary (axis, h, origin index, intensity, q-vector) or None."""
    from rpylib.distribution import samplingfactory as SF
    from rpylib.distribution.sampling import SamplingMethod
    from rpylib.process.markovchain.markovchain import MarkovChainProcess

    gk = case["grid"]["kind"]
    fam = _family_class(case["model"])
    history = given is not None or refine is not None
    refine = case["grid"].get("refine", 0) if refine is None else refine
    nu0 = (model if ref_model is None else ref_model).levy_triplet.nu
    axis = [float(x) for x in grid.axes[0]]
    o = int(grid.origin_coordinate.value)
    n = len(axis)
    if not _axis_ok(axis, o):
        sh.count("malformed-grid-skipped")
        sh.note(f"grid not strictly increasing with 0 at the origin index (C13's business): {tag}")
        return
    equal_mass = gk == "probability"
    bounds, bounds_ok = _ref_bounds(axis, o, nu0, equal_mass)
    idx = [k for k in range(n) if k != o]
    _central_cell_is_h(sh, tag, grid, [(bounds[o], bounds[o + 1])])
    sh.cls(f"grid:{gk}")
    sh.cls(f"model:{fam}{':exp' if case['model'].get('exp') else ''}")
    sh.cls(f"refine:{refine}")
    if case["model"].get("via"):
        sh.cls(f"route:{case['model']['via']}:{case['model']['family']}")
    sh.cls(f"measure:{_activity_class(nu0)}")
    sh.cls("axis:symmetric" if all(abs(axis[i] + axis[n - 1 - i]) < 1e-15 for i in range(n)) else "axis:asymmetric")
    if min(o, n - 1 - o) == 1 and max(o, n - 1 - o) > 1:
        sh.cls("size:one-state-on-one-half-axis")
    if n > 256:
        sh.cls("size:more-than-256-states" if n <= 32768 else "size:more-than-32768-states")

    # ---- oracle: density quadrature on the reference cells
    quad = {}
    qerr = {}
    for k in idx:
        quad[k], qerr[k] = _quad_cell(nu0, bounds[k], bounds[k + 1])
    lam_ref = sum(quad.values())
    if not (math.isfinite(lam_ref) and lam_ref > 0):
        sh.count("oracle_inconclusive")
        sh.note(f"density quadrature total not positive/finite for {tag}")
        return
    dens_at_bound = [float(nu0(b)) if b != 0.0 else 0.0 for b in bounds]
    # tolerance on the position of a boundary (0 where it is an arithmetic mean): the grid's root finder stops at
    # xtol = 1e-10, and it solves mass(x_i, m) = half on closed forms that carry an absolute error of a few ulp of the
    # total mass, which moves the root by that error divided by the density (far tails: density ~ 1e-8, shift ~ 1e-9);
    # mshift[j] is the mass that such a shift of boundary j carries
    # (an arithmetic mean may legitimately be computed as x + (y-x)/2: 4 ulp of the larger neighbour; outer edges exact)
    btol = [0.0] + [4 * EPS * max(abs(axis[j - 1]), abs(axis[j])) for j in range(1, n)] + [0.0]
    if equal_mass:
        for j in range(1, n):
            if j in (o, o + 1):
                continue
            if dens_at_bound[j] > 0.0:
                btol[j] = 1e-9 + 16 * EPS * lam_ref / dens_at_bound[j]
            else:
                bounds_ok[j] = False
    mshift = [1.5 * btol[j] * dens_at_bound[j] for j in range(n + 1)]
    # narrow-cell regime (cells narrower than 1e-8 or than 1e-5 |x|: tiny h, clusters far from the origin): the closed
    # forms are differences of TAIL integrals of the un-truncated measure, whose magnitude T (mass beyond the central cell
    # on that side, up to the model's whole intensity) can exceed the chain's intensity by many orders when the support is
    # a few h wide; such a difference legitimately carries a few ulp of T. Everything else stays RELATIVE to the rate.
    narrow = bool(case["grid"].get("narrow"))
    tail_slack = 0.0
    if narrow:
        tails = [_quad_cell(nu0, -INF, bounds[o])[0], _quad_cell(nu0, bounds[o + 1], INF)[0]]
        tails = [t for t in tails if math.isfinite(t) and t > 0.0]
        tail_slack = 64 * EPS * max(tails + [lam_ref])
        sh.cls("regime:narrow-cells")
        widths = [bounds[k + 1] - bounds[k] for k in idx]
        if any(w <= 1e-8 for w in widths):
            sh.cls("narrow:cell-narrower-than-1e-8")
        if any(w <= 1e-5 * min(abs(bounds[k]), abs(bounds[k + 1])) and w > 1e-8 for k, w in zip(idx, widths)):
            sh.cls("narrow:cell-narrower-than-1e-5-of-its-abscissa")
    sum_slack = tail_slack * n / 4

    # ---- build a process per method
    procs = dict(given or {})
    captured = dict(given_vectors or {})
    grid_before = _grid_snapshot(grid)
    model_before = _fingerprint_1d(model)
    for j, meth in enumerate(METHODS_1D if given is None else []):
        with _captured(QVEC_METHODS.get(meth)) as cap:
            try:
                # argument form: keywords and positions (model, method, grid) in turn
                if j % 2:
                    procs[meth] = MarkovChainProcess(model, SamplingMethod[meth], grid)
                else:
                    procs[meth] = MarkovChainProcess(model=model, method=SamplingMethod[meth], grid=grid)
            except Exception as e:  # noqa
                sh.violation(f"C01:chain1d:{meth}:constructor-raises-{type(e).__name__}:{tag}", f"{e!r}"[:300], None)
                continue
        sh.cls(f"method:1d:{meth}")
        if cap is not None and cap.vec is not None:
            captured[meth] = cap.vec
        elif meth in QVEC_METHODS:
            sh.count("probability-vector-not-observable")
    if not procs:
        return None
    if given is None:
        # the constructors deep copy the model and only read the grid: the caller's objects are as they were
        model_now = _fingerprint_1d(model)
        _arguments_untouched(sh, "a-chain-constructor", tag, grid, grid_before, model_now, model_before)
        grid_before, model_before = _grid_snapshot(grid), model_now
    p0 = next(iter(procs.values()))
    lam = float(p0.intensity_of_jumps)
    if not (math.isfinite(lam) and lam > 0):
        sh.violation(f"C01:intensity:process:not-positive-finite:{tag}", f"intensity_of_jumps = {lam!r}", None)
        return None
    sh.outcome((float(lam).hex(), n))

    # ---- routes: per-state rate as the library sees it, and the cell it integrates over
    routes = {}   # name -> {k: rate}
    nu_t = p0.model.levy_triplet.nu

    # (a) q-vector
    try:
        spy = _SpyMeasure(nu_t)
        q = np.asarray(SF.create_q_vector(spy, grid), dtype=float)
        if q.shape != (n,):
            sh.violation(f"C01:rates:create_q_vector:wrong-shape:{tag}", f"shape {q.shape} for {n} states", None)
        else:
            routes["q-vector"] = {k: float(q[k]) for k in idx}
            if q[o] != 0.0:
                sh.violation(f"C01:rates:create_q_vector:origin-has-a-rate:{tag}", f"q[origin] = {q[o]!r}", None)
            _tiling_1d(sh, "create_q_vector", tag, sorted(spy.calls), axis, o, bounds, bounds_ok, btol)
    except Exception as e:  # noqa
        sh.violation(f"C01:rates:create_q_vector:raises-{type(e).__name__}:{tag}", f"{e!r}"[:300], None)

    # (b) the vector handed to the q-vector samplers
    for meth, vec in captured.items():
        if vec.shape != (n,):
            sh.violation(f"C01:rates:{meth}:probability-vector-wrong-shape:{tag}", f"shape {vec.shape} for {n} states", None)
            continue
        lam_m = float(procs[meth].intensity_of_jumps)
        routes[f"vector:{meth}"] = {k: float(vec[k]) * lam_m for k in idx}
        if vec[o] != 0.0:
            sh.violation(f"C01:rates:{meth}:origin-has-a-probability:{tag}", f"p[origin] = {vec[o]!r}", None)

    # (c) inversion
    if "INVERSION" in procs:
        pinv = procs["INVERSION"]
        f = getattr(pinv.sampling, "probability_to_jump_to_state", None)
        if f is None:
            sh.count("inversion-probability-not-observable")
        else:
            lam_i = float(pinv.intensity_of_jumps)
            r = {}
            cells = []
            try:
                with _spied_mass(pinv.model) as calls:
                    for k in idx:
                        c0 = len(calls)
                        r[k] = float(f(k - o)) * lam_i
                        cells.append(tuple(x[0] for x in calls[c0]) if len(calls) == c0 + 1 else None)
                routes["inversion"] = r
                if all(c is not None for c in cells):
                    _tiling_1d(sh, "inversion", tag, cells, axis, o, bounds, bounds_ok, btol)
                else:
                    sh.count("inversion-cells-not-observable")
            except Exception as e:  # noqa
                sh.violation(f"C01:rates:inversion:probability_to_jump_to_state-raises-{type(e).__name__}:{tag}", f"{e!r}"[:300], None)

    # (d) adapted 1-d tree
    if "BINARYSEARCHTREEADAPTED1D" in procs:
        pt = procs["BINARYSEARCHTREEADAPTED1D"]
        s = pt.sampling
        cb = getattr(s, "_cell_bounds", None)
        lam_t = float(getattr(s, "intensity_of_jumps", pt.intensity_of_jumps))
        if not _close_same(lam_t, lam, lam):
            sh.violation(f"C01:intensity:adapted-tree-1d:differs-from-process:{tag}", f"{lam_t!r} vs {lam!r}", None)
        if cb is None or len(cb) != n + 1:
            sh.count("adapted-1d-cells-not-observable")
        else:
            cb = [float(x) for x in cb]
            cells = [(cb[k], cb[k + 1]) for k in idx]
            _tiling_1d(sh, "adapted-tree-1d", tag, cells, axis, o, bounds, bounds_ok, btol)
            cp = getattr(s, "_compute_probability", None)
            if cp is not None:
                try:
                    routes["adapted-tree-1d"] = {k: float(cp(cb[k], cb[k + 1])) * lam_t for k in idx}
                except Exception as e:  # noqa
                    sh.violation(f"C01:rates:adapted-tree-1d:_compute_probability-raises-{type(e).__name__}:{tag}", f"{e!r}"[:300], None)
        pl = getattr(s, "_proba_left_axis", None)
        if pl is not None:
            want = sum(quad[k] for k in idx if k < o)
            sh.count("evaluations")
            tol_extra = sum(qerr[k] for k in idx if k < o)
            if not core.close(float(pl) * lam_t, want, rtol=1e-9, atol=1e-13 * lam + tol_extra + sum_slack):
                sh.violation(f"C01:rates:adapted-tree-1d:left-axis-probability-differs-from-density-integral:{tag}",
                             f"_proba_left_axis*lambda = {float(pl) * lam_t!r}, integral of the density over the left cells = {want!r}",
                             {"observed": float(pl) * lam_t, "expected": want})

    # (e) mass of the reference cell through the process's own truncated model
    try:
        routes["model.mass"] = {k: float(p0.model.mass(bounds[k], bounds[k + 1])) for k in idx}
    except Exception as e:  # noqa
        sh.violation(f"C01:rates:model.mass:raises-{type(e).__name__}:{tag}", f"{e!r}"[:300], None)

    # (e') the truncated copy held by every other process (built later from the same model object) gives the same masses
    if "model.mass" in routes:
        for meth, p in procs.items():
            if p is p0:
                continue
            try:
                for k in idx:
                    sh.count("evaluations")
                    v = float(p.model.mass(bounds[k], bounds[k + 1]))
                    if not _close_same(v, routes["model.mass"][k], lam):
                        sh.violation(f"C01:agreement:model.mass:differs-between-processes-built-from-the-same-model:{tag}",
                                     f"state {k} x={axis[k]!r}: mass of the cell through the model of the {meth} process {v!r}, through the first process built {routes['model.mass'][k]!r}",
                                     {"k": k, "method": meth, "observed": v, "first": routes["model.mass"][k]})
                        break
            except Exception as e:  # noqa
                sh.violation(f"C01:rates:model.mass:raises-{type(e).__name__}:{tag}", f"{meth}: {e!r}"[:300], None)

    if keep is not None:
        keep.update(procs=procs, routes=routes, bounds=bounds, idx=idx, origin=o, lam=lam)
    if given is None:
        # the observations above only read the grid and the processes' own models
        _arguments_untouched(sh, "an-observation-of-the-rates", tag, grid, grid_before, _fingerprint_1d(model), model_before)

    # ---- (ii) (iii) per state, per route
    compared = 0
    for name, r in routes.items():
        clipped = name == "inversion"
        for k in idx:
            v = r[k]
            edge = "end-state" if k in (0, n - 1) else ("next-to-origin" if k in (o - 1, o + 1) else "interior")
            sh.count("evaluations")
            if not math.isfinite(v):
                sh.violation(f"C01:rates:{name}:not-finite:{tag}", f"state {k} x={axis[k]!r}: {v!r}", None)
                continue
            if v < -64 * EPS * lam:
                sh.violation(f"C01:rates:{name}:negative-rate:{edge}:{tag}", f"state {k} x={axis[k]!r}: rate {v!r}", {"k": k, "rate": v})
            if qerr[k] > 1e-10 * max(quad[k], 1e-300) + 1e-300 and qerr[k] > 1e-14 * lam:
                sh.count("oracle_inconclusive")
                continue
            if not (bounds_ok[k] and bounds_ok[k + 1]):
                sh.count("oracle_inconclusive")
                continue
            shift = mshift[k] + mshift[k + 1]
            want = quad[k]
            compared += 1
            if not core.close(v, want, rtol=1e-9, atol=(0.0 if narrow else 1e-13 * lam) + tail_slack + qerr[k] + shift):
                sh.violation(f"C01:rates:{name}:differs-from-density-integral-over-the-cell:{edge}:{tag}",
                             f"state {k} x={axis[k]!r} cell ({bounds[k]!r}, {bounds[k + 1]!r}): rate {v!r}, quadrature of the density {want!r} (+- {qerr[k]:.1e})",
                             {"k": k, "x": axis[k], "cell": [bounds[k], bounds[k + 1]], "rate": v, "quadrature": want, "clipped_at_zero": clipped})
    # ---- (iv) agreement between routes
    names = list(routes)
    if names:
        base = routes[names[0]]
        for name in names[1:]:
            r = routes[name]
            for k in idx:
                sh.count("evaluations")
                x, y = base[k], r[k]
                if name == "inversion" or names[0] == "inversion":
                    x, y = max(x, 0.0), max(y, 0.0)
                tol_shift = 0.0
                if name == "model.mass" or names[0] == "model.mass":
                    tol_shift = mshift[k] + mshift[k + 1]
                if not core.close(x, y, rtol=1e-12, atol=1e-15 * lam + tol_shift):
                    sh.violation(f"C01:agreement:{names[0]}-vs-{name}:rate-of-a-state-differs:{tag}",
                                 f"state {k} x={axis[k]!r}: {names[0]} {base[k]!r}, {name} {r[k]!r}", {"k": k, names[0]: base[k], name: r[k]})
    # ---- (iv) sums and intensities
    for meth, p in procs.items():
        sh.count("evaluations")
        lm = float(p.intensity_of_jumps)
        if not _close_same(lm, lam, lam):
            sh.violation(f"C01:intensity:process:depends-on-the-sampling-method:{tag}", f"{meth}: {lm!r}, {next(iter(procs))}: {lam!r}", None)
    try:
        with _spied_mass(p0.model) as calls:
            lam2 = float(SF.compute_intensity_of_jumps(model=p0.model, grid=grid))
        sh.count("evaluations")
        if not _close_same(lam2, lam, lam):
            sh.violation(f"C01:intensity:compute_intensity_of_jumps:differs-from-process:{tag}", f"{lam2!r} vs {lam!r}", None)
        want_blocks = sorted([((bounds[0],), (bounds[o],)), ((bounds[o + 1],), (bounds[n],))])
        if sorted(calls) != want_blocks:
            sh.violation(f"C01:tiling:compute_intensity_of_jumps:blocks-are-not-the-two-sides-of-the-central-cell:{tag}",
                         f"mass called on {sorted(calls)!r}, expected {want_blocks!r}", {"observed": sorted(calls), "expected": want_blocks})
    except Exception as e:  # noqa
        sh.violation(f"C01:intensity:compute_intensity_of_jumps:raises-{type(e).__name__}:{tag}", f"{e!r}"[:300], None)
    for name, r in routes.items():
        sh.count("evaluations")
        tot = sum(max(v, 0.0) for v in r.values()) if name == "inversion" else sum(r.values())
        if not core.close(tot, lam, rtol=1e-9, atol=sum_slack):
            sh.violation(f"C01:sum:{name}:sum-of-rates-differs-from-intensity:{tag}", f"sum of rates {tot!r}, intensity_of_jumps {lam!r}",
                         {"sum": tot, "intensity": lam})
    sh.count("evaluations")
    tot_err = sum(qerr.values())
    if tot_err <= 1e-10 * lam_ref:
        if not core.close(lam, lam_ref, rtol=1e-9, atol=tot_err + sum_slack):
            sh.violation(f"C01:intensity:process:differs-from-density-integral-outside-the-central-cell:{tag}",
                         f"intensity_of_jumps {lam!r}, quadrature of the density over [{bounds[0]!r},{bounds[o]!r}] and [{bounds[o + 1]!r},{bounds[n]!r}] = {lam_ref!r}",
                         {"intensity": lam, "quadrature": lam_ref})
    else:
        sh.count("oracle_inconclusive")

    # ---- (v) the measure held by the process is the restriction to the grid bounds
    L, R = axis[0], axis[-1]
    left_ref = sum(quad[k] for k in idx if k < o)
    right_ref = sum(quad[k] for k in idx if k > o)
    e_left = sum(qerr[k] for k in idx if k < o)
    e_right = sum(qerr[k] for k in idx if k > o)
    span = max(R - L, 1.0)
    probes = [
        ("left-half-line", (-INF, bounds[o]), left_ref, e_left),
        ("right-half-line", (bounds[o + 1], INF), right_ref, e_right),
        ("beyond-left-bound", (L - span, bounds[o]), left_ref, e_left),
        ("beyond-right-bound", (bounds[o + 1], R + span), right_ref, e_right),
        ("wholly-left-of-the-grid", (L - 2 * span, L - span), 0.0, 0.0),
        ("wholly-right-of-the-grid", (R + span, R + 2 * span), 0.0, 0.0),
        ("wholly-left-half-line", (-INF, L - span), 0.0, 0.0),
        ("wholly-right-half-line", (R + span, INF), 0.0, 0.0),
    ]
    for label, (a, b), want, err in probes:
        sh.count("evaluations")
        try:
            got = float(p0.model.mass(float(a), float(b)))
        except Exception as e:  # noqa
            sh.violation(f"C01:truncation:model.mass:raises-{type(e).__name__}:{label}:{tag}", f"mass({a!r}, {b!r}): {e!r}"[:300], None)
            continue
        if not core.close(got, want, rtol=1e-9, atol=1e-13 * lam + err + sum_slack):
            sh.violation(f"C01:truncation:model.mass:not-the-mass-of-the-measure-restricted-to-the-grid-bounds:{label}:{tag}",
                         f"mass({a!r}, {b!r}) of the process's model = {got!r}; density restricted to [{L!r}, {R!r}] integrates to {want!r}",
                         {"a": a, "b": b, "observed": got, "expected": want, "bounds": [L, R]})
    for label, x, want in [("left", L - 0.25 * span, 0.0), ("right", R + 0.25 * span, 0.0)] + [("inside", axis[k], float(nu0(axis[k]))) for k in idx]:
        sh.count("evaluations")
        try:
            got = float(nu_t(x))
        except Exception as e:  # noqa
            sh.violation(f"C01:truncation:density:raises-{type(e).__name__}:{label}:{tag}", f"nu({x!r}): {e!r}"[:300], None)
            break
        if got != want and not core.close(got, want, rtol=1e-14):
            sh.violation(f"C01:truncation:density:not-the-restriction-of-the-model-density:{label}:{tag}",
                         f"process density at {x!r} = {got!r}, expected {want!r} (bounds [{L!r}, {R!r}])", None)
            break
    if compared:
        sh.nontriv()
    sh.count("states", len(idx))
    sh.count("configurations")
    # determinism self-check on 1 case in 8: everything rebuilt from the case dict, observations compared bit for bit
    summary = {"axis": [x.hex() for x in axis], "h": float(grid.h).hex(), "origin": o, "intensity": lam,
               "q": [routes["q-vector"][k] for k in idx] if "q-vector" in routes else None}
    if history:
        return summary
    if int(core.digest(case), 16) % 8 == 0 and "q-vector" in routes:
        model2 = _make_model(case["model"])
        grid2 = _make_grid(case["grid"], model2, 1)
        meth2 = next(iter(procs))
        p2 = MarkovChainProcess(model=model2, method=SamplingMethod[meth2], grid=grid2)
        q2 = np.asarray(SF.create_q_vector(p2.model.levy_triplet.nu, grid2), dtype=float)
        same = (float(p2.intensity_of_jumps).hex() == lam.hex() and [float(x).hex() for x in grid2.axes[0]] == [x.hex() for x in axis]
                and [float(q2[k]).hex() for k in idx] == [routes["q-vector"][k].hex() for k in idx])
        sh.count("determinism-reruns")
        if not same:
            sh.violation("NONDETERMINISM", f"rebuilding {tag} from its case dict gave a different axis / intensity / q-vector", None)
    if case["grid"].get("refine", 0) == 0 and n <= 7:
        sh.sample({"case": case, "axis": axis, "reference_bounds": bounds, "intensity": lam,
                   "rates": {str(k): routes.get("q-vector", {}).get(k) for k in idx}, "quadrature": {str(k): quad[k] for k in idx}})
    return summary


# ----------------------------------------------------------------------------------------------------------------------
# copula chains
# ----------------------------------------------------------------------------------------------------------------------

class _CopulaCtx:
    def __init__(self, sh, case, model=None, grid=None, ref_model=None):
        """ref_model: the copula model whose margins' densities and copula function define the measure of the oracle;
        default: the model itself when its margins were constructed directly, a directly constructed twin otherwise"""
        self.case = case
        spec = case["model"]
        self.d = len(spec["margins"])
        self.model = model if model is not None else _make_copula_model(spec, exp=case.get("exp", False))
        self.grid = grid if grid is not None else _make_grid(case["grid"], self.model, self.d)
        if ref_model is None:
            ref_model = self.model if spec.get("via") is None else A.make_copula_model(_direct(spec), exp=case.get("exp", False))
        self.ref_model = ref_model
        self.nus = [m.levy_triplet.nu for m in ref_model.models]
        self.copula = ref_model.copula
        self.axes = [[float(x) for x in ax] for ax in self.grid.axes]
        self.orig = [int(c) for c in self.grid.origin_coordinate]
        self.ok = all(_axis_ok(ax, o) for ax, o in zip(self.axes, self.orig))
        if self.ok:
            self.bounds = [_ref_bounds(ax, o)[0] for ax, o in zip(self.axes, self.orig)]
            # marginal tail integrals (closed form of the un-truncated margin) at every boundary
            self.U = [[O.tail_integral_1d(nu, b) for b in bs] for nu, bs in zip(self.nus, self.bounds)]

    def cell(self, idx):
        a = tuple(self.bounds[i][k] for i, k in enumerate(idx))
        b = tuple(self.bounds[i][k + 1] for i, k in enumerate(idx))
        return a, b

    def scale(self, idx):
        """S: largest |tail integral| at an end point of a non-straddling coordinate of the cell"""
        s = 0.0
        for i, k in enumerate(idx):
            if k != self.orig[i]:
                s = max(s, abs(self.U[i][k]), abs(self.U[i][k + 1]))
        return s

    def states(self):
        for idx in itertools.product(*[range(len(ax)) for ax in self.axes]):
            if list(idx) != self.orig:
                yield idx


def _copula(sh, case):
    gk = case["grid"]["kind"]
    ck = _copula_class(case["model"])
    d = len(case["model"]["margins"])
    tag = f"{gk}:d={d}:{ck}" + (":narrow-cells" if case["grid"].get("narrow") else "")
    try:
        ctx = _CopulaCtx(sh, case)
    except A.OutsideAlphabet:
        sh.count("outside-alphabet-grid")
        return
    keep = {}
    _oracle_nd(sh, case, ctx, tag, keep=keep)
    if keep:
        _chains_do_not_follow_the_callers_model_nd(sh, case, tag, ctx, keep)


def _chains_do_not_follow_the_callers_model_nd(sh, case, tag, ctx, keep):
    """the same for the copula chains: the caller truncates its copula model and re-parametrises every margin afterwards"""
    procs, routes, states, lam = (keep[k] for k in ("procs", "routes", "states", "lam"))
    if "model.mass" not in routes:
        return
    model = ctx.model
    try:
        model.truncate_levy_measure(truncations=[(-1e-3, 1e-3)] * ctx.d)
        for name, m in zip(case["model"]["margins"], model.models):
            _reparametrise_callers_model(m, A.MARGINS[name]["family"])
    except Exception:  # noqa
        sh.count("callers-model-not-re-parametrisable")
        return
    # memoised marginal tail integrals (functools cache on a public method) would answer from before the change
    clear = getattr(getattr(type(model), "marginal_tail_integral", None), "cache_clear", None)
    if clear is not None:
        clear()
    again = {}
    try:
        for meth, p in procs.items():
            again[f"model.mass:{meth}"] = ({idx: float(p.model.mass(*ctx.cell(idx))) for idx in states}, routes["model.mass"])
        f = getattr(procs["INVERSION"].sampling, "probability_to_jump_to_state", None) if "INVERSION" in procs else None
        if f is not None and "inversion" in routes:
            lam_i = float(procs["INVERSION"].intensity_of_jumps)
            again["inversion"] = ({idx: float(f(tuple(k - o for k, o in zip(idx, ctx.orig)))) * lam_i for idx in states}, routes["inversion"])
    except Exception as e:  # noqa
        sh.violation(f"C01:arguments:model:chain-raises-{type(e).__name__}-after-the-callers-model-was-changed:{tag}", f"{e!r}"[:300], None)
        return
    for name, (now, before) in again.items():
        sh.count("evaluations")
        bad = [idx for idx in states if not core.close(now[idx], before[idx], rtol=1e-12, atol=1e-15 * lam)]
        if bad:
            idx = bad[0]
            sh.violation(f"C01:arguments:model:chain-follows-the-callers-model-changed-afterwards:{name.split(':')[0]}:{tag}",
                         f"{name}: after the caller truncated its copula model and re-parametrised the margins, {len(bad)} rates of the chain "
                         f"built before changed (state {idx}: {before[idx]!r} -> {now[idx]!r})", {"route": name, "state": idx})


def _oracle_nd(sh, case, ctx, tag, given=None, refine=None, keep=None):
    """the complete per-configuration oracle on ctx.grid as it is now (see _oracle_1d for `given`); returns a summary"""
    from rpylib.distribution import samplingfactory as SF
    from rpylib.distribution.sampling import SamplingMethod
    from rpylib.process.markovchain.markovchainlevycopula import MarkovChainLevyCopula

    gk = case["grid"]["kind"]
    ck = case["model"]["copula"]["kind"]
    d = len(case["model"]["margins"])
    if case["model"].get("via"):
        sh.cls(f"route:{case['model']['via']}:copula:d={d}")
    history = given is not None or refine is not None
    refine = case["grid"].get("refine", 0) if refine is None else refine
    if not ctx.ok:
        sh.count("malformed-grid-skipped")
        sh.note(f"grid not strictly increasing with 0 at the origin index (C13's business): {tag}")
        return
    grid, model = ctx.grid, ctx.model
    _central_cell_is_h(sh, tag, grid, [(bs[o], bs[o + 1]) for bs, o in zip(ctx.bounds, ctx.orig)])
    sh.cls(f"grid:{gk}:d={d}")
    if case["grid"].get("narrow") and any(bs[k + 1] - bs[k] <= 1e-8 + 1e-5 * min(abs(bs[k]), abs(bs[k + 1]))
                                          for bs, o in zip(ctx.bounds, ctx.orig) for k in range(len(bs) - 1) if k != o):
        sh.cls(f"regime:narrow-cells:d={d}")
    sh.cls(f"copula:{ck}:d={d}")
    sh.cls(f"refine:{refine}:d={d}")
    sh.cls("margins:" + "+".join(case["model"]["margins"]) + (":exp" if case.get("exp") else ""))
    sh.cls("axes:identical" if all(ax == ctx.axes[0] for ax in ctx.axes) else "axes:different-per-coordinate")

    # ---- marginal tail integrals at the cell boundaries against the density quadrature
    for i, (nu, bs) in enumerate(zip(ctx.nus, ctx.bounds)):
        mname = case["model"]["margins"][i]
        # a closed-form tail integral is a difference of two values of the size of the mass beyond the central cell
        # (erf / exp / incomplete gamma): absolute error of a few ulp of that size (far tails underflow to 0.0)
        u_scale = max(abs(u) for u in ctx.U[i])
        for j, b in enumerate(bs):
            lo, hi = (-INF, b) if b < 0 else (b, INF)
            v, e = O.integrate_density(nu, lo, hi)
            sh.count("evaluations")
            if not math.isfinite(v) or e > 1e-10 * abs(v) + 1e-300:
                sh.count("oracle_inconclusive")
                continue
            got = abs(ctx.U[i][j])
            if not core.close(got, v, rtol=1e-9, atol=e + 64 * EPS * u_scale):
                sh.violation(f"C01:copula:margin-tail-integral:differs-from-density-integral:{mname}",
                             f"margin {i} ({mname}): nu.integrate over {'(-inf, %r]' % b if b < 0 else '(%r, inf)' % b} = {got!r}, quadrature of the density = {v!r}",
                             {"margin": mname, "x": b, "closed_form": got, "quadrature": v})
        if ctx.ref_model is not model:
            # margins reached another way than by direct construction (or re-used after a history): same tail integrals
            nu_m = model.models[i].levy_triplet.nu
            route = case["model"].get("via") or "reused"
            for j, b in enumerate(bs):
                sh.count("evaluations")
                got = float(O.tail_integral_1d(nu_m, b))
                if not core.close(got, ctx.U[i][j], rtol=1e-12, atol=64 * EPS * u_scale):
                    sh.violation(f"C01:copula:margin-tail-integral:differs-from-the-directly-constructed-margin:{mname}:{route}",
                                 f"margin {i} ({mname}) at {b!r}: tail integral {got!r}, directly constructed margin with the same parameter values {ctx.U[i][j]!r}",
                                 {"margin": mname, "x": b, "observed": got, "expected": ctx.U[i][j]})
                    break

    # ---- processes
    procs = dict(given or {})
    grid_before = _grid_snapshot(grid)
    model_before = _fingerprint_nd(model)
    with _no_vol_adjustment_pool():
        for j, meth in enumerate(METHODS_ND if given is None else []):
            try:
                # argument form: keywords and positions (levy_copula_model, grid, method) in turn
                if j % 2:
                    procs[meth] = MarkovChainLevyCopula(model, grid, SamplingMethod[meth])
                else:
                    procs[meth] = MarkovChainLevyCopula(levy_copula_model=model, grid=grid, method=SamplingMethod[meth])
                sh.cls(f"method:{d}d:{meth}")
            except Exception as e:  # noqa
                sh.violation(f"C01:copula:{meth}:constructor-raises-{type(e).__name__}:{tag}", f"{e!r}"[:300], None)
    if not procs:
        return
    if given is None:
        model_now = _fingerprint_nd(model)
        _arguments_untouched(sh, "a-chain-constructor", tag, grid, grid_before, model_now, model_before)
        grid_before, model_before = _grid_snapshot(grid), model_now
    p0 = next(iter(procs.values()))
    lam = float(p0.intensity_of_jumps)
    if not (math.isfinite(lam) and lam > 0):
        sh.violation(f"C01:intensity:copula-process:not-positive-finite:{tag}", f"intensity_of_jumps = {lam!r}", None)
        return
    states = list(ctx.states())
    sh.outcome((float(lam).hex(), len(states)))

    # ---- reference rates
    ref = {}
    S = {}
    for idx in states:
        a, b = ctx.cell(idx)
        ref[idx] = float(O.ref_rectangle_mass(ctx.copula, ctx.nus, a, b))
        S[idx] = ctx.scale(idx)
    s_max = max(S.values())

    routes = {}
    # (a) model.mass on the reference cells
    try:
        routes["model.mass"] = {idx: float(p0.model.mass(*ctx.cell(idx))) for idx in states}
    except Exception as e:  # noqa
        sh.violation(f"C01:copula:model.mass:raises-{type(e).__name__}:{tag}", f"{e!r}"[:300], None)

    # (b) inversion: probability and the cell it is computed on
    if "INVERSION" in procs:
        pinv = procs["INVERSION"]
        f = getattr(pinv.sampling, "probability_to_jump_to_state", None)
        if f is None:
            sh.count("inversion-probability-not-observable")
        else:
            lam_i = float(pinv.intensity_of_jumps)
            r = {}
            try:
                with _spied_mass(pinv.model) as calls:
                    for idx in states:
                        inc = tuple(k - o for k, o in zip(idx, ctx.orig))
                        c0 = len(calls)
                        r[idx] = float(f(inc)) * lam_i
                        sh.count("evaluations")
                        if len(calls) == c0 + 1:
                            if calls[c0] != ctx.cell(idx):
                                pos = "on-axis" if any(k == o for k, o in zip(idx, ctx.orig)) else "off-axis"
                                sh.violation(f"C01:tiling:inversion:cell-differs-from-reference-cell:{pos}:{tag}",
                                             f"state {idx}: library cell {calls[c0]!r}, reference {ctx.cell(idx)!r}",
                                             {"state": idx, "cell": calls[c0], "reference": ctx.cell(idx)})
                        else:
                            sh.count("inversion-cells-not-observable")
                routes["inversion"] = r
            except Exception as e:  # noqa
                sh.violation(f"C01:copula:inversion:probability_to_jump_to_state-raises-{type(e).__name__}:{tag}", f"{e!r}"[:300], None)

    # (c) adapted tree
    if "BINARYSEARCHTREEADAPTED" in procs:
        pt = procs["BINARYSEARCHTREEADAPTED"]
        s = pt.sampling
        lam_t = float(getattr(s, "intensity_of_jumps", pt.intensity_of_jumps))
        sh.count("evaluations")
        if not _close_same(lam_t, lam, lam):
            sh.violation(f"C01:intensity:adapted-tree:differs-from-process:{tag}", f"tree {lam_t!r}, process {lam!r}", None)
        cp = getattr(s, "_compute_probability", None)
        if cp is not None:
            try:
                routes["adapted-tree"] = {idx: float(cp(*ctx.cell(idx))) * lam_t for idx in states}
            except Exception as e:  # noqa
                sh.violation(f"C01:copula:adapted-tree:_compute_probability-raises-{type(e).__name__}:{tag}", f"{e!r}"[:300], None)
        bp = getattr(s, "_buckets_probabilities", None)
        bc = getattr(s, "_buckets_coordinates", None)
        cum = getattr(s, "_precomputed_cum_p_for_axes", None)
        if bp is None or bc is None:
            sh.count("adapted-tree-buckets-not-observable")
        else:
            covered = collections.Counter()
            for j, (p, coords) in enumerate(zip(bp, bc)):
                ranges = [range(int(l), int(r) + 1) for (l, r) in coords]
                members = [idx for idx in itertools.product(*ranges)]
                for idx in members:
                    covered[idx] += 1
                want = sum(ref.get(idx, 0.0) for idx in members)
                sb = max((S.get(idx, 0.0) for idx in members), default=0.0)
                sh.count("evaluations")
                shape = "".join("c" if (len(rg) == 1 and rg[0] == o) else ("l" if rg[-1] < o else "r") for rg, o in zip(ranges, ctx.orig))
                if not core.close(float(p) * lam_t, want, rtol=1e-9, atol=1e-12 * sb * max(1, len(members))):
                    sh.violation(f"C01:copula:adapted-tree:bucket-mass-differs-from-sum-of-reference-rates:{shape}:{tag}",
                                 f"bucket {coords!r}: probability*lambda = {float(p) * lam_t!r}, sum of the reference masses of its {len(members)} cells = {want!r}",
                                 {"bucket": coords, "observed": float(p) * lam_t, "expected": want})
                if cum is not None and j in cum:
                    ps = np.diff(np.concatenate(([0.0], np.asarray(cum[j], dtype=float))))
                    if len(ps) != len(members):
                        sh.violation(f"C01:copula:adapted-tree:axis-bucket-has-wrong-number-of-states:{shape}:{tag}",
                                     f"bucket {coords!r}: {len(ps)} cumulative probabilities for {len(members)} states", None)
                    else:
                        for idx, pj in zip(members, ps):
                            sh.count("evaluations")
                            if not core.close(float(pj) * lam_t, ref[idx], rtol=1e-9, atol=1e-12 * S[idx] * len(members) + 4 * EPS * lam):
                                sh.violation(f"C01:copula:adapted-tree:axis-state-probability-differs-from-reference-rate:{shape}:{tag}",
                                             f"state {idx}: increment of _precomputed_cum_p_for_axes * lambda = {float(pj) * lam_t!r}, reference mass {ref[idx]!r}",
                                             {"state": idx, "observed": float(pj) * lam_t, "expected": ref[idx]})
            bad = [idx for idx in states if covered.get(idx, 0) != 1]
            extra = [idx for idx in covered if idx not in ref]
            sh.count("evaluations")
            if bad or extra:
                sh.violation(f"C01:tiling:adapted-tree:buckets-do-not-partition-the-non-origin-states:{tag}",
                             f"{len(bad)} states not in exactly one bucket (first {bad[:3]}), {len(extra)} bucket members that are not non-origin states (first {extra[:3]})", None)

    if keep is not None:
        keep.update(procs=procs, routes=routes, states=states, lam=lam)
    if given is None:
        _arguments_untouched(sh, "an-observation-of-the-rates", tag, grid, grid_before, _fingerprint_nd(model), model_before)

    # ---- (ii) (iii) per state, per route
    compared = 0
    for name, r in routes.items():
        for idx in states:
            v = r[idx]
            pos = "on-axis" if any(k == o for k, o in zip(idx, ctx.orig)) else "off-axis"
            sh.count("evaluations")
            if not math.isfinite(v):
                sh.violation(f"C01:copula:{name}:rate-not-finite:{pos}:{tag}", f"state {idx}: {v!r}", None)
                continue
            if v < -1e-13 * S[idx]:
                sh.violation(f"C01:copula:{name}:negative-rate:{pos}:{tag}", f"state {idx} cell {ctx.cell(idx)!r}: rate {v!r}", {"state": idx, "rate": v})
            want = ref[idx]
            if name == "inversion":
                want = max(want, 0.0)
            compared += 1
            if not core.close(v, want, rtol=1e-9, atol=1e-12 * S[idx]):
                sh.violation(f"C01:copula:{name}:rate-differs-from-reference-rectangle-mass:{pos}:{tag}",
                             f"state {idx} cell {ctx.cell(idx)!r}: rate {v!r}, reference mass {ref[idx]!r}",
                             {"state": idx, "cell": ctx.cell(idx), "rate": v, "reference": ref[idx]})
    names = list(routes)
    if names:
        base = routes[names[0]]
        for name in names[1:]:
            r = routes[name]
            for idx in states:
                sh.count("evaluations")
                x, y = base[idx], r[idx]
                if "inversion" in (name, names[0]):
                    x, y = max(x, 0.0), max(y, 0.0)
                if not core.close(x, y, rtol=1e-12, atol=1e-15 * max(lam, S[idx])):
                    sh.violation(f"C01:agreement:{names[0]}-vs-{name}:rate-of-a-state-differs:{tag}",
                                 f"state {idx}: {names[0]} {base[idx]!r}, {name} {r[idx]!r}", None)
    # ---- (iv) sums, intensities, blocks
    for meth, p in procs.items():
        sh.count("evaluations")
        if not _close_same(float(p.intensity_of_jumps), lam, lam):
            sh.violation(f"C01:intensity:copula-process:depends-on-the-sampling-method:{tag}", f"{meth}: {float(p.intensity_of_jumps)!r} vs {lam!r}", None)
    try:
        with _spied_mass(p0.model) as calls:
            lam2 = float(SF.compute_intensity_of_jumps(model=p0.model, grid=grid))
        sh.count("evaluations")
        if not _close_same(lam2, lam, lam):
            sh.violation(f"C01:intensity:compute_intensity_of_jumps:differs-from-process:{tag}", f"{lam2!r} vs {lam!r}", None)
        parts = []
        for i in range(d):
            bs, o = ctx.bounds[i], ctx.orig[i]
            parts.append([(bs[o], bs[o + 1]), (bs[0], bs[o]), (bs[o + 1], bs[-1])])
        want_blocks = []
        for combo in itertools.product(*parts):
            want_blocks.append((tuple(c[0] for c in combo), tuple(c[1] for c in combo)))
        want_blocks = sorted(want_blocks[1:])
        if sorted(calls) != want_blocks:
            sh.violation(f"C01:tiling:compute_intensity_of_jumps:blocks-are-not-the-complement-of-the-central-cell:{tag}",
                         f"{len(calls)} blocks, expected the {len(want_blocks)} products of left/central/right parts other than the central cell; first observed {sorted(calls)[:2]!r}",
                         {"observed": sorted(calls)[:8], "expected": want_blocks[:8]})
    except Exception as e:  # noqa
        sh.violation(f"C01:intensity:compute_intensity_of_jumps:raises-{type(e).__name__}:{tag}", f"{e!r}"[:300], None)
    ref_total = sum(ref.values())
    sh.count("evaluations")
    if not core.close(lam, ref_total, rtol=1e-9, atol=1e-12 * s_max):
        sh.violation(f"C01:intensity:copula-process:differs-from-sum-of-reference-rectangle-masses:{tag}",
                     f"intensity_of_jumps {lam!r}, sum of the reference masses of the {len(states)} cells {ref_total!r}", {"intensity": lam, "reference": ref_total})
    for name, r in routes.items():
        sh.count("evaluations")
        tot = sum(max(v, 0.0) for v in r.values()) if name == "inversion" else sum(r.values())
        if not core.close(tot, lam, rtol=1e-9, atol=1e-12 * s_max):
            sh.violation(f"C01:sum:copula:{name}:sum-of-rates-differs-from-intensity:{tag}", f"sum of rates {tot!r}, intensity_of_jumps {lam!r}",
                         {"sum": tot, "intensity": lam})
    if compared:
        sh.nontriv()
    sh.count("states", len(states))
    sh.count("configurations")
    summary = {"axes": [[x.hex() for x in ax] for ax in ctx.axes], "h": float(grid.h).hex(), "origin": list(ctx.orig), "intensity": lam,
               "mass": [routes["model.mass"][idx] for idx in states] if "model.mass" in routes else None}
    if history:
        return summary
    if int(core.digest(case), 16) % 8 == 0 and "model.mass" in routes and len(states) <= 1000:
        ctx2 = _CopulaCtx(sh, case)
        with _no_vol_adjustment_pool():
            p2 = MarkovChainLevyCopula(levy_copula_model=ctx2.model, grid=ctx2.grid, method=SamplingMethod[next(iter(procs))])
        same = (float(p2.intensity_of_jumps).hex() == lam.hex() and ctx2.axes == ctx.axes
                and all(float(p2.model.mass(*ctx2.cell(idx))).hex() == routes["model.mass"][idx].hex() for idx in states))
        sh.count("determinism-reruns")
        if not same:
            sh.violation("NONDETERMINISM", f"rebuilding {tag} from its case dict gave different axes / intensity / cell masses", None)
    if len(states) <= 8:
        sh.sample({"case": case, "axes": ctx.axes, "intensity": lam, "reference_masses": {str(k): v for k, v in ref.items()}})
    return summary


# ----------------------------------------------------------------------------------------------------------------------
# histories on ONE grid object: use (build chains), refine, use again - directly and through the couplings' next_level
# ----------------------------------------------------------------------------------------------------------------------

def _make_product():
    from rpylib.product.payoff import Forward
    from rpylib.product.product import Product
    from rpylib.product.underlying import Spot

    return Product(payoff_underlying=Spot(), payoff=Forward(strike=0.0), maturity=1.0)


def _path_manager(fine_process):
    from rpylib.montecarlo.path import MLMCPath

    return MLMCPath(deterministic_path=fine_process.deterministic_path, activate_spot_underlying=False)


def _compare_with_fresh(sh, tag, level, reused, fresh, grid=None):
    """the re-used grid object after `level` refinements against a grid constructed afresh and refined `level` times before
    its first use: same axes, h and origin index bit for bit; same intensity and per-state rates. grid: the re-used grid
    object - when the oracle gave no summary for it (it skips malformed grids: C13's subject when they come out of a
    constructor) while the fresh grid is fine, the history has spoilt the grid: compared field by field all the same"""
    if reused is None and fresh is not None and grid is not None:
        try:
            snap = _grid_snapshot(grid)
            reused = {"h": snap["h"]}
            if "axis" in fresh:
                reused.update(axis=snap["axes"][0], origin=snap["origin"][0])
            else:
                reused.update(axes=snap["axes"], origin=snap["origin"])
        except Exception as e:  # noqa
            sh.violation(f"C01:history:grid:not-readable-after-the-history-{type(e).__name__}:{tag}", f"level {level}: {e!r}"[:300], None)
            return
        for field in ("axes", "axis", "h", "origin"):
            if field in reused:
                sh.count("evaluations")
                if reused[field] != fresh[field]:
                    sh.violation(f"C01:history:grid:{field}-differs-from-a-fresh-grid-refined-as-often:{tag}",
                                 f"after {level} refinement(s) in the history: {field} of the grid differs from the fresh grid's (and the grid is malformed)", None)
                    return
        sh.count("history-comparison-skipped")
        return
    if reused is None or fresh is None:
        sh.count("history-comparison-skipped")
        return
    for field in ("axes", "axis", "h", "origin"):
        if field in reused:
            sh.count("evaluations")
            if reused[field] != fresh[field]:
                sh.violation(f"C01:history:grid:{field}-differs-from-a-fresh-grid-refined-as-often:{tag}",
                             f"after {level} refinement(s) of a used grid: {field} differs from the fresh grid's", None)
                return
    lam_r, lam_f = reused["intensity"], fresh["intensity"]
    sh.count("evaluations")
    if not _close_same(lam_r, lam_f, lam_f):
        sh.violation(f"C01:history:intensity:differs-from-a-chain-on-a-fresh-grid-refined-as-often:{tag}",
                     f"after {level} refinement(s) of a used grid: intensity_of_jumps {lam_r!r}, on a fresh grid refined {level} time(s) {lam_f!r}",
                     {"level": level, "reused": lam_r, "fresh": lam_f})
    for field in ("q", "mass"):
        if reused.get(field) is not None and fresh.get(field) is not None:
            sh.count("evaluations")
            if len(reused[field]) != len(fresh[field]) or any(
                    not core.close(x, y, rtol=1e-12, atol=1e-15 * lam_f) for x, y in zip(reused[field], fresh[field])):
                sh.violation(f"C01:history:rates:differ-from-a-chain-on-a-fresh-grid-refined-as-often:{tag}",
                             f"after {level} refinement(s) of a used grid: per-state rates differ from those on a fresh grid", None)


def _history1d(sh, case):
    import copy

    from rpylib.distribution.sampling import SamplingMethod
    from rpylib.process.coupling.couplingmarkovchain import CouplingMarkovChain

    gk = case["grid"]["kind"]
    fam = _family_class(case["model"])
    via = case["via"]
    depth = case["depth"]
    if via == "model-reuse":
        return _history_model_reuse_1d(sh, case)
    model = _make_model(case["model"])
    ref_model = _reference_model_1d(case["model"], model)
    g0 = dict(case["grid"], refine=0)
    try:
        grid = _make_grid(g0, model, 1)
    except A.OutsideAlphabet:
        sh.count("outside-alphabet-grid")
        return
    sh.cls(f"history:1d:{via}")
    if case["grid"]["kind"] == "fixed" and depth > 3:
        sh.cls(f"history:1d:{via}:deep")
    if via == "direct":
        tag = f"{gk}:{fam}:used-grid-refined"
        for level in range(depth + 1):
            if level:
                grid.refine()
            # the oracle builds a chain on `grid` through every method: that is the "use" before the next refinement
            reused = _oracle_1d(sh, case, model, grid, tag if level else f"{gk}:{fam}", refine=level, ref_model=ref_model)
            if level:
                fresh_model = _make_model(case["model"])
                fresh_grid = _make_grid(dict(g0, refine=level), fresh_model, 1)
                fresh = _light_summary_1d(fresh_model, fresh_grid)
                _compare_with_fresh(sh, tag, level, reused, fresh, grid=grid)
            # a deep copy of the used grid is the same grid
            if reused is not None:
                _compare_summaries(sh, f"C01:history:grid:chain-on-deep-copy-of-the-used-grid-differs:{gk}:{fam}",
                                   f"deep copy of the grid after {level} refinement(s)", _light_summary_1d(model, copy.deepcopy(grid)),
                                   reused)
            # a second grid of the same class with another h, used, refined, used again in between
            try:
                other = _make_grid(dict(g0, h=0.75 * g0["h"]), model, 1)
                _light_summary_1d(model, other)
                other.refine()
                _light_summary_1d(model, other)
            except A.OutsideAlphabet:
                pass
        sh.count("histories")
        return
    # through the real coupling: fine_process at level l is a chain built by next_level on the refined grid object
    meth = case["method"]
    product = _make_product()
    model_before = _fingerprint_1d(model)
    if via == "engine-levels":
        # what MLMC Engine.price does: level l = deep copy of level l-1, then next_level; every level stays in use
        tag = f"{gk}:{fam}:engine-levels:{meth}"
        levels = []
        with _captured(QVEC_METHODS.get(meth)) as cap:
            try:
                cp = CouplingMarkovChain(model=model, method=SamplingMethod[meth], grid=grid)
                product.update(cp.fine_process.process_representation)
                cp.initialisation(product)
                pms = [_path_manager(cp.fine_process)]
                levels.append((cp, cap.vec if cap is not None else None))
                for level in range(1, depth + 1):
                    if cap is not None:
                        cap.vec = None
                    nxt = copy.deepcopy(levels[-1][0])
                    nxt.next_level(mc_paths=1, path_managers=pms, product=product)
                    levels.append((nxt, cap.vec if cap is not None else None))
            except Exception as e:  # noqa
                sh.violation(f"C01:history:CouplingMarkovChain:deepcopy-then-next_level-raises-{type(e).__name__}:{tag}", f"{e!r}"[:300], None)
                return
        for level, (cpl, vec) in enumerate(levels):
            vecs = {meth: vec} if vec is not None else {}
            reused = _oracle_1d(sh, case, model, cpl.grid, tag if level else f"{gk}:{fam}", given={meth: cpl.fine_process},
                                given_vectors=vecs, refine=level, ref_model=ref_model)
            fresh_model = _make_model(case["model"])
            _compare_with_fresh(sh, tag, level, reused, _light_summary_1d(fresh_model, _make_grid(dict(g0, refine=level), fresh_model, 1)), grid=cpl.grid)
            if reused is None:
                continue
            for cname, cpf in _copiers()[1:]:
                try:
                    twin = cpf(cpl)
                    _compare_summaries(sh, f"C01:history:coupling:{cname}-of-a-level-carries-another-chain:{tag}",
                                       f"{cname} of the coupling of level {level}", _proc_summary_1d(twin.fine_process), _proc_summary_1d(cpl.fine_process))
                except Exception as e:  # noqa
                    sh.violation(f"C01:history:coupling:{cname}-raises-{type(e).__name__}:{tag}", f"level {level}: {e!r}"[:300], None)
        _arguments_untouched(sh, "the-couplings", tag, levels[0][0].grid, _grid_snapshot(levels[0][0].grid), _fingerprint_1d(model), model_before)
        sh.count("histories")
        return
    tag = f"{gk}:{fam}:next_level:{meth}"
    with _captured(QVEC_METHODS.get(meth)) as cap:
        try:
            cp = CouplingMarkovChain(model=model, method=SamplingMethod[meth], grid=grid)
            product.update(cp.fine_process.process_representation)
            cp.initialisation(product)
            pms = [_path_manager(cp.fine_process)]
        except Exception as e:  # noqa
            sh.violation(f"C01:history:CouplingMarkovChain:constructor-raises-{type(e).__name__}:{tag}", f"{e!r}"[:300], None)
            return
        for level in range(1, depth + 1):
            if cap is not None:
                cap.vec = None
            try:
                cp.next_level(mc_paths=1, path_managers=pms, product=product)
            except Exception as e:  # noqa
                sh.violation(f"C01:history:CouplingMarkovChain:next_level-raises-{type(e).__name__}:{tag}", f"level {level}: {e!r}"[:300], None)
                return
            vecs = {meth: cap.vec} if (cap is not None and cap.vec is not None) else {}
            reused = _oracle_1d(sh, case, model, cp.grid, tag, given={meth: cp.fine_process}, given_vectors=vecs, refine=level,
                                ref_model=ref_model)
            fresh_model = _make_model(case["model"])
            fresh_grid = _make_grid(dict(g0, refine=level), fresh_model, 1)
            _compare_with_fresh(sh, tag, level, reused, _light_summary_1d(fresh_model, fresh_grid), grid=cp.grid)
    # the coupling deep copies what it needs: the model the caller handed over is as it was
    sh.count("evaluations")
    diff = _differing_fields(model_before, _fingerprint_1d(model))
    if diff:
        sh.violation(f"C01:arguments:model:modified-by-the-coupling:{tag}", f"the caller's model differs after {depth} levels in {diff}", {"fields": diff})
    sh.count("histories")


def _compare_summaries(sh, key, what, a, b):
    """two light summaries that must describe the same chain (same closed forms on the same parameter values)"""
    if a is None or b is None:
        sh.count("history-comparison-skipped")
        return
    for field in ("axes", "axis", "h", "origin"):
        if field in a:
            sh.count("evaluations")
            if a[field] != b[field]:
                sh.violation(f"{key}:{field}-differs", f"{what}: {field} differs", None)
                return
    sh.count("evaluations")
    if not _close_same(a["intensity"], b["intensity"], b["intensity"]):
        sh.violation(f"{key}:intensity-differs", f"{what}: intensity_of_jumps {a['intensity']!r} vs {b['intensity']!r}",
                     {"first": a["intensity"], "second": b["intensity"]})
    for field in ("q", "mass"):
        if a.get(field) is not None and b.get(field) is not None:
            sh.count("evaluations")
            if len(a[field]) != len(b[field]) or any(
                    not core.close(x, y, rtol=1e-12, atol=1e-15 * b["intensity"]) for x, y in zip(a[field], b[field])):
                sh.violation(f"{key}:rates-differ", f"{what}: per-state rates differ", None)


def _one_measure_on_grids_sharing_their_end_points(sh, spec, tag):
    """round 8: ONE Levy-measure object handed to create_q_vector with grids of different classes that share h, the number
    of states and both end points (uniform, geometric, base-class constructor, uniform again): each vector against the
    closed form of a reference measure constructed now, on the cells read off that grid's own axis (a memo keyed on the
    measure and a summary of the grid answers the second grid with the first grid's vector)."""
    from rpylib.distribution import samplingfactory as SF
    from rpylib.grid import spatial as S

    h = 0.1
    try:
        nu = _make_model(spec).levy_triplet.nu
        ref = A.make_model(_direct(spec)).levy_triplet.nu
        makers = [
            ("uniform", lambda: S.CTMCUniformGrid.create_from_fixed_nb_of_points(h=h, nb_of_points=6)),
            ("geometric", lambda: S.CTMCGridGeometric.create_with_bounds(h=h, truncations=(-3 * h, 3 * h), dimension=1, nb_of_points_on_each_side=3)),
            ("custom", lambda: S.CTMCGrid(h=h, origin_coordinate=3, axes=[np.array([-3.0, -2.5, -1.0, 0.0, 1.0, 1.5, 3.0]) * h])),
            ("uniform-again", lambda: S.CTMCUniformGrid.create_from_fixed_nb_of_points(h=h, nb_of_points=6)),
        ]
        grids = [(name, mk()) for name, mk in makers]
    except Exception as e:  # noqa
        sh.count("one-measure-grids-not-constructible")
        sh.note(f"one-measure-many-grids: construction raises {type(e).__name__} ({tag})")
        return
    shapes = {(len(g.axes[0]), float(g.axes[0][0]), float(g.axes[0][-1])) for _n, g in grids}
    if len(shapes) != 1:
        sh.count("one-measure-grids-do-not-share-their-end-points")
    for name, grid in grids:
        axis = [float(x) for x in grid.axes[0]]
        o = int(grid.origin_coordinate.value)
        if not _axis_ok(axis, o):
            sh.count("malformed-grid-skipped")
            continue
        b, _ok = _ref_bounds(axis, o)
        try:
            want = {k: float(ref.integrate(b[k], b[k + 1])) for k in range(len(axis)) if k != o}
        except Exception:  # noqa
            sh.count("one-measure-reference-not-evaluable")
            continue
        try:
            q = np.asarray(SF.create_q_vector(nu, grid), dtype=float)
        except Exception as e:  # noqa
            sh.violation(f"C01:history:measure:create_q_vector-raises-{type(e).__name__}-on-a-later-grid:{name}:{tag}", f"{e!r}"[:300], None)
            return
        lam = sum(want.values())
        sh.count("evaluations")
        bad = [k for k in want if not core.close(float(q[k]), want[k], rtol=1e-9, atol=1e-13 * lam)]
        if bad:
            k = bad[0]
            sh.violation(f"C01:history:measure:q-vector-of-a-later-grid-is-not-the-mass-of-its-cells:{name}:{tag}",
                         f"one measure object, grids {[n for n, _g in grids]} sharing h, size and end points: on the {name} grid (axis {axis}) "
                         f"create_q_vector gives {float(q[k])!r} for state {k}, the measure of its cell ({b[k]!r}, {b[k + 1]!r}) is {want[k]!r} "
                         f"({len(bad)} states differ)", {"grid": name, "k": k, "got": float(q[k]), "want": want[k]})


def _history_model_reuse_1d(sh, case):
    """history on ONE model object: (0) after its construction a second model of the same class with other parameter values
    is built (directly and through mutate + initialisation()) and used on the 3-point grid and on the case's grid
    constructor, refined, used again; (1) chains are built with the first model on the 3-point grid through every method
    (every constructor deep copies and truncates the model); (2) the second model is built and used again; (3) the model is
    deep copied. Then the complete oracle on the model with a grid constructed now, against a reference model constructed
    now; and the chain of before (1), the chain after (2) and the chain on the deep copy must be the same."""
    import copy

    from rpylib.distribution.sampling import SamplingMethod
    from rpylib.process.markovchain.markovchain import MarkovChainProcess

    spec = case["model"]
    gk = case["grid"]["kind"]
    fam = _family_class(spec)
    tag = f"{gk}:{fam}:model-reused"
    g0 = dict(case["grid"], refine=0)
    model = _make_model(spec)
    sh.cls("history:1d:model-reuse")
    donor_spec = dict(_direct(spec), params=A.DONOR_PARAMS[spec["family"]])

    def use_a_second_model():
        # on the 3-point grid, on the case's own grid constructor (same interior states where the constructor takes them
        # from h alone) and refined once: the second model evaluates its measure at the points the first one uses
        for dsp in (donor_spec, dict(donor_spec, via="reinit")):
            donor = _make_model(dsp)
            for gs in ({"kind": "fixed", "h": 0.1, "n": 3}, g0):
                try:
                    dgrid = _make_grid(gs, donor, 1)
                except A.OutsideAlphabet:
                    continue
                for level in range(2):
                    if level:
                        dgrid.refine()
                    for meth in ("ALIAS", "INVERSION", "BINARYSEARCHTREEADAPTED1D"):
                        MarkovChainProcess(model=donor, method=SamplingMethod[meth], grid=dgrid)

    try:
        use_a_second_model()
        before = _light_summary_1d(model, _make_grid(g0, model, 1))
    except A.OutsideAlphabet:
        sh.count("outside-alphabet-grid")
        return
    except Exception as e:  # noqa
        sh.violation(f"C01:history:model:operation-raises-{type(e).__name__}:{tag}", f"{e!r}"[:300], None)
        return
    try:
        narrow = _make_grid({"kind": "fixed", "h": 0.1, "n": 3}, model, 1)
        for meth in METHODS_1D:
            MarkovChainProcess(model=model, method=SamplingMethod[meth], grid=narrow)
        use_a_second_model()
        clone = copy.deepcopy(model)
        grid = _make_grid(g0, model, 1)
        after = _light_summary_1d(model, _make_grid(g0, model, 1))
        cloned = _light_summary_1d(clone, _make_grid(g0, clone, 1))
    except Exception as e:  # noqa
        sh.violation(f"C01:history:model:operation-raises-{type(e).__name__}:{tag}", f"{e!r}"[:300], None)
        return
    ref_model = A.make_model(_direct(spec))
    _oracle_1d(sh, case, model, grid, tag, refine=0, ref_model=ref_model)
    _one_measure_on_grids_sharing_their_end_points(sh, spec, f"{fam}:one-measure-many-grids")
    _compare_summaries(sh, f"C01:history:model:chain-after-other-uses-differs-from-chain-before:{tag}",
                       "the model used on a narrow grid, a second model of its class used in between", after, before)
    _compare_summaries(sh, f"C01:history:model:chain-on-deep-copy-differs:{tag}", "deep copy of the model", cloned, before)
    sh.count("histories")


def _history_model_reuse_nd(sh, case):
    """the same for ONE Levy-copula model object: a second copula model with the margins in reverse order under another
    copula (margins built directly and through mutate + initialisation()) is used on the 3-point grid and on the case's
    grid before the first use and again after the model was used on the 3-point grid through both methods; deep copy."""
    import copy

    from rpylib.distribution.sampling import SamplingMethod
    from rpylib.process.markovchain.markovchainlevycopula import MarkovChainLevyCopula

    spec = case["model"]
    gk = case["grid"]["kind"]
    d = len(spec["margins"])
    tag = f"{gk}:d={d}:{_copula_class(spec)}:model-reused"
    exp = case.get("exp", False)
    model = _make_copula_model(spec, exp=exp)
    sh.cls(f"history:{d}d:model-reuse")

    def light(m):
        ctx = _CopulaCtx(sh, case, model=m, grid=_make_grid(case["grid"], m, d), ref_model=m)
        if not ctx.ok:
            return None
        p = MarkovChainLevyCopula(levy_copula_model=m, grid=ctx.grid, method=SamplingMethod.INVERSION)
        return {"axes": [[x.hex() for x in ax] for ax in ctx.axes], "h": float(ctx.grid.h).hex(), "origin": list(ctx.orig),
                "intensity": float(p.intensity_of_jumps), "mass": [float(p.model.mass(*ctx.cell(idx))) for idx in ctx.states()]}

    other_copula = {"kind": "independent"} if spec["copula"]["kind"] != "independent" else {"kind": "clayton", "theta": 3.0, "eta": 1.0}

    def use_a_second_model():
        for via in (None, "reinit"):
            osp = {"margins": list(reversed(spec["margins"])), "copula": other_copula}
            other = _make_copula_model(dict(osp, via=via) if via else osp, exp=exp)
            for gs in ({"kind": "fixed", "h": 0.1, "n": 3}, case["grid"]):
                ogrid = _make_grid(gs, other, d)
                for meth in METHODS_ND:
                    MarkovChainLevyCopula(levy_copula_model=other, grid=ogrid, method=SamplingMethod[meth])

    with _no_vol_adjustment_pool():
        try:
            use_a_second_model()
            before = light(model)
            narrow = _make_grid({"kind": "fixed", "h": 0.1, "n": 3}, model, d)
            for meth in METHODS_ND:
                MarkovChainLevyCopula(levy_copula_model=model, grid=narrow, method=SamplingMethod[meth])
            use_a_second_model()
            clone = copy.deepcopy(model)
            after = light(model)
            cloned = light(clone)
            grid = _make_grid(case["grid"], model, d)
        except A.OutsideAlphabet:
            sh.count("outside-alphabet-grid")
            return
        except Exception as e:  # noqa
            sh.violation(f"C01:history:model:operation-raises-{type(e).__name__}:{tag}", f"{e!r}"[:300], None)
            return
    ref_model = A.make_copula_model(_direct(spec), exp=exp)
    ctx = _CopulaCtx(sh, case, model=model, grid=grid, ref_model=ref_model)
    _oracle_nd(sh, case, ctx, tag, refine=0)
    _compare_summaries(sh, f"C01:history:model:chain-after-other-uses-differs-from-chain-before:{tag}",
                       "the copula model used on a narrow grid, a second copula model used in between", after, before)
    _compare_summaries(sh, f"C01:history:model:chain-on-deep-copy-differs:{tag}", "deep copy of the copula model", cloned, before)
    sh.count("histories")


def _light_summary_1d(model, grid):
    from rpylib.distribution import samplingfactory as SF
    from rpylib.distribution.sampling import SamplingMethod
    from rpylib.process.markovchain.markovchain import MarkovChainProcess

    p = MarkovChainProcess(model=model, method=SamplingMethod.BINARYSEARCHTREE, grid=grid)
    o = int(grid.origin_coordinate.value)
    q = np.asarray(SF.create_q_vector(p.model.levy_triplet.nu, grid), dtype=float)
    return {"axis": [float(x).hex() for x in grid.axes[0]], "h": float(grid.h).hex(), "origin": o,
            "intensity": float(p.intensity_of_jumps), "q": [float(q[k]) for k in range(len(q)) if k != o]}


def _light_summary_nd(sh, case, level):
    from rpylib.distribution.sampling import SamplingMethod
    from rpylib.process.markovchain.markovchainlevycopula import MarkovChainLevyCopula

    ctx = _CopulaCtx(sh, dict(case, grid=dict(case["grid"], refine=level)))
    if not ctx.ok:
        return None
    with _no_vol_adjustment_pool():
        p = MarkovChainLevyCopula(levy_copula_model=ctx.model, grid=ctx.grid, method=SamplingMethod.INVERSION)
    return {"axes": [[x.hex() for x in ax] for ax in ctx.axes], "h": float(ctx.grid.h).hex(), "origin": list(ctx.orig),
            "intensity": float(p.intensity_of_jumps), "mass": [float(p.model.mass(*ctx.cell(idx))) for idx in ctx.states()]}


def _historynd(sh, case):
    from rpylib.distribution.sampling import SamplingMethod
    from rpylib.process.coupling.couplinglevycopula import CouplingProcessLevyCopula

    gk = case["grid"]["kind"]
    ck = _copula_class(case["model"])
    d = len(case["model"]["margins"])
    via = case["via"]
    depth = case["depth"]
    if via == "model-reuse":
        return _history_model_reuse_nd(sh, case)
    model = _make_copula_model(case["model"], exp=case.get("exp", False))
    g0 = dict(case["grid"], refine=0)
    try:
        grid = _make_grid(g0, model, d)
    except A.OutsideAlphabet:
        sh.count("outside-alphabet-grid")
        return
    sh.cls(f"history:{d}d:{via}")
    base = f"{gk}:d={d}:{ck}"
    if via == "direct":
        tag = f"{base}:used-grid-refined"
        for level in range(depth + 1):
            if level:
                grid.refine()
            ctx = _CopulaCtx(sh, case, model=model, grid=grid)
            reused = _oracle_nd(sh, case, ctx, tag if level else base, refine=level)
            if level:
                _compare_with_fresh(sh, tag, level, reused, _light_summary_nd(sh, case, level), grid=grid)
        sh.count("histories")
        return
    meth = case["method"]
    product = _make_product()
    model_before = _fingerprint_nd(model)
    if via == "engine-levels":
        import copy

        tag = f"{base}:engine-levels:{meth}"
        levels = []
        with _no_vol_adjustment_pool():
            try:
                cp = CouplingProcessLevyCopula(levy_copula_model=model, grid=grid, method=SamplingMethod[meth])
                product.update(cp.fine_process.process_representation)
                cp.initialisation(product)
                pms = [_path_manager(cp.fine_process)]
                levels.append(cp)
                for level in range(1, depth + 1):
                    nxt = copy.deepcopy(levels[-1])
                    nxt.next_level(mc_paths=1, path_managers=pms, product=product)
                    levels.append(nxt)
            except Exception as e:  # noqa
                sh.violation(f"C01:history:CouplingProcessLevyCopula:deepcopy-then-next_level-raises-{type(e).__name__}:{tag}", f"{e!r}"[:300], None)
                return
            for level, cpl in enumerate(levels):
                ctx = _CopulaCtx(sh, case, model=model, grid=cpl.grid)
                reused = _oracle_nd(sh, case, ctx, tag if level else base, given={meth: cpl.fine_process}, refine=level)
                _compare_with_fresh(sh, tag, level, reused, _light_summary_nd(sh, case, level), grid=cpl.grid)
                if reused is None:
                    continue
                for cname, cpf in _copiers()[1:]:
                    try:
                        twin = cpf(cpl)
                        _compare_summaries(sh, f"C01:history:coupling:{cname}-of-a-level-carries-another-chain:{tag}", f"{cname} of the coupling of level {level}",
                                           _proc_summary_nd(sh, case, twin.fine_process), _proc_summary_nd(sh, case, cpl.fine_process))
                    except Exception as e:  # noqa
                        sh.violation(f"C01:history:coupling:{cname}-raises-{type(e).__name__}:{tag}", f"level {level}: {e!r}"[:300], None)
        _arguments_untouched(sh, "the-couplings", tag, levels[0].grid, _grid_snapshot(levels[0].grid), _fingerprint_nd(model), model_before)
        sh.count("histories")
        return
    tag = f"{base}:next_level:{meth}"
    with _no_vol_adjustment_pool():
        try:
            cp = CouplingProcessLevyCopula(levy_copula_model=model, grid=grid, method=SamplingMethod[meth])
            product.update(cp.fine_process.process_representation)
            cp.initialisation(product)
            pms = [_path_manager(cp.fine_process)]
        except Exception as e:  # noqa
            sh.violation(f"C01:history:CouplingProcessLevyCopula:constructor-raises-{type(e).__name__}:{tag}", f"{e!r}"[:300], None)
            return
        for level in range(1, depth + 1):
            try:
                cp.next_level(mc_paths=1, path_managers=pms, product=product)
            except Exception as e:  # noqa
                sh.violation(f"C01:history:CouplingProcessLevyCopula:next_level-raises-{type(e).__name__}:{tag}", f"level {level}: {e!r}"[:300], None)
                return
            ctx = _CopulaCtx(sh, case, model=model, grid=cp.grid)
            reused = _oracle_nd(sh, case, ctx, tag, given={meth: cp.fine_process}, refine=level)
            _compare_with_fresh(sh, tag, level, reused, _light_summary_nd(sh, case, level), grid=cp.grid)
    sh.count("evaluations")
    diff = _differing_fields(model_before, _fingerprint_nd(model))
    if diff:
        sh.violation(f"C01:arguments:model:modified-by-the-coupling:{tag}", f"the caller's copula model differs after {depth} levels in {diff}", {"fields": diff})
    sh.count("histories")


# ----------------------------------------------------------------------------------------------------------------------
# joint density (2-d Clayton), off-axis cells
# ----------------------------------------------------------------------------------------------------------------------

def _clayton_mixed_derivative(theta, eta, u1, u2):
    """d2F/du1du2 of F(u1,u2) = (|u1|^-theta + |u2|^-theta)^(-1/theta) (eta 1{u1u2>=0} - (1-eta) 1{u1u2<0}), u1 u2 != 0:
    in every quadrant w (1+theta) |u1 u2|^(-theta-1) (|u1|^-theta + |u2|^-theta)^(-1/theta-2), w = eta for equal signs and
    1-eta for opposite signs (the sign of the factor cancels against d|u1|/du1 d|u2|/du2). Written in the scale-invariant
    form with t = min/max so that tiny tail integrals do not overflow."""
    a1, a2 = abs(u1), abs(u2)
    if a1 == 0.0 or a2 == 0.0 or math.isinf(a1) or math.isinf(a2):
        return 0.0
    w = eta if (u1 > 0) == (u2 > 0) else (1.0 - eta)
    if w == 0.0:
        return 0.0
    big, small = (a1, a2) if a1 >= a2 else (a2, a1)
    t = small / big
    return w * (1.0 + theta) * (t ** theta) * (1.0 + t ** theta) ** (-1.0 / theta - 2.0) / big


def _density(sh, case):
    from scipy.integrate import quad

    case = dict(case, exp=False)
    gk = case["grid"]["kind"]
    tag = f"{gk}:d=2:clayton"
    try:
        ctx = _CopulaCtx(sh, case)
    except A.OutsideAlphabet:
        sh.count("outside-alphabet-grid")
        return
    if not ctx.ok or ctx.d != 2:
        sh.count("malformed-grid-skipped")
        return
    row = case["row"]
    if row >= len(ctx.axes[0]):
        sh.violation(f"C01:density:grid:axis-shorter-than-expected:{tag}", f"row {row} of {len(ctx.axes[0])}", None)
        return
    if row == ctx.orig[0]:
        sh.count("on-axis-row-skipped")
        return
    theta, eta = case["model"]["copula"]["theta"], case["model"]["copula"]["eta"]
    from rpylib.distribution.sampling import SamplingMethod
    from rpylib.process.markovchain.markovchainlevycopula import MarkovChainLevyCopula

    with _no_vol_adjustment_pool():
        try:
            proc = MarkovChainLevyCopula(levy_copula_model=ctx.model, grid=ctx.grid, method=SamplingMethod.INVERSION)
        except Exception as e:  # noqa
            sh.violation(f"C01:copula:INVERSION:constructor-raises-{type(e).__name__}:{tag}", f"{e!r}"[:300], None)
            return
    nu1, nu2 = ctx.nus
    compared = 0
    for col in range(len(ctx.axes[1])):
        if col == ctx.orig[1]:
            continue
        idx = (row, col)
        a, b = ctx.cell(idx)
        m = float(proc.model.mass(a, b))
        inner_err = [0.0]

        def inner(x1):
            u1 = O.tail_integral_1d(nu1, x1)
            n1 = float(nu1(x1))
            if n1 == 0.0:
                return 0.0

            def f(x2):
                return _clayton_mixed_derivative(theta, eta, u1, O.tail_integral_1d(nu2, x2)) * float(nu2(x2))

            v, e = quad(f, a[1], b[1], epsabs=0.0, epsrel=1e-11, limit=200)
            inner_err[0] = max(inner_err[0], abs(e) * n1)
            return v * n1

        v, e = quad(inner, a[0], b[0], epsabs=0.0, epsrel=1e-11, limit=200)
        err = abs(e) + inner_err[0] * (b[0] - a[0])
        qc = ("same" if (a[0] > 0) == (a[1] > 0) else "opposite") + "-signs"
        sh.cls(f"density:{qc}:{gk}")
        if not math.isfinite(v) or err > 1e-9 * max(abs(v), abs(m)) + 1e-300:
            sh.count("oracle_inconclusive")
            continue
        sh.count("evaluations")
        sh.outcome(float(m).hex())
        s_min = min(max(abs(ctx.U[i][k]), abs(ctx.U[i][k + 1])) for i, k in enumerate(idx))
        compared += 1
        if not core.close(m, v, rtol=1e-8, atol=1e-12 * s_min):
            sh.violation(f"C01:density:model.mass:rate-differs-from-integral-of-joint-density:{qc}:{tag}",
                         f"state {idx} cell {a!r}..{b!r}: mass {m!r}, 2-d quadrature of the implied joint density {v!r} (+- {err:.1e})",
                         {"state": idx, "a": a, "b": b, "mass": m, "quadrature": v, "error_estimate": err})
    if compared:
        sh.nontriv()
    sh.count("states", compared)


# ----------------------------------------------------------------------------------------------------------------------
# argument forms, the caller's arguments, copies of every object under test
# ----------------------------------------------------------------------------------------------------------------------

def _dill_round_trip(x):
    import dill

    return dill.loads(dill.dumps(x))


def _copiers():
    import copy

    out = [("copy", copy.copy), ("deepcopy", copy.deepcopy)]
    try:
        import dill  # noqa

        out.append(("dill", _dill_round_trip))
    except ImportError:
        pass
    return out


def _proc_summary_1d(p):
    """what a 1-d chain says about its rates, read from the process alone (its own grid, its own model)"""
    from rpylib.distribution import samplingfactory as SF

    grid = p.grid
    o = int(grid.origin_coordinate.value)
    q = np.asarray(SF.create_q_vector(p.model.levy_triplet.nu, grid), dtype=float)
    n = len(q)
    out = {"axis": [float(x).hex() for x in grid.axes[0]], "h": float(grid.h).hex(), "origin": o,
           "intensity": float(p.intensity_of_jumps), "q": [float(q[k]) for k in range(n) if k != o]}
    f = getattr(p.sampling, "probability_to_jump_to_state", None)
    if f is not None:
        out["mass"] = [float(f(k - o)) * out["intensity"] for k in range(n) if k != o]
    return out


def _forms_compare(sh, key, what, thunk, base, summarise):
    """run one argument form; it must build (the unchanged library accepts every form of the menus) and answer like the usual
    form. Returns what the thunk returned, or None."""
    try:
        got = thunk()
    except A.OutsideAlphabet:
        sh.count("outside-alphabet-grid")
        return None
    except Exception as e:  # noqa
        sh.violation(f"{key}:raises-{type(e).__name__}", f"{what}: {e!r}"[:300], None)
        return None
    try:
        _compare_summaries(sh, f"{key}:differs-from-the-usual-form", what, summarise(got), base)
    except Exception as e:  # noqa
        sh.violation(f"{key}:chain-raises-{type(e).__name__}", f"{what}: {e!r}"[:300], None)
        return None
    sh.count("argument-forms")
    return got


def _holders_untouched(sh, key, what, holders, grid):
    """holders: [(mutable argument object, copy taken before the call)]: the constructor must not modify them, and the grid
    must not change when the caller modifies them afterwards"""
    snap = _grid_snapshot(grid)
    for obj, before in holders:
        sh.count("evaluations")
        same = (np.array_equal(np.asarray(obj), np.asarray(before)) and type(obj) is type(before)
                and getattr(obj, "dtype", None) == getattr(before, "dtype", None))
        if not same:
            sh.violation(f"{key}:modifies-the-callers-argument", f"{what}: argument {before!r} is {obj!r} after the call", None)
        try:
            if isinstance(obj, np.ndarray):
                obj *= 3
            elif isinstance(obj, list):
                for i in range(len(obj)):
                    obj[i] = obj[i] * 3
        except Exception:  # noqa
            continue
    sh.count("evaluations")
    diff = _differing_fields(snap, _grid_snapshot(grid))
    if diff:
        sh.violation(f"{key}:grid-follows-the-callers-argument-changed-afterwards", f"{what}: {diff} of the grid changed when the caller "
                     f"modified the array / list it had passed", {"fields": diff})


def _grid_forms_1d(model, H, ints):
    """{kind: (usual form, [(label, form)])}; a form returns the grid or (grid, holders). Every form below is accepted by the
    unchanged library and describes the same grid as the usual form. Not in the menu (rejected by the unchanged library, or
    not the same input): int h for the model-based constructors (TypeError in compute_truncation_helper), int h for the
    probability-step grid (its left half axis is truncated to integers by np.insert: reported, C13's subject), float numbers
    of points, lists for the axes of the base-class constructor (number_of_points needs arrays), 0-d arrays for h (refine()
    halves them in place)."""
    from rpylib.grid import spatial as S

    f64, i64 = np.float64, np.int64
    B = (-8.0 * H, 5.0 * H)
    l, r = S.compute_truncation(model=model, h=H)
    a = 0.5 * l
    if ints and l < math.ceil(a) < -H:
        a = float(math.ceil(a))
    mult = (-3.0, -1.0, 0.0, 1.0, 2.0, 4.0)

    def fixed(h=H, n=5, **kw):
        return S.CTMCUniformGrid.create_from_fixed_nb_of_points(h=h, nb_of_points=n, **kw)

    def gb(h=H, t=B, n=3, d=1):
        g = S.CTMCGridGeometric.create_with_bounds(h=h, truncations=t, dimension=d, nb_of_points_on_each_side=n)
        return (g, [(t, t.copy())]) if isinstance(t, (list, np.ndarray)) else g

    def custom(h=H, o=2, positional=False):
        ax = np.array([m * H for m in mult])
        g = S.CTMCGrid(h, o, [ax]) if positional else S.CTMCGrid(h=h, origin_coordinate=o, axes=[ax])
        return g

    menu = {
        "fixed": (lambda: fixed(), [
            ("h:numpy-float", lambda: fixed(h=f64(H))), ("n:numpy-int", lambda: fixed(n=i64(5))), ("n:even", lambda: fixed(n=4)),
            ("positional", lambda: S.CTMCUniformGrid.create_from_fixed_nb_of_points(H, 5)),
            ("positional-with-dimension", lambda: S.CTMCUniformGrid.create_from_fixed_nb_of_points(H, 5, 1)),
            ("dimension:numpy-int", lambda: fixed(dimension=i64(1)))]
            + ([("h:int", lambda: fixed(h=int(H))), ("h:numpy-int", lambda: fixed(h=i64(H)))] if ints else [])),
        "geometric-bounds": (lambda: gb(), [
            ("h:numpy-float", lambda: gb(h=f64(H))), ("bounds:list", lambda: gb(t=list(B))), ("bounds:float-array", lambda: gb(t=np.array(B))),
            ("bounds:numpy-floats", lambda: gb(t=(f64(B[0]), f64(B[1])))), ("n:numpy-int", lambda: gb(n=i64(3))),
            ("dimension:numpy-int", lambda: gb(d=i64(1))),
            ("positional", lambda: S.CTMCGridGeometric.create_with_bounds(H, B, 1, 3))]
            + ([("h:int", lambda: gb(h=int(H))), ("bounds:ints", lambda: gb(t=(int(B[0]), int(B[1])))),
                ("bounds:int-list", lambda: gb(t=[int(B[0]), int(B[1])])), ("bounds:int-array", lambda: gb(t=np.array([int(B[0]), int(B[1])]))),
                ("h:int+bounds:ints", lambda: gb(h=int(H), t=(int(B[0]), int(B[1]))))] if ints else [])),
        "uniform": (lambda: S.CTMCUniformGrid(h=H, model=model, truncation_probability=0.99999), [
            ("h:numpy-float", lambda: S.CTMCUniformGrid(h=f64(H), model=model, truncation_probability=0.99999)),
            ("p:numpy-float", lambda: S.CTMCUniformGrid(h=H, model=model, truncation_probability=f64(0.99999))),
            ("p:default", lambda: S.CTMCUniformGrid(h=H, model=model)),
            ("positional", lambda: S.CTMCUniformGrid(H, model, 0.99999))]),
        "geometric": (lambda: S.CTMCGridGeometric(h=H, model=model, nb_of_points_on_each_side=3, truncation_probability=0.99999), [
            ("h:numpy-float", lambda: S.CTMCGridGeometric(h=f64(H), model=model, nb_of_points_on_each_side=3, truncation_probability=0.99999)),
            ("n:numpy-int", lambda: S.CTMCGridGeometric(h=H, model=model, nb_of_points_on_each_side=i64(3), truncation_probability=0.99999)),
            ("p:default", lambda: S.CTMCGridGeometric(h=H, model=model, nb_of_points_on_each_side=3)),
            ("positional", lambda: S.CTMCGridGeometric(H, model, 3, 0.99999))]),
        "probability": (lambda: S.CTMCGridProbabilityStep(h=H, model=model, minimum_probability_step=0.2, dimension=1), [
            ("h:numpy-float", lambda: S.CTMCGridProbabilityStep(h=f64(H), model=model, minimum_probability_step=0.2, dimension=1)),
            ("pmin:numpy-float", lambda: S.CTMCGridProbabilityStep(h=H, model=model, minimum_probability_step=f64(0.2), dimension=1)),
            ("dimension:default", lambda: S.CTMCGridProbabilityStep(h=H, model=model, minimum_probability_step=0.2)),
            ("positional", lambda: S.CTMCGridProbabilityStep(H, model, 0.2, 1))]),
        "custom": (lambda: custom(), [
            ("h:numpy-float", lambda: custom(h=f64(H))), ("origin:numpy-int", lambda: custom(o=i64(2))),
            ("positional", lambda: custom(positional=True))] + ([("h:int", lambda: custom(h=int(H)))] if ints else [])),
    }
    if l < a < -H:
        menu["credit"] = (lambda: S.CTMCCredit(h=H, level_a=a, model=model, symmetric_grid=True), [
            ("h:numpy-float", lambda: S.CTMCCredit(h=f64(H), level_a=a, model=model, symmetric_grid=True)),
            ("level:numpy-float", lambda: S.CTMCCredit(h=H, level_a=f64(a), model=model, symmetric_grid=True)),
            ("symmetric:default", lambda: S.CTMCCredit(h=H, level_a=a, model=model)),
            ("positional", lambda: S.CTMCCredit(H, a, model, True))]
            + ([("level:int", lambda: S.CTMCCredit(h=H, level_a=int(a), model=model, symmetric_grid=True))] if ints and a == int(a) else []))
    return menu


def _forms1d(sh, case):
    from rpylib.distribution import samplingfactory as SF
    from rpylib.distribution.sampling import SamplingMethod
    from rpylib.process.markovchain.markovchain import MarkovChainProcess

    spec = case["model"]
    H, ints = case["h"], case["ints"]
    fam = _family_class(spec) + (":big-jumps" if ints else "")
    model = _make_model(spec)
    ref_model = _reference_model_1d(spec, model)
    sh.cls("forms:1d")
    model_before = _fingerprint_1d(model)

    def light(g):
        g = g[0] if isinstance(g, tuple) else g
        a = _light_summary_1d(model, g)
        g.refine()
        b = _light_summary_1d(model, g)
        return {"axis": a["axis"] + b["axis"], "h": a["h"] + b["h"], "origin": (a["origin"], b["origin"]),
                "intensity": a["intensity"], "q": a["q"] + b["q"]}

    # ---- (1) forms of the arguments of the grid constructors; the usual form also gets the complete oracle
    usual_grids = {}
    for kind, (usual, forms) in _grid_forms_1d(model, H, ints).items():
        key = f"C01:forms:grid-constructor:{kind}"
        try:
            g = usual()
            g = g[0] if isinstance(g, tuple) else g
        except Exception as e:  # noqa
            sh.violation(f"{key}:usual-form:raises-{type(e).__name__}:{fam}", f"{e!r}"[:300], None)
            continue
        pseudo = {"model": spec, "grid": {"kind": kind, "refine": 0}}
        _oracle_1d(sh, pseudo, model, g, f"{kind}:{fam}", refine=0, ref_model=ref_model)
        usual_grids[kind] = g
        g = usual()
        base = light(g)
        for label, form in forms:
            got = _forms_compare(sh, f"{key}:{label}:{fam}", f"{kind} grid, {label}", form, base, light)
            sh.cls(f"form:{label.split(':')[-1] if ':' in label else label}")
            if isinstance(got, tuple):
                _holders_untouched(sh, f"{key}:{label}:{fam}", f"{kind} grid, {label}", got[1], got[0])
    # the base-class constructor keeps the caller's axis arrays (unchanged library: a reference): building chains on the grid
    # and refining it must not modify them
    try:
        from rpylib.grid import spatial as S

        ax = np.array([m * H for m in (-3.0, -1.0, 0.0, 1.0, 2.0, 4.0)])
        keep_ax = ax.copy()
        g = S.CTMCGrid(h=H, origin_coordinate=2, axes=[ax])
        for meth in METHODS_1D:
            MarkovChainProcess(model=model, method=SamplingMethod[meth], grid=g)
        g.refine()
        for meth in METHODS_1D:
            MarkovChainProcess(model=model, method=SamplingMethod[meth], grid=g)
        sh.count("evaluations")
        if not np.array_equal(ax, keep_ax):
            sh.violation(f"C01:forms:grid-constructor:custom:modifies-the-callers-axis-array:{fam}",
                         f"axis array handed to CTMCGrid is {ax!r} after chains were built and the grid refined, was {keep_ax!r}", None)
    except Exception as e:  # noqa
        sh.violation(f"C01:forms:grid-constructor:custom:raises-{type(e).__name__}:{fam}", f"{e!r}"[:300], None)

    # ---- (2) forms of the arguments of the calls the check (and the library) makes on a chain
    grid = usual_grids.get("uniform") or usual_grids.get("fixed")
    if grid is None:
        return
    axis = [float(x) for x in grid.axes[0]]
    o = int(grid.origin_coordinate.value)
    n = len(axis)
    idx = [k for k in range(n) if k != o]
    bounds, _ok = _ref_bounds(axis, o)
    procs = {}
    for meth in METHODS_1D:
        try:
            procs[meth] = MarkovChainProcess(model=model, method=SamplingMethod[meth], grid=grid)
        except Exception as e:  # noqa
            sh.violation(f"C01:chain1d:{meth}:constructor-raises-{type(e).__name__}:uniform:{fam}", f"{e!r}"[:300], None)
            return
    lam = float(procs["INVERSION"].intensity_of_jumps)
    pm = procs["INVERSION"].model
    f64 = np.float64

    def differs(key, what, usual, others):
        for label, thunk in others:
            sh.count("evaluations")
            try:
                v = float(thunk())
            except Exception as e:  # noqa
                sh.violation(f"{key}:{label}:raises-{type(e).__name__}:{fam}", f"{what}, {label}: {e!r}"[:300], None)
                continue
            if not _close_same(v, usual, lam):
                sh.violation(f"{key}:{label}:differs-from-the-usual-form:{fam}", f"{what}: usual form {usual!r}, {label} {v!r}", None)

    for k in idx:
        a, b = bounds[k], bounds[k + 1]
        la, lb, aa, ab = [a], [b], np.array([a]), np.array([b])
        differs("C01:forms:model.mass", f"mass of the cell of state {k}", float(pm.mass(a, b)), [
            ("numpy-floats", lambda: pm.mass(f64(a), f64(b))), ("tuples", lambda: pm.mass((a,), (b,))), ("lists", lambda: pm.mass(la, lb)),
            ("arrays", lambda: pm.mass(aa, ab)), ("keywords", lambda: pm.mass(a=a, b=b)), ("keyword-tuples", lambda: pm.mass(a=(a,), b=(b,)))])
        sh.count("evaluations")
        if la != [a] or lb != [b] or aa[0] != a or ab[0] != b:
            sh.violation(f"C01:forms:model.mass:modifies-the-callers-argument:{fam}", f"cell ({a!r}, {b!r}): {la}, {lb}, {aa}, {ab} after the call", None)
        fj = getattr(procs["INVERSION"].sampling, "probability_to_jump_to_state", None)
        if fj is not None:
            differs("C01:forms:probability_to_jump_to_state", f"state {k}", float(fj(k - o)), [
                ("numpy-int64", lambda: fj(np.int64(k - o))), ("numpy-int32", lambda: fj(np.int32(k - o))), ("numpy-intp", lambda: fj(np.intp(k - o)))])
        cp = getattr(procs["BINARYSEARCHTREEADAPTED1D"].sampling, "_compute_probability", None)
        if cp is not None:
            # numpy floats first: a cache keyed on the arguments must not depend on their type either
            v64 = float(cp(f64(a), f64(b)))
            differs("C01:forms:adapted-tree-1d._compute_probability", f"cell of state {k}", float(pm.mass(a, b)) / lam, [
                ("numpy-floats", lambda: v64), ("floats", lambda: cp(a, b))])
    differs("C01:forms:compute_intensity_of_jumps", "intensity", lam, [
        ("keywords", lambda: SF.compute_intensity_of_jumps(model=pm, grid=grid)), ("positional", lambda: SF.compute_intensity_of_jumps(pm, grid))])
    try:
        q1 = np.asarray(SF.create_q_vector(levy_measure=pm.levy_triplet.nu, grid=grid), dtype=float)
        q2 = np.asarray(SF.create_q_vector(pm.levy_triplet.nu, grid), dtype=float)
        sh.count("evaluations")
        if q1.tolist() != q2.tolist():
            sh.violation(f"C01:forms:create_q_vector:keywords:differs-from-the-usual-form:{fam}", "keyword and positional calls differ", None)
    except Exception as e:  # noqa
        sh.violation(f"C01:forms:create_q_vector:keywords:raises-{type(e).__name__}:{fam}", f"{e!r}"[:300], None)

    # ---- (3) copies: copy.copy, copy.deepcopy, dill round trip of the grid, the model and every chain answer like the
    # original; advancing the (deep / dill) copy - refine() its grid, re-parametrise its model - leaves the original alone
    base = _light_summary_1d(model, grid)
    refined = None
    for cname, cpf in _copiers():
        sh.cls(f"copies:{cname}")
        key = f"C01:copies:{cname}"
        try:
            g2, m2 = cpf(grid), cpf(model)
            _compare_summaries(sh, f"{key}:grid:chain-on-the-copy-differs:{fam}", f"{cname} of the grid", _light_summary_1d(model, g2), base)
            _compare_summaries(sh, f"{key}:model:chain-on-the-copy-differs:{fam}", f"{cname} of the model", _light_summary_1d(m2, grid), base)
            _compare_summaries(sh, f"{key}:grid+model:chain-on-the-copies-differs:{fam}", f"{cname} of grid and model", _light_summary_1d(m2, g2), base)
            if cname != "copy":
                g2.refine()
                after = _light_summary_1d(m2, g2)
                if refined is None:
                    gr = _dill_free_fresh(grid)
                    refined = _light_summary_1d(model, gr) if gr is not None else after
                _compare_summaries(sh, f"{key}:grid:refined-copy-differs-from-the-refined-original:{fam}", f"{cname} of the grid, refined", after, refined)
                _reparametrise_callers_model(m2, spec["family"])
                _compare_summaries(sh, f"{key}:grid+model:original-changes-when-the-copy-is-advanced:{fam}",
                                   f"{cname} of grid and model refined / re-parametrised, chain on the originals", _light_summary_1d(model, grid), base)
            for meth, p in procs.items():
                pb = _proc_summary_1d(p)
                p2 = cpf(p)
                _compare_summaries(sh, f"{key}:chain:{meth}:copy-differs:{fam}", f"{cname} of the {meth} chain", _proc_summary_1d(p2), pb)
                if cname != "copy":
                    p2.grid.refine()
                    p2.model.truncate_levy_measure(truncations=(-1e-3, 1e-3))
                    _compare_summaries(sh, f"{key}:chain:{meth}:original-changes-when-the-copy-is-advanced:{fam}",
                                       f"{cname} of the {meth} chain, its grid refined and its model truncated; the original chain", _proc_summary_1d(p), pb)
        except Exception as e:  # noqa
            sh.violation(f"{key}:raises-{type(e).__name__}:{fam}", f"{e!r}"[:300], None)
    _arguments_untouched(sh, "copies-and-argument-forms", f"uniform:{fam}", grid, _grid_snapshot(grid), _fingerprint_1d(model), model_before)
    sh.nontriv()
    sh.count("configurations")


def _dill_free_fresh(grid):
    """a grid equal to `grid` refined once, made without the copy modules: the same class re-built from the public attributes
    through the base-class constructor (refine() only needs middle(), which the probability-step grid overrides: not used for it)"""
    from rpylib.grid import spatial as S

    if any("middle" in vars(k) for k in type(grid).__mro__ if k is not S.CTMCGrid and issubclass(k, S.CTMCGrid)):
        return None
    g = S.CTMCGrid(h=grid.h, origin_coordinate=int(list(grid.origin_coordinate)[0]), axes=[np.array(ax, dtype=float) for ax in grid.axes])
    g.refine()
    return g


def _light_nd(sh, case, model, grid):
    from rpylib.distribution.sampling import SamplingMethod
    from rpylib.process.markovchain.markovchainlevycopula import MarkovChainLevyCopula

    if math.prod(len(ax) for ax in grid.axes) > 50_000:
        # never on the unchanged library (the grids of the forms menus have at most 21 points per axis)
        sh.count("grid-too-large-for-a-summary")
        return None
    ctx = _CopulaCtx(sh, case, model=model, grid=grid, ref_model=model)
    if not ctx.ok:
        return None
    with _no_vol_adjustment_pool():
        p = MarkovChainLevyCopula(levy_copula_model=model, grid=grid, method=SamplingMethod.INVERSION)
    return {"axes": [[x.hex() for x in ax] for ax in ctx.axes], "h": float(grid.h).hex(), "origin": list(ctx.orig),
            "intensity": float(p.intensity_of_jumps), "mass": [float(p.model.mass(*ctx.cell(idx))) for idx in ctx.states()]}


def _proc_summary_nd(sh, case, p):
    if math.prod(len(ax) for ax in p.grid.axes) > 50_000:
        sh.count("grid-too-large-for-a-summary")
        return None
    ctx = _CopulaCtx(sh, case, model=p.model, grid=p.grid, ref_model=p.model)
    out = {"axes": [[x.hex() for x in ax] for ax in ctx.axes], "h": float(p.grid.h).hex(), "origin": list(ctx.orig),
           "intensity": float(p.intensity_of_jumps), "mass": [float(p.model.mass(*ctx.cell(idx))) for idx in ctx.states()]}
    f = getattr(p.sampling, "probability_to_jump_to_state", None)
    if f is not None:
        out["q"] = [float(f(tuple(k - o for k, o in zip(idx, ctx.orig)))) * out["intensity"] for idx in ctx.states()]
    bp = getattr(p.sampling, "_buckets_probabilities", None)
    if bp is not None:
        out["q"] = [float(x) * out["intensity"] for x in bp]
    return out


def _formsnd(sh, case):
    from rpylib.distribution.sampling import SamplingMethod
    from rpylib.grid import spatial as S
    from rpylib.process.markovchain.markovchainlevycopula import MarkovChainLevyCopula

    spec = case["model"]
    H = case["h"]
    d = len(spec["margins"])
    ck = _copula_class(spec)
    tag = f"d={d}:{ck}"
    model = _make_copula_model(spec)
    sh.cls(f"forms:{d}d")
    model_before = _fingerprint_nd(model)
    f64, i64 = np.float64, np.int64
    l, r = S.compute_truncation(model=model, h=H)
    levels = [float(f * l) for f in [0.5, 0.3, 0.4][:d]]
    B = (-0.7, 0.4)
    pseudo = dict(case, exp=False, grid={"kind": "fixed", "refine": 0})

    def light(g):
        g = g[0] if isinstance(g, tuple) else g
        return _light_nd(sh, pseudo, model, g)

    def credit(a):
        g = S.CTMCCredit(h=H, level_a=a, model=model, symmetric_grid=False)
        return (g, [(a, a.copy())]) if isinstance(a, (list, np.ndarray)) else g

    def gb(t):
        g = S.CTMCGridGeometric.create_with_bounds(h=H, truncations=t, dimension=d, nb_of_points_on_each_side=2)
        return (g, [(t, t.copy())]) if isinstance(t, (list, np.ndarray)) else g

    menu = {
        "fixed": (lambda: S.CTMCUniformGrid.create_from_fixed_nb_of_points(h=H, nb_of_points=3, dimension=d), [
            ("h:numpy-float", lambda: S.CTMCUniformGrid.create_from_fixed_nb_of_points(h=f64(H), nb_of_points=3, dimension=d)),
            ("n:numpy-int", lambda: S.CTMCUniformGrid.create_from_fixed_nb_of_points(h=H, nb_of_points=i64(3), dimension=d)),
            ("n:even", lambda: S.CTMCUniformGrid.create_from_fixed_nb_of_points(h=H, nb_of_points=2, dimension=d)),
            ("dimension:numpy-int", lambda: S.CTMCUniformGrid.create_from_fixed_nb_of_points(h=H, nb_of_points=3, dimension=i64(d))),
            ("positional", lambda: S.CTMCUniformGrid.create_from_fixed_nb_of_points(H, 3, d))]),
        "geometric-bounds": (lambda: gb(B), [("bounds:list", lambda: gb(list(B))), ("bounds:float-array", lambda: gb(np.array(B))),
                                              ("bounds:numpy-floats", lambda: gb((f64(B[0]), f64(B[1])))),
                                              ("positional", lambda: S.CTMCGridGeometric.create_with_bounds(H, B, d, 2))]),
        "uniform": (lambda: S.CTMCUniformGrid(h=0.2, model=model, truncation_probability=0.99999), [
            ("h:numpy-float", lambda: S.CTMCUniformGrid(h=f64(0.2), model=model, truncation_probability=0.99999)),
            ("p:default", lambda: S.CTMCUniformGrid(h=0.2, model=model)), ("positional", lambda: S.CTMCUniformGrid(0.2, model, 0.99999))]),
    }
    if all(l < a < -H - 1e-12 for a in levels):
        menu["credit"] = (lambda: credit(list(levels)), [
            ("levels:tuple", lambda: credit(tuple(levels))), ("levels:array", lambda: credit(np.array(levels))),
            ("levels:numpy-floats", lambda: credit([f64(a) for a in levels])),
            ("positional", lambda: S.CTMCCredit(H, list(levels), model, False))])
    grid = None
    for kind, (usual, forms) in menu.items():
        key = f"C01:forms:grid-constructor:{kind}"
        try:
            g = usual()
            holders = g[1] if isinstance(g, tuple) else []
            g = g[0] if isinstance(g, tuple) else g
            base = light(g)
        except Exception as e:  # noqa
            sh.violation(f"{key}:usual-form:raises-{type(e).__name__}:{tag}", f"{e!r}"[:300], None)
            continue
        if holders:
            _holders_untouched(sh, f"{key}:usual-form:{tag}", f"{kind} grid", holders, g)
        if kind == "fixed":
            grid = g
        for label, form in forms:
            got = _forms_compare(sh, f"{key}:{label}:{tag}", f"{kind} grid, {label}", form, base, light)
            sh.cls(f"form:{label.split(':')[-1] if ':' in label else label}")
            if isinstance(got, tuple):
                _holders_untouched(sh, f"{key}:{label}:{tag}", f"{kind} grid, {label}", got[1], got[0])
    if grid is None:
        return
    # ---- calls on a chain
    ctx = _CopulaCtx(sh, pseudo, model=model, grid=grid, ref_model=model)
    procs = {}
    with _no_vol_adjustment_pool():
        for meth in METHODS_ND:
            try:
                procs[meth] = MarkovChainLevyCopula(levy_copula_model=model, grid=grid, method=SamplingMethod[meth])
            except Exception as e:  # noqa
                sh.violation(f"C01:copula:{meth}:constructor-raises-{type(e).__name__}:fixed:{tag}", f"{e!r}"[:300], None)
                return
    lam = float(procs["INVERSION"].intensity_of_jumps)
    pm = procs["INVERSION"].model

    def differs(key, what, usual, others):
        for label, thunk in others:
            sh.count("evaluations")
            try:
                v = float(thunk())
            except Exception as e:  # noqa
                sh.violation(f"{key}:{label}:raises-{type(e).__name__}:{tag}", f"{what}, {label}: {e!r}"[:300], None)
                continue
            if not core.close(v, usual, rtol=1e-12, atol=1e-15 * lam):
                sh.violation(f"{key}:{label}:differs-from-the-usual-form:{tag}", f"{what}: usual form {usual!r}, {label} {v!r}", None)

    fj = getattr(procs["INVERSION"].sampling, "probability_to_jump_to_state", None)
    cp = getattr(procs["BINARYSEARCHTREEADAPTED"].sampling, "_compute_probability", None)
    for idx in ctx.states():
        a, b = ctx.cell(idx)
        la, lb, aa, ab = list(a), list(b), np.array(a), np.array(b)
        differs("C01:forms:model.mass", f"mass of the cell of state {idx}", float(pm.mass(a, b)), [
            ("lists", lambda: pm.mass(la, lb)), ("arrays", lambda: pm.mass(aa, ab)), ("keywords", lambda: pm.mass(a=a, b=b)),
            ("numpy-floats", lambda: pm.mass(tuple(f64(x) for x in a), tuple(f64(x) for x in b)))])
        sh.count("evaluations")
        if la != list(a) or lb != list(b) or aa.tolist() != list(a) or ab.tolist() != list(b):
            sh.violation(f"C01:forms:model.mass:modifies-the-callers-argument:{tag}", f"cell {a!r}..{b!r}: {la}, {lb}, {aa}, {ab} after the call", None)
        inc = tuple(k - o for k, o in zip(idx, ctx.orig))
        if fj is not None:
            linc, ainc = list(inc), np.array(inc)
            differs("C01:forms:probability_to_jump_to_state", f"state {idx}", float(fj(inc)), [
                ("list", lambda: fj(linc)), ("array", lambda: fj(ainc)), ("numpy-ints", lambda: fj(tuple(np.int64(x) for x in inc)))])
            sh.count("evaluations")
            if linc != list(inc) or ainc.tolist() != list(inc):
                sh.violation(f"C01:forms:probability_to_jump_to_state:modifies-the-callers-argument:{tag}", f"increment {inc}: {linc}, {ainc} after the call", None)
        if cp is not None:
            v64 = float(cp(tuple(f64(x) for x in a), tuple(f64(x) for x in b)))
            differs("C01:forms:adapted-tree._compute_probability", f"cell of state {idx}", float(pm.mass(a, b)) / lam, [
                ("numpy-floats", lambda: v64), ("floats", lambda: cp(a, b))])
    # ---- copies
    base = light(grid)
    for cname, cpf in _copiers():
        sh.cls(f"copies:{cname}")
        key = f"C01:copies:{cname}"
        try:
            g2, m2 = cpf(grid), cpf(model)
            _compare_summaries(sh, f"{key}:grid:chain-on-the-copy-differs:{tag}", f"{cname} of the grid", _light_nd(sh, pseudo, model, g2), base)
            _compare_summaries(sh, f"{key}:model:chain-on-the-copy-differs:{tag}", f"{cname} of the copula model", _light_nd(sh, pseudo, m2, grid), base)
            if cname != "copy":
                g2.refine()
                _light_nd(sh, pseudo, m2, g2)
                m2.truncate_levy_measure(truncations=[(-1e-3, 1e-3)] * d)
                for name, mm in zip(spec["margins"], m2.models):
                    _reparametrise_callers_model(mm, A.MARGINS[name]["family"])
                _compare_summaries(sh, f"{key}:grid+model:original-changes-when-the-copy-is-advanced:{tag}",
                                   f"{cname} of grid and copula model refined / re-parametrised, chain on the originals", light(grid), base)
            for meth, p in procs.items():
                pb = _proc_summary_nd(sh, pseudo, p)
                with _no_vol_adjustment_pool():
                    p2 = cpf(p)
                _compare_summaries(sh, f"{key}:chain:{meth}:copy-differs:{tag}", f"{cname} of the {meth} chain", _proc_summary_nd(sh, pseudo, p2), pb)
                if cname != "copy":
                    p2.grid.refine()
                    _compare_summaries(sh, f"{key}:chain:{meth}:original-changes-when-the-copy-is-advanced:{tag}",
                                       f"{cname} of the {meth} chain, its grid refined; the original chain", _proc_summary_nd(sh, pseudo, p), pb)
        except Exception as e:  # noqa
            sh.violation(f"{key}:raises-{type(e).__name__}:{tag}", f"{e!r}"[:300], None)
    _arguments_untouched(sh, "copies-and-argument-forms", f"fixed:{tag}", grid, _grid_snapshot(grid), _fingerprint_nd(model), model_before)
    sh.nontriv()
    sh.count("configurations")


# ----------------------------------------------------------------------------------------------------------------------
# copula chains with more points per axis than can be enumerated: a stated sub-lattice of the states, every bucket
# ----------------------------------------------------------------------------------------------------------------------

def _copula_large(sh, case):
    """2-d, fixed grids with 513 and 5001 points per axis (above 255 / above the 10 000-point threshold under which the adapted
    tree pre-computes the states of the axes). Alphabet: the states whose index on every axis is one of the three first, the
    three last or within 2 of the origin index (120 non-origin states), and every bucket of the adapted tree. Oracle: rate of
    a state = reference rectangle mass of its cell (model.mass, inversion where the sampler is built - its constructor
    enumerates the frontier of the domain: 513 only -, the tree's _compute_probability); bucket probability x lambda =
    reference mass of the bucket's rectangle; sum of the buckets = intensity of every process = compute_intensity_of_jumps =
    reference mass of the complement of the central cell."""
    from rpylib.distribution import samplingfactory as SF
    from rpylib.distribution.sampling import SamplingMethod
    from rpylib.process.markovchain.markovchainlevycopula import MarkovChainLevyCopula

    case = dict(case, exp=False)
    ck = _copula_class(case["model"])
    npts = case["grid"]["n"]
    tag = f"fixed:d=2:{ck}:{npts}-points-per-axis"
    ctx = _CopulaCtx(sh, case)
    if not ctx.ok or ctx.d != 2:
        sh.count("malformed-grid-skipped")
        return
    sh.cls(f"large:2d:{npts}")
    grid, model = ctx.grid, ctx.model
    methods = METHODS_ND if npts <= 1000 else ["BINARYSEARCHTREEADAPTED"]
    procs = {}
    with _no_vol_adjustment_pool():
        for meth in methods:
            try:
                procs[meth] = MarkovChainLevyCopula(levy_copula_model=model, grid=grid, method=SamplingMethod[meth])
            except Exception as e:  # noqa
                sh.violation(f"C01:copula:{meth}:constructor-raises-{type(e).__name__}:{tag}", f"{e!r}"[:300], None)
    if not procs:
        return
    p0 = next(iter(procs.values()))
    lam = float(p0.intensity_of_jumps)
    sh.outcome((lam.hex(), npts))
    sub = []
    for ax, o in zip(ctx.axes, ctx.orig):
        n = len(ax)
        sub.append(sorted({0, 1, 2, o - 2, o - 1, o, o + 1, o + 2, n - 3, n - 2, n - 1}))
    states = [idx for idx in itertools.product(*sub) if list(idx) != ctx.orig]
    ref = {idx: float(O.ref_rectangle_mass(ctx.copula, ctx.nus, *ctx.cell(idx))) for idx in states}
    S = {idx: ctx.scale(idx) for idx in states}
    routes = {"model.mass": {idx: float(p0.model.mass(*ctx.cell(idx))) for idx in states}}
    if "INVERSION" in procs:
        f = getattr(procs["INVERSION"].sampling, "probability_to_jump_to_state", None)
        if f is not None:
            lam_i = float(procs["INVERSION"].intensity_of_jumps)
            routes["inversion"] = {idx: float(f(tuple(k - o for k, o in zip(idx, ctx.orig)))) * lam_i for idx in states}
    tree = procs.get("BINARYSEARCHTREEADAPTED")
    if tree is not None:
        s = tree.sampling
        lam_t = float(getattr(s, "intensity_of_jumps", tree.intensity_of_jumps))
        cp = getattr(s, "_compute_probability", None)
        if cp is not None:
            routes["adapted-tree"] = {idx: float(cp(*ctx.cell(idx))) * lam_t for idx in states}
        bp, bc = getattr(s, "_buckets_probabilities", None), getattr(s, "_buckets_coordinates", None)
        cum = getattr(s, "_precomputed_cum_p_for_axes", None)
        if bp is None or bc is None:
            sh.count("adapted-tree-buckets-not-observable")
        else:
            total = 0.0
            seen = set()
            for j, (p, coords) in enumerate(zip(bp, bc)):
                lo = tuple(ctx.bounds[i][int(c[0])] for i, c in enumerate(coords))
                hi = tuple(ctx.bounds[i][int(c[1]) + 1] for i, c in enumerate(coords))
                want = float(O.ref_rectangle_mass(ctx.copula, ctx.nus, lo, hi))
                total += float(p) * lam_t
                shape = "".join("c" if (c[0] == c[1] == o) else ("l" if c[1] < o else "r") for c, o in zip(coords, ctx.orig))
                seen.add(shape)
                sb = max((abs(u) for i, c in enumerate(coords) if not (c[0] == c[1] == ctx.orig[i])
                          for u in (ctx.U[i][int(c[0])], ctx.U[i][int(c[1]) + 1])), default=0.0)
                sh.count("evaluations")
                if not core.close(float(p) * lam_t, want, rtol=1e-9, atol=1e-12 * sb):
                    sh.violation(f"C01:copula:adapted-tree:bucket-mass-differs-from-reference-mass-of-its-rectangle:{shape}:{tag}",
                                 f"bucket {coords!r}: probability*lambda = {float(p) * lam_t!r}, reference mass of {lo!r}..{hi!r} = {want!r}",
                                 {"bucket": coords, "observed": float(p) * lam_t, "expected": want})
                if cum is not None and j in cum:
                    ps = np.diff(np.concatenate(([0.0], np.asarray(cum[j], dtype=float))))
                    axis_nb = next(i for i, c in enumerate(coords) if c[0] != c[1])
                    if len(ps) != int(coords[axis_nb][1]) - int(coords[axis_nb][0]) + 1:
                        sh.violation(f"C01:copula:adapted-tree:axis-bucket-has-wrong-number-of-states:{shape}:{tag}",
                                     f"bucket {coords!r}: {len(ps)} cumulative probabilities", None)
                    else:
                        for idx in states:
                            if all(int(c[0]) <= k <= int(c[1]) for k, c in zip(idx, coords)):
                                pj = float(ps[idx[axis_nb] - int(coords[axis_nb][0])])
                                sh.count("evaluations")
                                if not core.close(pj * lam_t, ref[idx], rtol=1e-9, atol=1e-12 * S[idx] + 4 * EPS * lam):
                                    sh.violation(f"C01:copula:adapted-tree:axis-state-probability-differs-from-reference-rate:{shape}:{tag}",
                                                 f"state {idx}: increment of _precomputed_cum_p_for_axes * lambda = {pj * lam_t!r}, reference mass {ref[idx]!r}", None)
            sh.count("evaluations")
            if len(seen) != 8 or len(bp) != 8:
                sh.violation(f"C01:tiling:adapted-tree:buckets-are-not-the-8-blocks-around-the-central-cell:{tag}", f"{len(bp)} buckets of shapes {sorted(seen)}", None)
            if not core.close(total, lam, rtol=1e-9):
                sh.violation(f"C01:sum:copula:adapted-tree-buckets:sum-differs-from-intensity:{tag}", f"sum {total!r}, intensity {lam!r}", None)
    compared = 0
    for name, r in routes.items():
        for idx in states:
            v = r[idx]
            pos = "on-axis" if any(k == o for k, o in zip(idx, ctx.orig)) else "off-axis"
            sh.count("evaluations")
            if not math.isfinite(v) or v < -1e-13 * S[idx]:
                sh.violation(f"C01:copula:{name}:negative-rate:{pos}:{tag}", f"state {idx}: rate {v!r}", None)
            want = max(ref[idx], 0.0) if name == "inversion" else ref[idx]
            compared += 1
            if not core.close(v, want, rtol=1e-9, atol=1e-12 * S[idx]):
                sh.violation(f"C01:copula:{name}:rate-differs-from-reference-rectangle-mass:{pos}:{tag}",
                             f"state {idx} cell {ctx.cell(idx)!r}: rate {v!r}, reference mass {ref[idx]!r}", {"state": idx, "rate": v, "reference": ref[idx]})
    for meth, p in procs.items():
        sh.count("evaluations")
        if not _close_same(float(p.intensity_of_jumps), lam, lam):
            sh.violation(f"C01:intensity:copula-process:depends-on-the-sampling-method:{tag}", f"{meth}: {float(p.intensity_of_jumps)!r} vs {lam!r}", None)
    try:
        lam2 = float(SF.compute_intensity_of_jumps(model=p0.model, grid=grid))
        sh.count("evaluations")
        if not _close_same(lam2, lam, lam):
            sh.violation(f"C01:intensity:compute_intensity_of_jumps:differs-from-process:{tag}", f"{lam2!r} vs {lam!r}", None)
    except Exception as e:  # noqa
        sh.violation(f"C01:intensity:compute_intensity_of_jumps:raises-{type(e).__name__}:{tag}", f"{e!r}"[:300], None)
    # reference intensity: the 8 blocks around the central cell
    parts = []
    for i in range(2):
        bs, o = ctx.bounds[i], ctx.orig[i]
        parts.append([(bs[o], bs[o + 1]), (bs[0], bs[o]), (bs[o + 1], bs[-1])])
    blocks = list(itertools.product(*parts))[1:]
    ref_total = sum(float(O.ref_rectangle_mass(ctx.copula, ctx.nus, tuple(c[0] for c in combo), tuple(c[1] for c in combo))) for combo in blocks)
    sh.count("evaluations")
    s_max = max(abs(u) for i in range(2) for u in (ctx.U[i][ctx.orig[i]], ctx.U[i][ctx.orig[i] + 1]))
    if not core.close(lam, ref_total, rtol=1e-9, atol=1e-12 * s_max):
        sh.violation(f"C01:intensity:copula-process:differs-from-reference-mass-outside-the-central-cell:{tag}",
                     f"intensity_of_jumps {lam!r}, reference mass of the 8 blocks {ref_total!r}", None)
    if compared:
        sh.nontriv()
    sh.count("states", len(states))
    sh.count("configurations")


# ----------------------------------------------------------------------------------------------------------------------

REQUIRED_CLASSES = (
    [f"method:1d:{m}" for m in METHODS_1D] + [f"method:{d}d:{m}" for d in (2, 3) for m in METHODS_ND]
    + [f"grid:{g}" for g in ("uniform", "fixed", "geometric", "geometric-bounds", "probability", "credit")]
    + [f"grid:{g}:d={d}" for d in (2, 3) for g in ("uniform", "fixed", "credit")]
    + [f"refine:{k}" for k in range(4)] + [f"refine:{k}:d={d}" for d in (2, 3) for k in range(2)]
    + ["measure:finite-activity", "measure:infinite-activity-finite-variation", "measure:infinite-variation",
       "axes:identical", "axes:different-per-coordinate", "density:same-signs:fixed", "density:opposite-signs:fixed",
       "history:1d:direct", "history:1d:next_level", "history:2d:direct", "history:2d:next_level", "history:3d:direct",
       "history:1d:model-reuse", "history:2d:model-reuse", "history:3d:model-reuse",
       "history:1d:engine-levels", "history:2d:engine-levels", "history:1d:direct:deep", "history:1d:next_level:deep",
       "route:reinit:copula:d=2", "route:reinit:copula:d=3",
       "grid:custom", "grid:custom:d=2", "size:one-state-on-one-half-axis", "size:more-than-256-states", "size:more-than-32768-states",
       "refine:4", "refine:5", "refine:6", "refine:2:d=2", "refine:3:d=2", "large:2d:513", "large:2d:5001",
       "regime:narrow-cells", "narrow:cell-narrower-than-1e-8", "narrow:cell-narrower-than-1e-5-of-its-abscissa",
       "regime:narrow-cells:d=2", "regime:narrow-cells:d=3",
       "forms:1d", "forms:2d", "forms:3d", "copies:copy", "copies:deepcopy", "copies:dill",
       "form:int", "form:numpy-float", "form:numpy-int", "form:positional", "form:list", "form:float-array", "form:int-array"]
    + [f"route:{v}:{f}" for f in ("hem", "merton", "vg", "cgmy") for v in ("reinit", "cycled")]
)


def post(total, tier):
    """coverage self-check: a run that skipped a whole class of configurations must not pass silently"""
    for c in REQUIRED_CLASSES:
        if c not in total.classes:
            total.violation(f"C01:self-check:coverage:class-not-visited:{c}", f"no configuration of class {c} was checked in tier {tier}", None)
    if total.counters.get("malformed-grid-skipped", 0):
        total.note(f"{total.counters['malformed-grid-skipped']} configurations skipped because the grid was malformed (see C13)")


def check_case(sh, case):
    with warnings.catch_warnings():
        warnings.simplefilter("ignore")
        with np.errstate(all="ignore"):
            {"chain1d": _chain1d, "copula": _copula, "density": _density, "history1d": _history1d,
             "historynd": _historynd, "forms1d": _forms1d, "formsnd": _formsnd, "copula-large": _copula_large}[case["sub"]](sh, case)
