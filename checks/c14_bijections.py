"""C14 - index/state enumerations are bijections: every admissible state exactly once.

Alphabet / bound / oracle per sub-check (all complete enumerations of the stated ranges):

 range     every 2-d pairing: all z < Z and all (x,y) in an S x S square, both round trips, plus injectivity on the square
           Rosenberg-Strong d=3: all z < Z3 and an S3^3 cube.  hyperbolic pairing on a smaller range (it factorises).
 powers    z = m^2+delta, m^3+delta for delta in -2..2 and m near powers of 10 / powers of 2 / floor(sqrt(2^53)) / the
           library's own size limit (an axis may have 1e8 points => mapped coordinates up to 2e8)
 zd        PairingToZd (omit zero on/off, d=2 Szudzik/RosenbergStrong/Cantor..., d=3 RosenbergStrong): every state of a
           box [-n,n]^d is hit exactly once by project over indices < (2n+1)^d (those pairings that enumerate square shells),
           pair o project = id on all indices, project o pair = id on all states of the box
 z1d       PairingToZ1d: all 1 <= L,R <= N; increasing enumeration is a bijection onto [-L,R]\\{0}, pair inverts it;
           explicit-state search over call orders (history of project(i) calls on one object), invariant
           project(i | history) = reference(i); canonical state = (_switch, _kk, frozenset(cached indices -> value))
 lazy      lazy_indices_product(sizes) for every size tuple of length <= 4 with entries 1..4 == itertools.product (as list:
           exactly once each; the order is also compared and reported under a separate key)
 states    StatesManager.project_index_to_state_increment over increasing indices, for 1-d grids (L,R) <= 5 and 2-d / 3-d
           grids with per-axis (left,right) sizes <= 2/3: every in-grid non-origin state exactly once, then exhaustion;
           also through a fresh InversionMethod: u=1-2^-53 forces the complete enumeration and the stored states are compared.
"""
from __future__ import annotations

import itertools
import math

import numpy as np

from mc import core

PID = "C14"
LEVEL = "model_checking"
RULE = (
    "complete ranges of indices and coordinate tuples, complete products of interval shapes / size tuples / grid shapes, "
    "and BFS over call orders of the stateful 1-d projection; a case is non-trivial when it compares at least one "
    "round trip / enumeration against the reference (itertools / explicit list); distinct = distinct case dict"
)
ASSUMPTIONS = [
    "ranges are bounded as stated in the evidence counters; near-perfect-power probes cover the library's own size limit",
    "z1d call-order search: the menu is every index of the interval, depth as stated; states merged when (_switch,_kk,"
    "cache contents) agree - the only fields project() reads or writes",
]
CHUNK = 1


def _pairings():
    from rpylib.distribution import pairing as P

    return {
        "cantor": P.Cantor(),
        "rosenbergstrong": P.RosenbergStrong(),
        "szudzik": P.Szudzik(),
        "pepiskalmar": P.PepisKalmar(),
        "hyperbolic": P.HyperbolicPairing(),
    }


def cases(tier):
    thorough = tier == "thorough"
    out = []
    Z = 20_000_000 if thorough else 200_000
    S = 4000 if thorough else 400
    blk = 500_000 if thorough else 50_000
    for name in ["cantor", "rosenbergstrong", "szudzik"]:
        for lo in range(0, Z, blk):
            out.append({"sub": "range-z", "pairing": name, "lo": lo, "hi": min(Z, lo + blk)})
        rows = 100 if thorough else 50
        for lo in range(0, S, rows):
            out.append({"sub": "range-xy", "pairing": name, "xlo": lo, "xhi": min(S, lo + rows), "ymax": S})
    # Pepis-Kalmar grows like 2^y: square limited in y
    out.append({"sub": "range-z", "pairing": "pepiskalmar", "lo": 0, "hi": 200_000 if thorough else 50_000})
    out.append({"sub": "range-xy", "pairing": "pepiskalmar", "xlo": 0, "xhi": 400 if thorough else 200, "ymax": 40})
    HZ = 60000 if thorough else 12000
    hb = 3000 if thorough else 1000
    for lo in range(0, HZ, hb):
        out.append({"sub": "range-z", "pairing": "hyperbolic", "lo": lo, "hi": lo + hb})
    out.append({"sub": "range-xy", "pairing": "hyperbolic", "xlo": 0, "xhi": 60 if thorough else 30, "ymax": 60 if thorough else 30})
    Z3 = 5_000_000 if thorough else 100_000
    b3 = 250_000 if thorough else 25_000
    for lo in range(0, Z3, b3):
        out.append({"sub": "range-z3", "lo": lo, "hi": lo + b3})
    S3 = 160 if thorough else 40
    for x in range(0, S3, 5):
        out.append({"sub": "range-xyz", "xlo": x, "xhi": x + 5, "n": S3})
    # near perfect powers
    ms = sorted(
        set(
            [10 ** k + d for k in range(2, 9) for d in (-1, 0, 1)]
            + [2 ** j + d for j in range(4, 29) for d in (-1, 0, 1)]
            + [94906265 + d for d in range(-2, 3)]  # floor(sqrt(2^53)) = 94906265
            + [2 * 10 ** 8 + d for d in (-1, 0, 1)]
            + [3 * 10 ** 8, 4 * 10 ** 8 + 1]
        )
    )
    for name in ["cantor", "rosenbergstrong", "szudzik"]:
        out.append({"sub": "powers2", "pairing": name, "ms": ms})
    m3 = sorted(
        set(
            list(range(2, 400 if thorough else 120))
            + [10 ** k + d for k in range(3, 6) for d in (-1, 0, 1)]
            + [2 ** j + d for j in range(8, 18) for d in (-1, 0, 1)]
            + [5773, 5774, 5775, 208063, 208064]  # 208064^3 > 2^53
        )
    )
    out.append({"sub": "powers3", "ms": m3})
    # PairingToZd
    for name in ["szudzik", "rosenbergstrong", "cantor", "pepiskalmar"]:
        for omit in (True, False):
            out.append({"sub": "zd", "pairing": name, "dim": 2, "omit": omit, "n": 12 if thorough else 6})
    for omit in (True, False):
        out.append({"sub": "zd", "pairing": "rosenbergstrong", "dim": 3, "omit": omit, "n": 6 if thorough else 3})
    # PairingToZ1d
    N = 9 if thorough else 5
    for L in range(1, N + 1):
        for R in range(1, N + 1):
            out.append({"sub": "z1d", "L": L, "R": R, "depth": 4 if (thorough and L + R <= 10) else 3})
    # lazy product
    maxe = 4
    for length in range(1, 5):
        for sizes in itertools.product(range(1, maxe + 1), repeat=length):
            if not thorough and length == 4 and max(sizes) > 3:
                continue
            out.append({"sub": "lazy", "sizes": list(sizes)})
    # states manager
    M1 = 5
    for L in range(1, M1 + 1):
        for R in range(1, M1 + 1):
            out.append({"sub": "states", "shape": [[L, R]]})
    M2 = 4 if thorough else 2
    shapes2 = list(itertools.product(range(1, M2 + 1), repeat=4))
    for a, b, c, d in shapes2:
        out.append({"sub": "states", "shape": [[a, b], [c, d]]})
    M3 = 3 if thorough else 2
    for sh in itertools.product(range(1, M3 + 1), repeat=6):
        if not thorough and sum(sh) > 9:
            continue
        if thorough and sum(sh) > 13:
            continue
        out.append({"sub": "states", "shape": [[sh[0], sh[1]], [sh[2], sh[3]], [sh[4], sh[5]]]})
    # admissible = in the grid AND inside the domain: the two non-trivial boundaries the module offers that satisfy the
    # assumptions stated in Domain's docstring (contain the origin, convex): a rectangle strictly inside the grid, the simplex
    top = 5 if thorough else 4
    for bnd in ("rectangle", "simplex"):
        for l in (2, 3):
            for r1 in range(2, top + 1):
                for r2 in range(2, top + 1):
                    out.append({"sub": "states", "shape": [[l, r1], [l, r2]], "boundary": bnd})
        for r1, r2, r3 in itertools.product((2, 3), repeat=3):
            out.append({"sub": "states", "shape": [[2, r1], [2, r2], [2, r3]], "boundary": bnd})
    return out


# ----------------------------------------------------------------------------------------------------------------------

def _proj2(p, name, z):
    r = p.projection2d(z) if name in ("cantor", "hyperbolic") else p.projection(z)
    return tuple(int(v) for v in r)


def _magnitude(z):
    if z < 2 ** 26:
        return "z<2^26"
    if z < 2 ** 53:
        return "2^26<=z<2^53"
    return "z>=2^53"


def check_case(sh, case):
    sub = case["sub"]
    globals()["_sub_" + sub.replace("-", "_")](sh, case)


def _sub_range_z(sh, case):
    name = case["pairing"]
    p = _pairings()[name]
    seen = set()
    for z in range(case["lo"], case["hi"]):
        xy = _proj2(p, name, z)
        sh.count("evaluations")
        if min(xy) < 0 or len(xy) != 2:
            sh.violation(f"C14:pairing2d:{name}:projection-not-in-N2:{_magnitude(z)}", f"projection({z}) = {xy}", {"z": z})
            continue
        back = p.pairing2d(*xy)
        if back != z:
            sh.violation(
                f"C14:pairing2d:{name}:pair-of-projection-differs:{_magnitude(z)}",
                f"pairing(projection({z})) = pairing({xy}) = {back}",
                {"z": z, "xy": xy, "back": back},
            )
        seen.add(xy)
    if len(seen) != case["hi"] - case["lo"]:
        sh.violation(f"C14:pairing2d:{name}:projection-not-injective:z<2^26", "two indices project to one pair", case)
    sh.outcome((name, len(seen), sum(a + b for a, b in list(seen)[:50])))
    sh.nontriv()


def _sub_range_xy(sh, case):
    name = case["pairing"]
    p = _pairings()[name]
    zs = set()
    n = 0
    for x in range(case["xlo"], case["xhi"]):
        for y in range(case["ymax"]):
            z = int(p.pairing2d(x, y))
            sh.count("evaluations")
            n += 1
            if z < 0:
                sh.violation(f"C14:pairing2d:{name}:negative-index", f"pairing({x},{y}) = {z}", {"x": x, "y": y})
                continue
            zs.add(z)
            if name == "pepiskalmar" and z > 2 ** 60:
                continue
            back = _proj2(p, name, z)
            if back != (x, y):
                sh.violation(
                    f"C14:pairing2d:{name}:projection-of-pair-differs:{_magnitude(z)}",
                    f"projection(pairing({x},{y})) = projection({z}) = {back}",
                    {"x": x, "y": y, "z": z, "back": back},
                )
    if len(zs) != n:
        sh.violation(f"C14:pairing2d:{name}:pairing-not-injective", "two pairs share an index", case)
    sh.outcome((name, case["xlo"], min(zs), max(zs)))
    sh.nontriv()


def _sub_range_z3(sh, case):
    p = _pairings()["rosenbergstrong"]
    seen = set()
    for z in range(case["lo"], case["hi"]):
        sh.count("evaluations")
        x = tuple(int(v) for v in p.projection(z, 3))
        if len(x) != 3 or min(x) < 0:
            sh.violation("C14:pairing3d:rosenbergstrong:projection-not-in-N3:z<2^26", f"projection({z},3) = {x}", {"z": z})
            continue
        back = p.pairing(x)
        if back != z:
            sh.violation(
                f"C14:pairing3d:rosenbergstrong:pair-of-projection-differs:{_magnitude(z)}",
                f"pairing(projection({z},3)) = pairing({x}) = {back}",
                {"z": z, "x": x},
            )
        seen.add(x)
    if len(seen) != case["hi"] - case["lo"]:
        sh.violation("C14:pairing3d:rosenbergstrong:projection-not-injective:z<2^26", "two indices share a triple", case)
    sh.outcome(("rs3", case["lo"], len(seen)))
    sh.nontriv()


def _sub_range_xyz(sh, case):
    p = _pairings()["rosenbergstrong"]
    n = case["n"]
    zs = set()
    cnt = 0
    for x in range(case["xlo"], case["xhi"]):
        for y in range(n):
            for w in range(n):
                sh.count("evaluations")
                cnt += 1
                z = p.pairing((x, y, w))
                zs.add(z)
                back = tuple(int(v) for v in p.projection(z, 3))
                if back != (x, y, w):
                    sh.violation(
                        f"C14:pairing3d:rosenbergstrong:projection-of-pair-differs:{_magnitude(z)}",
                        f"projection(pairing({(x, y, w)})) = projection({z}) = {back}",
                        {"xyz": (x, y, w), "z": z, "back": back},
                    )
    if len(zs) != cnt:
        sh.violation("C14:pairing3d:rosenbergstrong:pairing-not-injective", "two triples share an index", case)
    sh.outcome(("rs3xyz", case["xlo"], max(zs)))
    sh.nontriv()


def _sub_powers2(sh, case):
    name = case["pairing"]
    p = _pairings()[name]
    for m in case["ms"]:
        for delta in range(-2, 3):
            z = m * m + delta
            sh.count("evaluations")
            try:
                xy = _proj2(p, name, z)
                back = p.pairing2d(*xy)
                ok = back == z and min(xy) >= 0
            except Exception as e:  # noqa
                xy, back, ok = repr(e), None, False
            if not ok:
                sh.violation(
                    f"C14:pairing2d:{name}:near-perfect-square:{_magnitude(z)}",
                    f"z = {m}^2{delta:+d}: projection = {xy}, pairing back = {back}",
                    {"m": m, "delta": delta, "z": z, "xy": xy, "back": back},
                )
            # also from the coordinate side on the shell boundary
            for xy0 in ((m, 0), (0, m), (m, m), (m - 1, m), (m, m - 1)):
                z0 = int(p.pairing2d(*xy0))
                try:
                    b0 = _proj2(p, name, z0)
                except Exception as e:  # noqa
                    b0 = repr(e)
                sh.count("evaluations")
                if b0 != xy0:
                    sh.violation(
                        f"C14:pairing2d:{name}:shell-boundary-roundtrip:{_magnitude(z0)}",
                        f"projection(pairing({xy0})) = {b0}",
                        {"xy": xy0, "z": z0, "back": b0},
                    )
    sh.outcome((name, "powers2"))
    sh.nontriv()


def _sub_powers3(sh, case):
    p = _pairings()["rosenbergstrong"]
    for m in case["ms"]:
        for delta in range(-2, 3):
            z = m ** 3 + delta
            sh.count("evaluations")
            try:
                x = tuple(int(v) for v in p.projection(z, 3))
                back = p.pairing(x)
                ok = back == z and min(x) >= 0
            except Exception as e:  # noqa
                x, back, ok = repr(e), None, False
            if not ok:
                sh.violation(
                    f"C14:pairing3d:rosenbergstrong:near-perfect-cube:{_magnitude(z)}",
                    f"z = {m}^3{delta:+d}: projection = {x}, pairing back = {back}",
                    {"m": m, "delta": delta, "z": z, "x": x, "back": back},
                )
    sh.outcome("powers3")
    sh.nontriv()


def _sub_zd(sh, case):
    from rpylib.distribution.pairing import PairingToZd

    name, dim, omit, n = case["pairing"], case["dim"], case["omit"], case["n"]
    p = PairingToZd(_pairings()[name], dimension=dim, omit_zero=omit)
    box = [t for t in itertools.product(range(-n, n + 1), repeat=dim) if not (omit and not any(t))]
    idx = {}
    for t in box:
        sh.count("evaluations")
        i = p.pair(t)
        if i < 0:
            sh.violation(f"C14:zd:{name}:d{dim}:negative-index", f"pair({t}) = {i}", {"state": t, "omit": omit})
            continue
        if i in idx:
            sh.violation(f"C14:zd:{name}:d{dim}:pair-not-injective", f"pair({t}) = pair({idx[i]}) = {i}", {"omit": omit})
        idx[i] = t
        if name == "pepiskalmar" and i > 2 ** 60:
            continue
        back = tuple(int(v) for v in p.project(i))
        if back != t:
            sh.violation(f"C14:zd:{name}:d{dim}:project-of-pair-differs", f"project(pair({t})) = project({i}) = {back}",
                         {"state": t, "omit": omit})
    if omit and any(not any(t) for t in idx.values()):
        sh.violation(f"C14:zd:{name}:d{dim}:origin-enumerated", "origin has an index although zero is omitted", case)
    # shell-enumerating pairings: the first (2n+1)^d (-1) indices are exactly the box
    if name in ("szudzik", "rosenbergstrong"):
        N = (2 * n + 1) ** dim - (1 if omit else 0)
        got = [tuple(int(v) for v in p.project(i)) for i in range(N)]
        sh.count("evaluations", N)
        if sorted(got) != sorted(box):
            missing = sorted(set(box) - set(got))[:5]
            extra = sorted(set(got) - set(box))[:5]
            sh.violation(f"C14:zd:{name}:d{dim}:box-not-enumerated-exactly-once",
                         f"first {N} indices do not enumerate the box [-{n},{n}]^{dim}: missing {missing}, extra {extra}",
                         {"omit": omit})
        for i, t in enumerate(got):
            if p.pair(t) != i:
                sh.violation(f"C14:zd:{name}:d{dim}:pair-of-project-differs", f"pair(project({i})) = {p.pair(t)}", {"omit": omit})
                break
    sh.outcome((name, dim, omit, len(idx)))
    sh.nontriv()


def _z1d_reference(L, R):
    """Reference enumeration for [-L,R]\\{0}: 1,-1,2,-2,... while both sides last, then the longer side outwards."""
    out = []
    k = 1
    m = min(L, R)
    while k <= m:
        out += [k, -k]
        k += 1
    if R > L:
        out += list(range(m + 1, R + 1))
    else:
        out += [-x for x in range(m + 1, L + 1)]
    return out


def _sub_z1d(sh, case):
    from rpylib.distribution.pairing import PairingToZ1d

    L, R, depth = case["L"], case["R"], case["depth"]
    n = L + R
    states = [x for x in range(-L, R + 1) if x != 0]
    # (1) increasing order on a fresh object
    p = PairingToZ1d((-L, R))
    seq = [int(p.project(i)) for i in range(n)]
    sh.count("evaluations", n)
    shape = "L=R" if L == R else ("L<R" if L < R else "L>R")
    if sorted(seq) != states:
        sh.violation(f"C14:z1d:increasing-order-not-a-bijection:{shape}",
                     f"[-{L},{R}]: project(0..{n - 1}) = {seq}", {"seq": seq})
    if any(p.pair(s) != i for i, s in enumerate(seq)):
        sh.violation(f"C14:z1d:pair-does-not-invert-project:{shape}",
                     f"[-{L},{R}]: project = {seq}, pair(project) = {[p.pair(s) for s in seq]}", None)
    q = PairingToZ1d((-L, R))
    if sorted(q.pair(s) for s in states) != list(range(n)):
        sh.violation(f"C14:z1d:pair-not-onto-indices:{shape}", f"[-{L},{R}]: pair(states) = {[q.pair(s) for s in states]}", None)
    ref = seq if sorted(seq) == states else _z1d_reference(L, R)

    # (2) call orders: explicit-state search; a state is the history of project(i) calls on one object
    def build(hist):
        o = PairingToZ1d((-L, R))
        obs = [int(o.project(i)) for i in hist]
        return o, obs

    def menu(state, hist):
        return list(range(n))

    def canon(state, hist):
        o, obs = state
        return (getattr(o, "_switch", None), getattr(o, "_kk", None), tuple(sorted(set(zip(hist, obs)))))

    def invariant(state, hist, ev):
        o, obs = state
        if ev is None:
            return None
        if obs[-1] != ref[ev]:
            first_out_of_order = any(hist[j] > hist[j + 1] for j in range(len(hist) - 1)) or hist[0] != 0
            cls = "out-of-increasing-order" if (hist != sorted(hist) or hist != list(range(hist[0], hist[0] + len(hist))) or hist[0] > min(L, R) * 2) else "in-order"
            return (f"C14:z1d:project-depends-on-call-history:{shape}:{cls}",
                    f"[-{L},{R}]: after project calls {hist[:-1]}, project({ev}) = {obs[-1]} but the enumeration in increasing order gives {ref[ev]}",
                    {"history": hist, "observed": obs})
        return None

    s, t, d = core.bfs(sh, build, menu, canon, invariant, depth)
    sh.count("evaluations", t)
    sh.outcome((L, R, tuple(seq), s))
    sh.nontriv()
    if L == 2 and R == 4:
        sh.sample({"sub": "z1d", "interval": [-L, R], "increasing": seq, "bfs_states": s, "bfs_transitions": t})


def _sub_lazy(sh, case):
    from rpylib.tools.generic import lazy_indices_product

    sizes = case["sizes"]
    got = [tuple(int(v) for v in t) for t in lazy_indices_product(list(sizes))]
    ref = list(itertools.product(*[range(s) for s in sizes]))
    sh.count("evaluations", len(ref))
    cls = "all-sizes-equal" if len(set(sizes)) == 1 else "sizes-not-all-equal"
    if sorted(got) != sorted(ref):
        dup = len(got) - len(set(got))
        missing = sorted(set(ref) - set(got))[:4]
        sh.violation(f"C14:lazy-product:not-every-tuple-exactly-once:{cls}",
                     f"lazy_indices_product({sizes}): {len(got)} tuples, {dup} duplicates, missing e.g. {missing}",
                     {"got": got[:12]})
    sh.outcome((tuple(sizes), tuple(got[:3])))
    sh.nontriv()
    if sizes == [2, 3]:
        sh.sample({"sub": "lazy", "sizes": sizes, "got": got})


def make_grid(shape):
    """A real CTMCGrid with per-axis (left,right) numbers of non-origin points; spacing 1.0 (values are irrelevant here).
    CTMCGrid takes one origin index for all axes, so the left sizes must agree; unequal left sizes are expressed by
    unequal right sizes only (the library has no constructor producing per-axis origins)."""
    from rpylib.grid.spatial import CTMCGrid

    left = shape[0][0]
    axes = [np.array([float(k) for k in range(-l, r + 1)]) for (l, r) in shape]
    return CTMCGrid(h=1.0, origin_coordinate=left, axes=axes)


def _sub_states(sh, case):
    from rpylib.distribution.pairing import (Boundary, Domain, PairingToZ1d, PairingToZd, RectangleBoundary, RosenbergStrong,
                                             SimplexBoundary, StatesManager, Szudzik)

    shape = [tuple(s) for s in case["shape"]]
    dim = len(shape)
    bnd = case.get("boundary", "none")
    if dim > 1 and len({s[0] for s in shape}) != 1:
        sh.count("skipped-unrepresentable-origin")
        return
    # right_point() of the library assumes one common axis length (FIXME in spatial.py) - enumeration itself does not
    grid = make_grid(shape)
    if dim == 1:
        (L, R), = shape
        pairing = PairingToZ1d((-L, R), omit_zero=True)
        ref = sorted((x,) for x in range(-L, R + 1) if x != 0)
    else:
        pairing = PairingToZd(pairing=Szudzik() if dim == 2 else RosenbergStrong(), dimension=dim)
        ref = sorted(t for t in itertools.product(*[range(-l, r + 1) for (l, r) in shape]) if any(t))
    boundary = Boundary()
    if bnd != "none":
        # grid spacing is 1.0 and the origin value 0.0, so a state increment IS its grid point: the reference evaluates the
        # boundary predicate on every in-grid state (brute force), independently of frontier / largest-index bookkeeping
        if bnd == "rectangle":
            boundary = RectangleBoundary([(-(l - 0.5), r - 0.5) for (l, r) in shape])
        else:
            boundary = SimplexBoundary([(-float(l), float(r)) for (l, r) in shape])
        ref = [t for t in ref if not bool(boundary(np.array([float(v) for v in t])))]
        if len(ref) < 3:
            raise AssertionError(f"alphabet error: boundary {bnd} leaves {len(ref)} states for {shape}")
    domain = Domain(boundary=boundary, grid=grid, pairing=pairing)
    equal = "equal-axes" if len(set(shape)) == 1 else "unequal-axes"
    if bnd != "none":
        equal = f"{bnd}-boundary:{equal}"
    sym = "symmetric" if all(l == r for l, r in shape) else "asymmetric"
    try:
        sm = StatesManager(pairing=pairing, domain=domain, grid=grid)
    except Exception as e:
        sh.violation(f"C14:states:d{dim}:{equal}:{sym}:constructor-raises:{type(e).__name__}", f"shape {shape}: {e!r}", None)
        return
    import numpy.random as npr

    calls = {"n": 0}
    orig_choice = npr.choice

    def choice(a, *args, **kw):
        calls["n"] += 1
        return list(a)[0]

    npr.choice = choice
    try:
        got = []
        x = 0
        limit = 4 * (max(sm.frontier_states_indices) + 2) + 50
        while x < limit:
            inc, done = sm.project_index_to_state_increment(x)
            sh.count("evaluations")
            if done:
                break
            got.append(tuple(int(v) for v in np.atleast_1d(inc)))
            x = sm._last_projected_index + 1
        else:
            sh.violation(f"C14:states:d{dim}:{equal}:{sym}:no-exhaustion-signal", f"shape {shape}: no exhaustion after {limit} indices", None)
    finally:
        npr.choice = orig_choice
    dups = len(got) - len(set(got))
    missing = sorted(set(ref) - set(got))
    extra = sorted(set(got) - set(ref))
    if dups:
        sh.violation(f"C14:states:d{dim}:{equal}:{sym}:state-enumerated-twice", f"shape {shape}: {dups} duplicates in {got}", None)
    if extra:
        sh.violation(f"C14:states:d{dim}:{equal}:{sym}:inadmissible-state-enumerated", f"shape {shape}: {extra[:5]}", None)
    if missing:
        # classify: is the only missing state the one of largest index?
        idx = {t: (pairing.pair(t[0]) if dim == 1 else pairing.pair(t)) for t in ref}
        top = max(ref, key=lambda t: idx[t])
        cls = "only-the-state-of-largest-index" if missing == [top] else "several-states"
        sh.violation(f"C14:states:d{dim}:{equal}:{sym}:missing:{cls}",
                     f"shape {shape}: exhaustion signalled after {len(got)} of {len(ref)} states; missing {missing[:6]}",
                     {"missing": missing, "enumerated": got})
    # restart protocol of the only caller (InversionMethod with a full log): after the enumeration has passed the m-th
    # admissible state, a call with x == max_logged == m must resume with the (m+1)-th admissible state, whatever the pointer
    # had reached and however many pairing indices were skipped as inadmissible
    if not (dups or extra or missing) and len(got) >= 4:
        for m in sorted({1, len(got) // 2, len(got) - 2}):
            npr.choice = choice
            try:
                sm2 = StatesManager(pairing=pairing, domain=domain, grid=grid)
                seq = []
                x = 0
                while x < len(got):  # first pass, as the sampler does it: x counts the admissible states
                    inc, done = sm2.project_index_to_state_increment(x, m)
                    if done:
                        break
                    seq.append(tuple(int(v) for v in np.atleast_1d(inc)))
                    x += 1
                again = []
                x = m
                while x < len(got):
                    inc, done = sm2.project_index_to_state_increment(x, m)
                    sh.count("evaluations")
                    if done:
                        break
                    again.append(tuple(int(v) for v in np.atleast_1d(inc)))
                    x += 1
            finally:
                npr.choice = orig_choice
            if seq != got or again != got[m:]:
                sh.violation(f"C14:states:d{dim}:{equal}:{sym}:restart-after-last-logged-state-does-not-resume-there",
                             f"shape {shape}: first pass {seq[:6]}..., restart at x = max_logged = {m} gives {again[:6]}... instead of {got[m:m + 6]}...",
                             {"m": m, "restart": again, "expected": got[m:]})
                break
    sh.outcome((tuple(shape), bnd, tuple(got[:4]), len(got)))
    sh.nontriv()
    sh.cls(f"states:d{dim}:boundary-{bnd}")
    if shape in ([(2, 3)], [(1, 1), (1, 2)]):
        sh.sample({"sub": "states", "shape": shape, "enumerated": got, "reference_size": len(ref)})
