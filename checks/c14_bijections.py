"""C14 - index/state enumerations are bijections: every admissible state exactly once.

Alphabet / bound / oracle per sub-check (all complete enumerations of the stated ranges; every comparison is exact):

 range     every 2-d pairing: all z < Z and all (x,y) in an S x S square, both round trips, plus injectivity on the square
           Rosenberg-Strong d=3: all z < Z3 and an S3^3 cube.  hyperbolic pairing on a smaller range (it factorises).
 range-d   the dimensions the base class offers beyond those: Rosenberg-Strong d=4, and the recursive d=3 pairing of
           Szudzik / Pepis-Kalmar / hyperbolic (Cantor raises NotImplementedError for d != 2: not offered): all z < zmax
           and a cube [0,n)^d, both round trips, injectivity
 powers    z = m^2+delta, m^3+delta for delta in -2..2 and m near powers of 10 / powers of 2 / floor(sqrt(2^53)) / the
           library's own size limit (an axis may have 1e8 points => mapped coordinates up to 2e8)
 zd        PairingToZd (omit zero on/off; d=2 Szudzik/RosenbergStrong/Cantor/PepisKalmar/hyperbolic, d=3 RosenbergStrong
           and recursive Szudzik, d=4 RosenbergStrong): every state of a box [-n,n]^d is hit exactly once by project over
           indices < (2n+1)^d (those pairings that enumerate square shells), pair o project = id on all indices,
           project o pair = id on all states of the box
 z1d       PairingToZ1d, omit_zero on and off: all 0 <= L,R <= N with L+R >= 1 (L = 0 / R = 0: an EMPTY half axis, the
           interval the sampling factory builds for a 1-d grid whose origin is its first / last point; [0,0] with zero kept:
           one state); increasing enumeration is a bijection onto [-L,R]\\{0} (onto [-L,R] when zero is kept), pair
           inverts it, also with numpy integers as arguments (what numpy.random.choice hands to project on exhaustion);
           explicit-state search over histories of events on one object: project(i) for every index i; project(j) on a
           SECOND object of another interval ([-(R+1), L]: one-sided the other way when L = 0) used in between (three
           indices); the object replaced by a deepcopy / a copy.copy / a dill round trip of itself.  invariant
           project(i | history) = reference(i) (both objects); canonical state = (_switch, _kk, cached (index, value) pairs
           before / after the last copy and of the 2nd object, kinds of copies made)
 lazy      lazy_indices_product(sizes) for every size tuple of length <= 4 with entries 1..4 == itertools.product (as list:
           exactly once each); two generators alive at once (sizes / reversed sizes) consumed alternately and a second
           call afterwards give what each gives alone
 states    StatesManager.project_index_to_state_increment over increasing indices, for 1-d grids 0 <= L,R <= 5 (thorough 8)
           and 2-d / 3-d grids with per-axis (left,right) sizes 0..2 (thorough 0..4 / 0..3), ONE-SIDED grids included (the
           origin is the first / last point of every axis, left or right size 0; every axis keeps >= 2 points), without
           boundary and with the rectangle / simplex boundaries (1-d: rectangle; an empty half axis gets the truncation of
           a half axis of one point), 2-d also over the pairings the factory does not take (RosenbergStrong, Cantor,
           PepisKalmar, thorough: hyperbolic): every admissible non-origin state exactly once, then exhaustion; then the
           restart protocol of the sampler driven directly (project(0); a walk into the states beyond the log; a restart
           right after the log for two states; a restart up to exhaustion, signalled exactly after the last state; a
           restart after exhaustion) for every log size m in {1, n/2, n-2} + {256, 257, 300, 32768, 65536 where the chain
           is longer} (CPython shares the int objects -5..256 only; 16-bit limits) and every form of the two arguments:
           project(m, m) with ONE object, max_logged an equal int that is another object while x is computed by the caller
           (x = len(log) - 1; x += 1: what InversionMethod does), max_logged numpy.int64, x numpy.int64, keywords.
           Sizes beyond those thresholds: chains of 600-1000 states (1-d [-350,650], one-sided [0,600], 2-d [-9,21]^2 with the
           origin off centre, 2-d with a rectangle boundary) and one interval of 70 200 states.
 inversion the same enumeration observed where the library consumes it: a real InversionMethod on a real StatesManager
           (pairing chosen as create_sampling_inversion_method does), probabilities that record the states they are asked
           for, scripted u.  The log of the sampler is bounded (the library's bound of 1e6 states is scaled down by setting
           `_max_storage` to 1, 2, n/2, n-2 of the n admissible states, and left alone = log holds everything); thorough
           has one interval of 1 000 033 states with the library's bound untouched; on the chains of 600-1000 states the
           bound is 256, 257, 300, n/2 (2-d in quick: 257, 300; thorough also 400, n-2) - an int object built at run time
           like the sampler's own attribute, the counter x is computed by the sampler itself - and on the interval of 70 200
           states 65536 (thorough also 32768; one sampler, one history with every ordered pair of targets); the size class of
           the log (<= 256, > 256, >= 32768) is part of the violation key.  Histories: EVERY word of `depth`
           (2 or 3) draws over the targets {first state, last logged, first / second beyond the log, middle of the rest,
           last state, beyond the total mass (= exhaustion)}, each word on a fresh sampler, plus every (draw, deepcopy of
           the sampler, draw), (draw, copy.copy of the sampler, draw: depth 3 only) and (draw, a second sampler on a larger
           grid exhausted in between, draw); u is handed over as numpy.float64 (what Uniform.sample gives) / float / keyword
           in turn; shapes include one-sided grids in 1-d, 2-d (thorough: 3-d), with and without boundary.  Oracle per draw:
           the states walked are consecutive states of the enumeration, none twice, starting no later than the first state
           never produced so far and ending at the state the draw needs (the last admissible one for an exhausting draw),
           and the state returned is the one of the wanted rank.
 reuse     histories on RE-USED objects: one Domain (with its grid and pairing objects) kept through every word of
           `depth` (2; thorough 3 in 1-d/2-d) operations out of {grid.refine() in place (what Coupling*.next_level does; in
           1-d the interval pairing is rebuilt and re-assigned to domain.pairing), domain.grid re-assigned to a larger
           grid, domain.boundary re-assigned (none <-> rectangle), deepcopy of the Domain / dill round trip of the Domain
           (the copy is used from then on), a second Domain on a larger grid enumerated in between (sharing boundary and,
           in n-d, pairing objects), a manager left half-way}, on two-sided and one-sided grids; at construction and after
           every operation a NEW StatesManager on the kept Domain must enumerate exactly the admissible states of what the Domain holds now (brute force over the grid's public axes /
           origin index and the boundary predicate), directly and through a sampler's exhausting draw.
 forms     argument forms and copies (differential, exact: "same answer as the usual form", whatever that answer is):
           Pairing.pairing / pairing2d / projection / projection2d of the five pairings with list, int64 / int32 array, tuple
           of numpy integers, numpy scalar, 0-d array, keywords, d = 2 and 3 (small square / first indices, and three pairs
           near 4000); PairingToZd.pair / project likewise and after deepcopy / copy.copy / dill of the object;
           PairingToZ1d built from tuple / list / array / numpy integers / keywords / a list the caller modifies afterwards,
           project / pair with numpy integers and keywords (8 interval shapes incl. one-sided, zero kept or not);
           lazy_indices_product with tuple / array / list of numpy integers / keyword; StatesManager.
           project_index_to_state_increment with numpy index, keywords, positional max_logged, positional constructor, and a
           deepcopy / copy.copy / dill round trip of the manager taken after 0, 1, half, all states: the copy continues like
           the original and the original is not disturbed by its copy.  Argument arrays / lists are compared with a copy
           taken before the call.  A form the library rejects (raises) is outside the alphabet: counted
           (form-rejected-by-the-library:*), never an alarm - unless the library itself uses the form (numpy integer
           indices handed to projection / project, tuples of Python integers, deepcopy and dill of the objects).
 hyperbola whole HYPERBOLAS n = (x+1)(y+1) of the hyperbolic pairing, chosen by the factor structure of n relative to every table
           / threshold T an implementation could hard-code (T = 16, 100, 128, 256, 541 = 100th prime, 1000, 1024, 4096, 7919
           = 1000th prime, 1e4, 2^15, 2^16, 1e5; thorough also 32, 64, 512, 2048, 8192, 2^14, 2^17, 2^18, 1e6, 2^20): with
           k < l <= T < p < q < r consecutive primes around T, n = p, l, l^2, k*l, l*p, p*q, p^2, q^2, p*r, 2p, 2pq, 6p^2, 3pq,
           l*p*q, p^2 q, p q^2, p*q*r, p^3, p^2 q^2, T^2, T*p (n <= 2^34, thorough 2^40) and, for T <= 4096, the neighbours
           +-1, +-2 of p^2, p*q, T^2; plus highly composite n (720 .. 6983776800, factorials, primorials, powers of 2, 3, 6).
           For each n: the lattice points (a-1, n/a-1) over ALL divisors a get exactly the index block [D(n-1), D(n)) (D = own
           divisor summatory function, plain loop), every index of the block projects back onto the hyperbola and onto its
           point (n <= 2^24 or <= 64 divisors: all; otherwise first / last 16 and 16 evenly spaced, counted), the recursive
           3-d pairing agrees on (projection2d(a-1), n/a-1), and PairingToZd (zero omitted / kept) round-trips both ways on
           the signed states folded onto those points.
 zd-large  PairingToZd.pair / project of EVERY pairing class in d = 2, 3, 4 (Cantor d = 2; Pepis-Kalmar, hyperbolic d = 2, 3) on
           signed states with coordinates M-1, M, M+1 for M = 2^15, 2^16, 2^20, 2^21, 2^31, 2^32, 1e8 (the library's limit),
           2^62, 2^63, 2^64 (Python integers: accepted by the unchanged tree), both signs; one large coordinate on each axis,
           two, all (also exact ties and zeros elsewhere); zero omitted / kept.  Oracles: the closed form of the published
           pairing evaluated here in plain Python integers (hyperbolic: the index lies in the block of its hyperbola),
           project(pair(s)) == s, project(closed-form index) == s, pair(project(z)) == z for the two neighbouring indices, the
           answer is an int / numpy integer, >= 0; argument forms list / keyword / int64 array / int32 array / tuples of numpy
           integers (numpy forms only where 8*(index+1) fits the dtype: fixed-width arithmetic overflows in the unchanged tree
           too - counted) and project(np.int64) give the same; arguments not modified; two objects (zero omitted / kept) used
           alternately differ by one; an object built with another pairing / dimension and RE-PARAMETRISED through its public
           attributes (dimension, n_pairing) answers like a fresh one.  Pepis-Kalmar: only the first axis large (index
           2^y (2x+1)); hyperbolic: hyperbolas up to 2^34 (larger: counted as skipped).  Coordinates above 1e8 exceed the
           largest grid the library accepts (the unchanged tree is exact there, Python integers): their keys end with
           `beyond-1e8-points-per-axis` so that a triage can tell them from the regime the statement names.
 lazy-big  lazy_indices_product with sizes beyond 8-bit / 16-bit / small-integer thresholds, complete ([257], [300,3], [3,300],
           [2,257,2], [70000], [1,65537], [256,257]) and, for sizes of the largest grids ([1e8,3], [3,1e8], [1e8]*3,
           [2^32+1,2^32,5], [7,2^63,3,2]), the first 3000 (thorough 20000) tuples against mixed-radix digits computed here.
 z1d-large PairingToZ1d on intervals [-L,R], L, R in {0, 3, 2^15, 2^16+1, 1e8} (max > 3), zero omitted / kept: the indices in the
           windows [0,8), around the switch 2 min(L,R), [n-8,n) and the states +-1, +-2, around +-min(L,R), the ends: round trips
           both ways, images inside the interval / index range and pairwise distinct, Python int and numpy.int64 arguments.

Exclusions (statement silent / not constructible): the interval [0,0] with zero omitted (no state); n-d grids with an axis of a
single point; float coordinates / indices (the statement is about integers; some pairings reject them); sizes modified by
the caller while a lazy product is being consumed (the generator reads its argument lazily; the library never does that);
grids whose axes have different origin indices (CTMCGrid takes one origin index: counted as skipped-unrepresentable-origin); MyBoundary (not
convex, Domain's docstring excludes it); boundaries not containing the origin; a StatesManager built BEFORE its grid was
refined and used afterwards (stale by construction: the library rebuilds the sampler); the state handed out together with
the exhaustion signal (drawn with numpy's global generator: stubbed, not judged - C02's subject); Pepis-Kalmar domains larger
than [-1,2] x [-1,1] and with boundaries (its indices grow like 4^r: the walk over the skipped indices gets long).
"""
from __future__ import annotations

import itertools
import math

import numpy as np

from mc import core

PID = "C14"
LEVEL = "model_checking"
RULE = (
    "whole hyperbolas by factor structure around every plausible table threshold, signed states with coordinates up to 2^64 "
    "against closed forms, complete ranges of indices and coordinate tuples, complete products of interval shapes / size tuples / grid shapes / "
    "pairings / boundaries / log bounds, BFS over call orders of the stateful 1-d projection (with a second object and "
    "three kinds of copies as events), every legal argument form of every entry point against the usual form, every word of 2-3 scripted draws of the real inversion sampler over a menu of targets, every word "
    "of 2-3 public operations on a re-used Domain; a case is non-trivial when it compares at least one round trip / "
    "enumeration / walk against the reference (itertools / explicit list / brute force over the grid); distinct = distinct "
    "case dict"
)
ASSUMPTIONS = [
    "ranges are bounded as stated in the evidence counters; near-perfect-power probes cover the library's own size limit",
    "z1d call-order search: the menu is every index of the interval plus three indices of a second object plus deepcopy / "
    "copy.copy / dill round trip, depth as stated; states merged when (_switch,_kk,cache contents per object and copy "
    "generation, kinds of copies made) agree - the only fields project() reads or writes",
    "an interval with an empty half axis ([0,R], [-L,0]) is an interval shape: the sampling factory builds it for a 1-d grid "
    "whose origin is its first / last point, and the unchanged code enumerates it correctly",
    "forms: an argument form the library rejects is outside the alphabet (counted); integer-valued forms only, values small "
    "enough that fixed-width numpy integers do not overflow",
    "zd-large: the five pairing classes are the published functions of their names (Rosenberg-Strong r_d, Szudzik's elegant "
    "pairing nested from the left, Cantor, Pepis-Kalmar 2^y(2x+1)-1 nested): their closed forms in Python integers are the "
    "reference; the hyperbolic pairing is judged by round trips and by the block [D(n-1), D(n)) of its hyperbola only",
    "hyperbola: blocks with more than 64 points and n > 2^24 are projected on a stated subset of 48 indices (counted); the "
    "pairing side is always complete over all divisors",
    "inversion: the bound of the sampler's log (1e6 states in the library) is scaled down through its attribute "
    "_max_storage (skipped and counted if the attribute does not exist); thorough has one case with the bound untouched; "
    "scaled-down bounds include values on both sides of the interpreter's small-integer range (256 / 257, 300) and 65536",
    "restart protocol driven directly: argument forms the unchanged library rejects are counted, except the two the sampler "
    "can produce (one object for both arguments; equal ints that are different objects)",
    "numpy.random.choice (state handed out on exhaustion) is stubbed by 'first element' while the library runs; that state "
    "is not judged",
]
CHUNK = 1


def _pairings():
    from rpylib.distribution import pairing as P

    return {
        "cantor": P.Cantor(),
        "rosenbergstrong": P.RosenbergStrong(),
        "szudzik": P.Szudzik(),
        "pepiskalmar": P.PepisKalmar(),
        "hyperbolic": P.HyperbolicPairing(),
    }


def cases(tier):
    thorough = tier == "thorough"
    out = []
    Z = 20_000_000 if thorough else 200_000
    S = 4000 if thorough else 400
    blk = 500_000 if thorough else 50_000
    for name in ["cantor", "rosenbergstrong", "szudzik"]:
        for lo in range(0, Z, blk):
            out.append({"sub": "range-z", "pairing": name, "lo": lo, "hi": min(Z, lo + blk)})
        rows = 100 if thorough else 50
        for lo in range(0, S, rows):
            out.append({"sub": "range-xy", "pairing": name, "xlo": lo, "xhi": min(S, lo + rows), "ymax": S})
    # Pepis-Kalmar grows like 2^y: square limited in y
    out.append({"sub": "range-z", "pairing": "pepiskalmar", "lo": 0, "hi": 200_000 if thorough else 50_000})
    out.append({"sub": "range-xy", "pairing": "pepiskalmar", "xlo": 0, "xhi": 400 if thorough else 200, "ymax": 40})
    HZ = 60000 if thorough else 12000
    hb = 3000 if thorough else 1000
    for lo in range(0, HZ, hb):
        out.append({"sub": "range-z", "pairing": "hyperbolic", "lo": lo, "hi": lo + hb})
    out.append({"sub": "range-xy", "pairing": "hyperbolic", "xlo": 0, "xhi": 60 if thorough else 30, "ymax": 60 if thorough else 30})
    Z3 = 5_000_000 if thorough else 100_000
    b3 = 250_000 if thorough else 25_000
    for lo in range(0, Z3, b3):
        out.append({"sub": "range-z3", "lo": lo, "hi": lo + b3})
    S3 = 160 if thorough else 40
    for x in range(0, S3, 5):
        out.append({"sub": "range-xyz", "xlo": x, "xhi": x + 5, "n": S3})
    # near perfect powers
    ms = sorted(
        set(
            [10 ** k + d for k in range(2, 9) for d in (-1, 0, 1)]
            + [2 ** j + d for j in range(4, 29) for d in (-1, 0, 1)]
            + [94906265 + d for d in range(-2, 3)]  # floor(sqrt(2^53)) = 94906265
            + [2 * 10 ** 8 + d for d in (-1, 0, 1)]
            + [3 * 10 ** 8, 4 * 10 ** 8 + 1]
        )
    )
    for name in ["cantor", "rosenbergstrong", "szudzik"]:
        out.append({"sub": "powers2", "pairing": name, "ms": ms})
    m3 = sorted(
        set(
            list(range(2, 400 if thorough else 120))
            + [10 ** k + d for k in range(3, 6) for d in (-1, 0, 1)]
            + [2 ** j + d for j in range(8, 18) for d in (-1, 0, 1)]
            + [5773, 5774, 5775, 208063, 208064]  # 208064^3 > 2^53
        )
    )
    out.append({"sub": "powers3", "ms": m3})
    # PairingToZd
    for name in ["szudzik", "rosenbergstrong", "cantor", "pepiskalmar"]:
        for omit in (True, False):
            out.append({"sub": "zd", "pairing": name, "dim": 2, "omit": omit, "n": 12 if thorough else 6})
    for omit in (True, False):
        out.append({"sub": "zd", "pairing": "rosenbergstrong", "dim": 3, "omit": omit, "n": 6 if thorough else 3})
    # PairingToZ1d
    # all interval shapes: L < R, L > R, L = R, one state on a half axis, and an EMPTY half axis (L = 0 or R = 0: what the
    # sampling factory builds for a 1-d grid whose origin is its first / last point); [0,0] only with zero kept (one state)
    N = 9 if thorough else 5
    for L in range(0, N + 1):
        for R in range(0, N + 1):
            if L + R >= 1:
                out.append({"sub": "z1d", "L": L, "R": R, "depth": 4 if (thorough and L + R <= 10) else 3})
            out.append({"sub": "z1d", "L": L, "R": R, "depth": 3 if (thorough and L + R <= 10) else 2, "omit": False})
    # lazy product
    maxe = 4
    for length in range(1, 5):
        for sizes in itertools.product(range(1, maxe + 1), repeat=length):
            if not thorough and length == 4 and max(sizes) > 3:
                continue
            out.append({"sub": "lazy", "sizes": list(sizes)})
    # sizes beyond every small-integer / 8-bit / 16-bit threshold (complete), and sizes of the largest grids the library
    # accepts (1e8 points per axis: the first tuples only, against the mixed-radix digits)
    for sizes in ([257], [300, 3], [3, 300], [2, 257, 2], [70000], [1, 65537], [256, 257]) + (([65537, 3], [2, 3, 40000]) if thorough else ()):
        out.append({"sub": "lazy", "sizes": list(sizes)})
    for sizes in ([10 ** 8, 3], [3, 10 ** 8], [10 ** 8, 10 ** 8, 10 ** 8], [2 ** 32 + 1, 2 ** 32, 5], [7, 2 ** 63, 3, 2]):
        out.append({"sub": "lazy", "sizes": list(sizes), "prefix": 20000 if thorough else 3000})
    # states manager
    # 1-d: the origin may be the first / last point of the axis (L = 0 / R = 0: one-sided grid)
    M1 = 8 if thorough else 5
    for L in range(0, M1 + 1):
        for R in range(0, M1 + 1):
            if L + R >= 1:
                out.append({"sub": "states", "shape": [[L, R]]})
    M2 = 4 if thorough else 2
    shapes2 = list(itertools.product(range(0, M2 + 1), repeat=4))
    for a, b, c, d in shapes2:
        if 0 in (a, b, c, d) and (a != c or a + b < 1 or c + d < 1):
            continue  # one-sided n-d grids: only the representable ones (one origin index), every axis with >= 2 points
        out.append({"sub": "states", "shape": [[a, b], [c, d]]})
    M3 = 3 if thorough else 2
    for sh in itertools.product(range(0, M3 + 1), repeat=6):
        if 0 in sh and (not (sh[0] == sh[2] == sh[4]) or min(sh[0] + sh[1], sh[2] + sh[3], sh[4] + sh[5]) < 1):
            continue
        if not thorough and sum(sh) > 9:
            continue
        if thorough and sum(sh) > 13:
            continue
        out.append({"sub": "states", "shape": [[sh[0], sh[1]], [sh[2], sh[3]], [sh[4], sh[5]]]})
    # admissible = in the grid AND inside the domain: the two non-trivial boundaries the module offers that satisfy the
    # assumptions stated in Domain's docstring (contain the origin, convex): a rectangle strictly inside the grid, the simplex
    top = 5 if thorough else 4
    for bnd in ("rectangle", "simplex"):
        for l in (2, 3):
            for r1 in range(2, top + 1):
                for r2 in range(2, top + 1):
                    out.append({"sub": "states", "shape": [[l, r1], [l, r2]], "boundary": bnd})
        for r1, r2, r3 in itertools.product((2, 3), repeat=3):
            out.append({"sub": "states", "shape": [[2, r1], [2, r2], [2, r3]], "boundary": bnd})
    # one-sided grids (origin at the first / last point of every axis) with a boundary
    for bnd in ("rectangle", "simplex"):
        for shape in ([[0, 3], [0, 4]], [[0, 3], [0, 3]], [[3, 0], [3, 0]], [[2, 0], [2, 3]], [[0, 2], [0, 3], [0, 2]]) + (
                ([[0, 5], [0, 4]], [[4, 0], [4, 0]], [[3, 0], [3, 4]], [[2, 0], [2, 3], [2, 0]], [[2, 0], [2, 1], [2, 0]]) if thorough else ()):
            out.append({"sub": "states", "shape": shape, "boundary": bnd})
    for R in range(3, M1 + 1):
        out.append({"sub": "states", "shape": [[0, R]], "boundary": "rectangle"})
        out.append({"sub": "states", "shape": [[R, 0]], "boundary": "rectangle"})
    # the enumeration of a 2-d domain over the other pairings of the module (the largest admissible index is then not the
    # index of a frontier state)
    for pname in ("rosenbergstrong", "cantor", "pepiskalmar") + (("hyperbolic",) if thorough else ()):
        for shape in ([[1, 1], [1, 1]], [[1, 2], [1, 1]], [[2, 1], [2, 2]], [[2, 3], [2, 2]], [[0, 2], [0, 1]], [[1, 0], [1, 2]]):
            if pname == "pepiskalmar" and sum(map(sum, shape)) > 5:
                continue  # indices grow like 2^(2 r): the walk over the skipped indices is too long
            out.append({"sub": "states", "shape": shape, "pairing": pname})
        if pname != "pepiskalmar":
            for bnd in ("rectangle", "simplex"):
                out.append({"sub": "states", "shape": [[2, 3], [2, 2]], "boundary": bnd, "pairing": pname})
    for omit in (True, False):
        out.append({"sub": "zd", "pairing": "hyperbolic", "dim": 2, "omit": omit, "n": 6 if thorough else 4})
    # 1-d interval with a boundary strictly inside the grid (the 1-d branch of Domain takes the grid ends as frontier)
    for L in range(2, M1 + 1):
        for R in range(2, M1 + 1):
            out.append({"sub": "states", "shape": [[L, R]], "boundary": "rectangle"})
    # sizes beyond the thresholds visible to an implementation: more than 256 states (CPython shares the int objects -5..256
    # only: the restart protocol is driven with log sizes 256, 257, 300, half), and one interval beyond 65536 states
    for shape, bnd in BIG_SHAPES + [([[200, 70000]], "none")]:
        out.append({"sub": "states", "shape": shape, "boundary": bnd})
    # pairings in the dimensions the base class offers beyond the ones above (recursive d-dimensional pairing)
    out.append({"sub": "range-d", "pairing": "rosenbergstrong", "dim": 4, "zmax": 200_000 if thorough else 20_000, "n": 12 if thorough else 7})
    for name in ("szudzik", "pepiskalmar", "hyperbolic"):
        out.append({"sub": "range-d", "pairing": name, "dim": 3, "zmax": 20_000 if thorough else 3_000,
                    "n": (5 if name == "pepiskalmar" else 8) if thorough else (4 if name == "pepiskalmar" else 6)})
    out.append({"sub": "zd", "pairing": "rosenbergstrong", "dim": 4, "omit": True, "n": 3 if thorough else 2})
    out.append({"sub": "zd", "pairing": "szudzik", "dim": 3, "omit": True, "n": 4 if thorough else 2})
    # the enumeration seen through its only caller in the library, InversionMethod.sample_with_u, with a log of bounded
    # size (the library's bound is 1e6 states: scaled down here) and every history of `depth` draws over a menu of targets
    inv_shapes = [([[L, R]], "none") for L in range(1, 5) for R in range(1, 5) if L + R >= 4]
    inv_shapes += [([[a, b], [a, d]], "none") for a in (1, 2) for b in (1, 2) for d in (1, 2, 3)]
    inv_shapes += [([[1, 1], [1, 2], [1, 1]], "none"), ([[2, 1], [2, 2], [2, 1]], "none")]
    inv_shapes += [([[2, 3], [2, 2]], b) for b in ("rectangle", "simplex")] + [([[3, 2], [3, 4]], b) for b in ("rectangle", "simplex")]
    inv_shapes += [([[2, 2], [2, 3], [2, 2]], b) for b in ("rectangle", "simplex")] + [([[3, 4]], "rectangle")]
    # one-sided grids: the origin is the first / last point of the axis (the pairing gets an empty half axis)
    inv_shapes += [([[0, 3]], "none"), ([[3, 0]], "none"), ([[0, 5]], "none"), ([[4, 0]], "none"), ([[0, 5]], "rectangle"),
                   ([[0, 2], [0, 2]], "none"), ([[2, 0], [2, 1]], "none"), ([[0, 3], [0, 3]], "simplex")]
    if thorough:
        inv_shapes += [([[0, R]], "none") for R in (4, 6, 7, 8)] + [([[L, 0]], "none") for L in (5, 6, 7, 8)]
        inv_shapes += [([[L, 0]], "rectangle") for L in (4, 6)] + [([[0, b], [0, d]], "none") for b in (1, 3) for d in (2, 4)]
        inv_shapes += [([[3, 0], [3, 0]], b) for b in ("none", "rectangle", "simplex")]
        inv_shapes += [([[0, 1], [0, 2], [0, 1]], "none"), ([[2, 0], [2, 1], [2, 0]], "simplex")]
        inv_shapes += [([[a, b], [a, d]], "none") for a in (3, 4) for b in (2, 4) for d in (3, 5)]
        inv_shapes += [([[l, r1], [l, r2]], b) for b in ("rectangle", "simplex") for l in (2, 3) for r1 in (3, 5) for r2 in (2, 4)]
        inv_shapes += [([[2, r1], [2, r2], [2, r3]], b) for b in ("none", "rectangle", "simplex")
                       for r1, r2, r3 in itertools.product((2, 3), repeat=3)]
    seen_shapes = set()
    for shape, bnd in inv_shapes:
        if (repr(shape), bnd) in seen_shapes:
            continue
        seen_shapes.add((repr(shape), bnd))
        for storage in ("one", "two", "half", "all-but-two", "default"):
            deep = thorough or storage in ("two", "half")
            out.append({"sub": "inversion", "shape": shape, "boundary": bnd, "storage": storage, "depth": 3 if deep else 2})
    # log bounds beyond the small-integer threshold of the interpreter (256) on chains with more states than that; the
    # sampler computes its counter x (a new int object), the bound is its attribute: every word of 2 (thorough 3) draws
    for shape, bnd in BIG_SHAPES:
        for storage in (("256", "257", "300", "half") if (thorough or len(shape) == 1) else ("257", "300")) + (("400", "all-but-two") if thorough else ()):
            out.append({"sub": "inversion", "shape": shape, "boundary": bnd, "storage": storage,
                        "depth": 3 if (thorough and storage in ("257", "half")) else 2})
    # beyond 65536 states: one sampler, one history in which every ordered pair of targets occurs
    out.append({"sub": "inversion", "shape": [[200, 70000]], "boundary": "none", "storage": "65536", "depth": 0})
    if thorough:
        out.append({"sub": "inversion", "shape": [[200, 70000]], "boundary": "none", "storage": "32768", "depth": 0})
    if thorough:
        # the library's own bound, untouched: an interval with more states than the log holds, one sampler, one history
        # of draws in which every ordered pair of targets occurs
        out.append({"sub": "inversion", "shape": [[3, 1_000_030]], "boundary": "none", "storage": "default", "depth": 0})
    # argument forms and copies of every public entry point exercised above
    for name in ("cantor", "rosenbergstrong", "szudzik", "pepiskalmar", "hyperbolic"):
        out.append({"sub": "forms", "what": "pairing", "pairing": name, "n": 24 if thorough else 12, "zmax": 2000 if thorough else 400})
    for name, dim in (("szudzik", 2), ("rosenbergstrong", 2), ("cantor", 2), ("rosenbergstrong", 3), ("szudzik", 3)) + (
            (("hyperbolic", 2), ("pepiskalmar", 2), ("rosenbergstrong", 4)) if thorough else ()):
        for omit in (True, False):
            out.append({"sub": "forms", "what": "zd", "pairing": name, "dim": dim, "omit": omit,
                        "n": 1 if (name == "pepiskalmar" or dim == 4) else (2 if dim == 3 else 3)})
    for L, R in [(2, 5), (5, 2), (3, 3), (1, 1), (0, 4), (4, 0), (0, 1), (1, 0)] + ([(a, b) for a in range(0, 7) for b in range(0, 7) if a + b] if thorough else []):
        for omit in (True, False):
            out.append({"sub": "forms", "what": "z1d", "L": L, "R": R, "omit": omit})
    out.append({"sub": "forms", "what": "lazy"})
    for shape, bnd in [([[2, 3]], "none"), ([[0, 3]], "none"), ([[3, 0]], "none"), ([[3, 4]], "rectangle"), ([[1, 2], [1, 1]], "none"),
                       ([[0, 2], [0, 1]], "none"), ([[2, 3], [2, 2]], "rectangle"), ([[2, 3], [2, 2]], "simplex"), ([[1, 1], [1, 2], [1, 1]], "none")]:
        out.append({"sub": "forms", "what": "states", "shape": shape, "boundary": bnd})
    # histories on RE-USED objects: one Domain (with its grid and pairing) across refine() in place / re-assigned public
    # attributes / deepcopy / a second Domain used in between; a new StatesManager after every operation
    reuse = [([[1, 1]], "none"), ([[2, 3]], "none"), ([[3, 2]], "none"), ([[3, 3]], "rectangle"),
             ([[1, 1], [1, 1]], "none"), ([[1, 2], [1, 1]], "none"), ([[2, 1], [2, 3]], "none"), ([[2, 2], [2, 3]], "none"),
             ([[2, 3], [2, 2]], "rectangle"), ([[2, 3], [2, 2]], "simplex"), ([[3, 3], [3, 4]], "rectangle"), ([[3, 3], [3, 4]], "simplex"),
             ([[1, 1], [1, 1], [1, 1]], "none"), ([[1, 2], [1, 1], [1, 2]], "none"),
             ([[2, 2], [2, 3], [2, 2]], "rectangle"), ([[2, 2], [2, 3], [2, 2]], "simplex"),
             ([[0, 3]], "none"), ([[2, 0]], "none"), ([[0, 2], [0, 1]], "none")]
    if thorough:
        reuse += [([[0, 1]], "none"), ([[4, 0]], "rectangle"), ([[2, 0], [2, 2]], "none"), ([[0, 2], [0, 3]], "simplex"),
                  ([[0, 1], [0, 1], [0, 2]], "none")]
        reuse += [([[a, b], [a, d]], "none") for a in (1, 2, 3) for b in (1, 3) for d in (2, 4)]
        reuse += [([[2, r1], [2, r2], [2, r3]], b) for b in ("none", "simplex") for r1, r2, r3 in itertools.product((1, 2), repeat=3)]
    for shape, bnd in reuse:
        dim = len(shape)
        depth = 3 if (thorough and dim < 3) else 2
        for first in REUSE_OPS:
            out.append({"sub": "reuse", "shape": shape, "boundary": bnd, "first": first, "depth": depth})
    # whole hyperbolas n = (x+1)(y+1) of the hyperbolic pairing chosen by the factor structure of n relative to every
    # table / threshold T an implementation could hard-code: products of the primes just below / above T, and highly
    # composite n
    cap = 2 ** 40 if thorough else 2 ** 34
    for T in sorted(set([16, 100, 128, 256, 541, 1000, 1024, 4096, 7919, 10 ** 4, 2 ** 15, 2 ** 16, 10 ** 5]
                        + ([32, 64, 512, 2048, 8192, 2 ** 14, 2 ** 17, 2 ** 18, 10 ** 6, 2 ** 20] if thorough else []))):
        out.append({"sub": "hyperbola", "T": T, "cap": cap})
    out.append({"sub": "hyperbola", "T": None, "cap": cap})
    # intervals with up to 1e8 points on a side (the library's limit), 16-bit thresholds, one-sided
    big1 = [0, 3, 2 ** 15, 2 ** 16 + 1, 10 ** 8]
    for L in big1:
        for R in big1:
            if max(L, R) > 3:
                out.append({"sub": "z1d-large", "L": L, "R": R})
    # signed states with LARGE coordinates (2^15 .. 2^64: Python integers are unbounded), every pairing class, d = 2, 3, 4
    for name, dims in (("szudzik", (2, 3, 4)), ("rosenbergstrong", (2, 3, 4)), ("cantor", (2,)), ("pepiskalmar", (2, 3)), ("hyperbolic", (2, 3))):
        for dim in dims:
            out.append({"sub": "zd-large", "pairing": name, "dim": dim})
    return out


REUSE_OPS = ["refine", "regrid", "boundary", "copy", "dill", "other", "half"]
# chains with 600-1000 states (1-d two-sided / one-sided, 2-d with the origin off centre, 2-d with a boundary)
BIG_SHAPES = [([[350, 650]], "none"), ([[0, 600]], "none"), ([[9, 21], [9, 21]], "none"), ([[12, 18], [12, 20]], "rectangle")]


# ----------------------------------------------------------------------------------------------------------------------

def _proj2(p, name, z):
    r = p.projection2d(z) if name in ("cantor", "hyperbolic") else p.projection(z)
    return tuple(int(v) for v in r)


def _magnitude(z):
    if z < 2 ** 26:
        return "z<2^26"
    if z < 2 ** 53:
        return "2^26<=z<2^53"
    return "z>=2^53"


def check_case(sh, case):
    sub = case["sub"]
    globals()["_sub_" + sub.replace("-", "_")](sh, case)


def _sub_range_z(sh, case):
    name = case["pairing"]
    p = _pairings()[name]
    seen = set()
    for z in range(case["lo"], case["hi"]):
        xy = _proj2(p, name, z)
        sh.count("evaluations")
        if min(xy) < 0 or len(xy) != 2:
            sh.violation(f"C14:pairing2d:{name}:projection-not-in-N2:{_magnitude(z)}", f"projection({z}) = {xy}", {"z": z})
            continue
        back = p.pairing2d(*xy)
        if back != z:
            sh.violation(
                f"C14:pairing2d:{name}:pair-of-projection-differs:{_magnitude(z)}",
                f"pairing(projection({z})) = pairing({xy}) = {back}",
                {"z": z, "xy": xy, "back": back},
            )
        seen.add(xy)
    if len(seen) != case["hi"] - case["lo"]:
        sh.violation(f"C14:pairing2d:{name}:projection-not-injective:z<2^26", "two indices project to one pair", case)
    sh.outcome((name, len(seen), sum(a + b for a, b in list(seen)[:50])))
    sh.nontriv()


def _sub_range_xy(sh, case):
    name = case["pairing"]
    p = _pairings()[name]
    zs = set()
    n = 0
    for x in range(case["xlo"], case["xhi"]):
        for y in range(case["ymax"]):
            z = int(p.pairing2d(x, y))
            sh.count("evaluations")
            n += 1
            if z < 0:
                sh.violation(f"C14:pairing2d:{name}:negative-index", f"pairing({x},{y}) = {z}", {"x": x, "y": y})
                continue
            zs.add(z)
            if name == "pepiskalmar" and z > 2 ** 60:
                continue
            back = _proj2(p, name, z)
            if back != (x, y):
                sh.violation(
                    f"C14:pairing2d:{name}:projection-of-pair-differs:{_magnitude(z)}",
                    f"projection(pairing({x},{y})) = projection({z}) = {back}",
                    {"x": x, "y": y, "z": z, "back": back},
                )
    if len(zs) != n:
        sh.violation(f"C14:pairing2d:{name}:pairing-not-injective", "two pairs share an index", case)
    sh.outcome((name, case["xlo"], min(zs), max(zs)))
    sh.nontriv()


def _sub_range_z3(sh, case):
    p = _pairings()["rosenbergstrong"]
    seen = set()
    for z in range(case["lo"], case["hi"]):
        sh.count("evaluations")
        x = tuple(int(v) for v in p.projection(z, 3))
        if len(x) != 3 or min(x) < 0:
            sh.violation("C14:pairing3d:rosenbergstrong:projection-not-in-N3:z<2^26", f"projection({z},3) = {x}", {"z": z})
            continue
        back = p.pairing(x)
        if back != z:
            sh.violation(
                f"C14:pairing3d:rosenbergstrong:pair-of-projection-differs:{_magnitude(z)}",
                f"pairing(projection({z},3)) = pairing({x}) = {back}",
                {"z": z, "x": x},
            )
        seen.add(x)
    if len(seen) != case["hi"] - case["lo"]:
        sh.violation("C14:pairing3d:rosenbergstrong:projection-not-injective:z<2^26", "two indices share a triple", case)
    sh.outcome(("rs3", case["lo"], len(seen)))
    sh.nontriv()


def _sub_range_xyz(sh, case):
    p = _pairings()["rosenbergstrong"]
    n = case["n"]
    zs = set()
    cnt = 0
    for x in range(case["xlo"], case["xhi"]):
        for y in range(n):
            for w in range(n):
                sh.count("evaluations")
                cnt += 1
                z = p.pairing((x, y, w))
                zs.add(z)
                back = tuple(int(v) for v in p.projection(z, 3))
                if back != (x, y, w):
                    sh.violation(
                        f"C14:pairing3d:rosenbergstrong:projection-of-pair-differs:{_magnitude(z)}",
                        f"projection(pairing({(x, y, w)})) = projection({z}) = {back}",
                        {"xyz": (x, y, w), "z": z, "back": back},
                    )
    if len(zs) != cnt:
        sh.violation("C14:pairing3d:rosenbergstrong:pairing-not-injective", "two triples share an index", case)
    sh.outcome(("rs3xyz", case["xlo"], max(zs)))
    sh.nontriv()


def _sub_range_d(sh, case):
    """d-dimensional pairing / projection of the base class (recursive) and of Rosenberg-Strong for the dimensions not
    covered by the 2-d / 3-d ranges: all z < zmax and the whole cube [0,n)^d, both round trips."""
    name, dim, zmax, n = case["pairing"], case["dim"], case["zmax"], case["n"]
    p = _pairings()[name]
    seen = set()
    for z in range(zmax):
        sh.count("evaluations")
        x = tuple(int(v) for v in p.projection(z, dim))
        if len(x) != dim or min(x) < 0:
            sh.violation(f"C14:pairing{dim}d:{name}:projection-not-in-N{dim}:z<2^26", f"projection({z},{dim}) = {x}", {"z": z})
            continue
        back = p.pairing(x)
        if back != z:
            sh.violation(f"C14:pairing{dim}d:{name}:pair-of-projection-differs:{_magnitude(z)}",
                         f"pairing(projection({z},{dim})) = pairing({x}) = {back}", {"z": z, "x": x})
        seen.add(x)
    if len(seen) != zmax:
        sh.violation(f"C14:pairing{dim}d:{name}:projection-not-injective:z<2^26", "two indices share a tuple", case)
    zs = set()
    cnt = 0
    for t in itertools.product(range(n), repeat=dim):
        sh.count("evaluations")
        cnt += 1
        z = int(p.pairing(t))
        zs.add(z)
        if name in ("pepiskalmar", "hyperbolic") and z > 2 ** 40:
            continue  # the projection recurses / factorises over the size of z: injectivity only
        back = tuple(int(v) for v in p.projection(z, dim))
        if back != t:
            sh.violation(f"C14:pairing{dim}d:{name}:projection-of-pair-differs:{_magnitude(z)}",
                         f"projection(pairing({t})) = projection({z}) = {back}", {"t": t, "z": z, "back": back})
    if len(zs) != cnt:
        sh.violation(f"C14:pairing{dim}d:{name}:pairing-not-injective", "two tuples share an index", case)
    sh.outcome((name, dim, len(seen), max(zs)))
    sh.nontriv()


def _sub_powers2(sh, case):
    name = case["pairing"]
    p = _pairings()[name]
    for m in case["ms"]:
        for delta in range(-2, 3):
            z = m * m + delta
            sh.count("evaluations")
            try:
                xy = _proj2(p, name, z)
                back = p.pairing2d(*xy)
                ok = back == z and min(xy) >= 0
            except Exception as e:  # noqa
                xy, back, ok = repr(e), None, False
            if not ok:
                sh.violation(
                    f"C14:pairing2d:{name}:near-perfect-square:{_magnitude(z)}",
                    f"z = {m}^2{delta:+d}: projection = {xy}, pairing back = {back}",
                    {"m": m, "delta": delta, "z": z, "xy": xy, "back": back},
                )
            # also from the coordinate side on the shell boundary
            for xy0 in ((m, 0), (0, m), (m, m), (m - 1, m), (m, m - 1)):
                z0 = int(p.pairing2d(*xy0))
                try:
                    b0 = _proj2(p, name, z0)
                except Exception as e:  # noqa
                    b0 = repr(e)
                sh.count("evaluations")
                if b0 != xy0:
                    sh.violation(
                        f"C14:pairing2d:{name}:shell-boundary-roundtrip:{_magnitude(z0)}",
                        f"projection(pairing({xy0})) = {b0}",
                        {"xy": xy0, "z": z0, "back": b0},
                    )
    sh.outcome((name, "powers2"))
    sh.nontriv()


def _sub_powers3(sh, case):
    p = _pairings()["rosenbergstrong"]
    for m in case["ms"]:
        for delta in range(-2, 3):
            z = m ** 3 + delta
            sh.count("evaluations")
            try:
                x = tuple(int(v) for v in p.projection(z, 3))
                back = p.pairing(x)
                ok = back == z and min(x) >= 0
            except Exception as e:  # noqa
                x, back, ok = repr(e), None, False
            if not ok:
                sh.violation(
                    f"C14:pairing3d:rosenbergstrong:near-perfect-cube:{_magnitude(z)}",
                    f"z = {m}^3{delta:+d}: projection = {x}, pairing back = {back}",
                    {"m": m, "delta": delta, "z": z, "x": x, "back": back},
                )
    sh.outcome("powers3")
    sh.nontriv()


def _sub_zd(sh, case):
    from rpylib.distribution.pairing import PairingToZd

    name, dim, omit, n = case["pairing"], case["dim"], case["omit"], case["n"]
    p = PairingToZd(_pairings()[name], dimension=dim, omit_zero=omit)
    box = [t for t in itertools.product(range(-n, n + 1), repeat=dim) if not (omit and not any(t))]
    idx = {}
    for t in box:
        sh.count("evaluations")
        i = p.pair(t)
        if i < 0:
            sh.violation(f"C14:zd:{name}:d{dim}:negative-index", f"pair({t}) = {i}", {"state": t, "omit": omit})
            continue
        if i in idx:
            sh.violation(f"C14:zd:{name}:d{dim}:pair-not-injective", f"pair({t}) = pair({idx[i]}) = {i}", {"omit": omit})
        idx[i] = t
        if name == "pepiskalmar" and i > 2 ** 60:
            continue
        back = tuple(int(v) for v in p.project(i))
        if back != t:
            sh.violation(f"C14:zd:{name}:d{dim}:project-of-pair-differs", f"project(pair({t})) = project({i}) = {back}",
                         {"state": t, "omit": omit})
    if omit and any(not any(t) for t in idx.values()):
        sh.violation(f"C14:zd:{name}:d{dim}:origin-enumerated", "origin has an index although zero is omitted", case)
    # shell-enumerating pairings: the first (2n+1)^d (-1) indices are exactly the box
    if name == "rosenbergstrong" or (name == "szudzik" and dim == 2):
        N = (2 * n + 1) ** dim - (1 if omit else 0)
        got = [tuple(int(v) for v in p.project(i)) for i in range(N)]
        sh.count("evaluations", N)
        if sorted(got) != sorted(box):
            missing = sorted(set(box) - set(got))[:5]
            extra = sorted(set(got) - set(box))[:5]
            sh.violation(f"C14:zd:{name}:d{dim}:box-not-enumerated-exactly-once",
                         f"first {N} indices do not enumerate the box [-{n},{n}]^{dim}: missing {missing}, extra {extra}",
                         {"omit": omit})
        for i, t in enumerate(got):
            if p.pair(t) != i:
                sh.violation(f"C14:zd:{name}:d{dim}:pair-of-project-differs", f"pair(project({i})) = {p.pair(t)}", {"omit": omit})
                break
    sh.outcome((name, dim, omit, len(idx)))
    sh.nontriv()


def _z1d_reference(L, R):
    """Reference enumeration for [-L,R]\\{0}: 1,-1,2,-2,... while both sides last, then the longer side outwards."""
    out = []
    k = 1
    m = min(L, R)
    while k <= m:
        out += [k, -k]
        k += 1
    if R > L:
        out += list(range(m + 1, R + 1))
    else:
        out += [-x for x in range(m + 1, L + 1)]
    return out


def _dill_round_trip(o):
    import dill

    return dill.loads(dill.dumps(o))


def _copies():
    import copy

    return {"c": ("deepcopy", copy.deepcopy), "s": ("shallow-copy", copy.copy), "p": ("dill-round-trip", _dill_round_trip)}


_Z1D_COPIES = _copies()


def _sub_z1d(sh, case):
    import copy

    from rpylib.distribution.pairing import PairingToZ1d

    L, R, depth = case["L"], case["R"], case["depth"]
    omit = case.get("omit", True)
    kw = {} if omit else {"omit_zero": False}
    tag = "" if omit else "zero-kept:"
    n = L + R + (0 if omit else 1)
    states = [x for x in range(-L, R + 1) if x != 0 or not omit]
    # (1) increasing order on a fresh object
    p = PairingToZ1d((-L, R), **kw)
    seq = [int(p.project(i)) for i in range(n)]
    sh.count("evaluations", n)
    if L == 0 or R == 0:  # an empty half axis: classes of their own
        shape = tag + ("L=R=0" if L == R else ("L=0" if L == 0 else "R=0"))
    else:
        shape = tag + ("L=R" if L == R else ("L<R" if L < R else "L>R"))
    if sorted(seq) != states:
        sh.violation(f"C14:z1d:increasing-order-not-a-bijection:{shape}",
                     f"[-{L},{R}]: project(0..{n - 1}) = {seq}", {"seq": seq})
    if any(p.pair(s) != i for i, s in enumerate(seq)):
        sh.violation(f"C14:z1d:pair-does-not-invert-project:{shape}",
                     f"[-{L},{R}]: project = {seq}, pair(project) = {[p.pair(s) for s in seq]}", None)
    q = PairingToZ1d((-L, R), **kw)
    if sorted(q.pair(s) for s in states) != list(range(n)):
        sh.violation(f"C14:z1d:pair-not-onto-indices:{shape}", f"[-{L},{R}]: pair(states) = {[q.pair(s) for s in states]}", None)
    zero = [] if omit else [0]
    ref = seq if sorted(seq) == states else zero + _z1d_reference(L, R)
    if sorted(seq) == states:
        q = PairingToZ1d((-L, R), **kw)
        try:
            npseq = [int(q.project(np.int64(i))) for i in reversed(range(n))][::-1]
        except Exception as e:  # noqa  (the library itself calls project with the numpy integers numpy.random.choice returns)
            npseq = repr(e)
        try:
            nppair = [int(q.pair(np.int64(v))) for v in seq]
        except Exception:  # noqa  (a form the library does not use: rejected = outside the alphabet)
            sh.count("form-rejected-by-the-library:z1d:pair:numpy-int64")
            nppair = list(range(n))
        sh.count("evaluations", 2 * n)
        if npseq != seq or nppair != list(range(n)):
            sh.violation(f"C14:z1d:numpy-integer-argument-answers-differently:{shape}",
                         f"[-{L},{R}]: project(np.int64(i)) = {npseq}, project(i) = {seq}; pair(np.int64(project(i))) = {nppair}", None)

    # (2) call orders: explicit-state search; a state is the history of events on one object:
    #     i        project(i) on the object
    #     ["o", i] project(i) on a SECOND object of another interval, used in between (leak through the class-level cache)
    #     "c"      the object is replaced by a deepcopy of itself (the copy is used from then on)
    L2, R2 = R + 1, L  # the second interval switches to the other side
    n2 = L2 + R2 + (0 if omit else 1)
    ref2 = zero + _z1d_reference(L2, R2)
    shape2 = "L=0" if L2 == 0 else ("R=0" if R2 == 0 else ("L=R" if L2 == R2 else ("L<R" if L2 < R2 else "L>R")))
    other_menu = sorted({0, min(2 * min(L2, R2), n2 - 1), n2 - 1})

    def build(hist):
        o = PairingToZ1d((-L, R), **kw)
        o2 = PairingToZ1d((-L2, R2), **kw)
        obs = []
        for ev in hist:
            if isinstance(ev, str):
                o = _Z1D_COPIES[ev][1](o)
                obs.append(None)
            elif isinstance(ev, list):
                obs.append(int(o2.project(ev[1])))
            else:
                obs.append(int(o.project(ev)))
        return o, obs

    def menu(state, hist):
        return list(range(n)) + [["o", i] for i in other_menu] + list(_Z1D_COPIES)

    def canon(state, hist):
        o, obs = state
        since = max([j for j, ev in enumerate(hist) if isinstance(ev, str)], default=-1)
        kinds = tuple(sorted({ev for ev in hist if isinstance(ev, str)}))
        mine = tuple(sorted({(ev, ob) for ev, ob in zip(hist[since + 1:], obs[since + 1:]) if isinstance(ev, int)}))
        before = tuple(sorted({(ev, ob) for ev, ob in zip(hist[:since + 1], obs[:since + 1]) if isinstance(ev, int)}))
        others = tuple(sorted({(ev[1], ob) for ev, ob in zip(hist, obs) if isinstance(ev, list)}))
        return (getattr(o, "_switch", None), getattr(o, "_kk", None), mine, before, others, kinds)

    def invariant(state, hist, ev):
        o, obs = state
        if ev is None or isinstance(ev, str):
            return None
        mine = [e for e in hist if isinstance(e, int)]
        plain = len(mine) == len(hist)
        if isinstance(ev, list):
            if obs[-1] != ref2[ev[1]]:
                return (f"C14:z1d:project-depends-on-call-history:{shape}:second-object:{shape2}",
                        f"[-{L2},{R2}] used next to [-{L},{R}]: after events {hist[:-1]}, project({ev[1]}) on the second object = "
                        f"{obs[-1]} but its enumeration gives {ref2[ev[1]]}", {"history": hist, "observed": obs})
            return None
        if obs[-1] != ref[ev]:
            if not plain:
                last = [e for e in hist if isinstance(e, str)][-1:]
                cls = f"after-{_Z1D_COPIES[last[0]][0]}" if last else "second-object-in-between"
            else:
                cls = "out-of-increasing-order" if (hist != sorted(hist) or hist != list(range(hist[0], hist[0] + len(hist))) or hist[0] > min(L, R) * 2) else "in-order"
            return (f"C14:z1d:project-depends-on-call-history:{shape}:{cls}",
                    f"[-{L},{R}]: after events {hist[:-1]}, project({ev}) = {obs[-1]} but the enumeration in increasing order gives {ref[ev]}",
                    {"history": hist, "observed": obs})
        return None

    s, t, d = core.bfs(sh, build, menu, canon, invariant, depth)
    sh.count("evaluations", t)
    sh.outcome((L, R, omit, tuple(seq), s))
    sh.nontriv()
    if L == 2 and R == 4 and omit:
        sh.sample({"sub": "z1d", "interval": [-L, R], "increasing": seq, "bfs_states": s, "bfs_transitions": t})


# ----------------------------------------------------------------------------------------------------------------------
# argument forms and copies

def _ints(v):
    return tuple(int(x) for x in np.atleast_1d(np.asarray(v, dtype=object)).ravel())


class _Forms:
    """Differential oracle 'same answer as the usual form' (exact: integers). A form the library rejects (raises) is outside
    the alphabet and only counted, unless the library itself calls the entry point with that form (`used`): the indices
    numpy.random.choice hands to project() on exhaustion are numpy integers."""

    def __init__(self, sh, component):
        self.sh, self.component, self.reported = sh, component, set()

    def check(self, form, usual, call, where, used=False, arg=None):
        self.sh.count("evaluations")
        before = None if arg is None else np.array(arg, copy=True)
        try:
            got = _ints(call())
        except Exception as e:  # noqa
            if not used:
                self.sh.count(f"form-rejected-by-the-library:{self.component}:{form}")
                return
            got = repr(e)
        kind = None
        if got != _ints(usual):
            kind = "answers-differently-from-the-usual-form"
        elif before is not None and not np.array_equal(before, np.asarray(arg)):
            kind = "modifies-its-argument"
        if kind and (form, kind) not in self.reported:
            self.reported.add((form, kind))
            self.sh.violation(f"C14:forms:{self.component}:{form}:{kind}", f"{where}: {form} gives {got}, the usual form {_ints(usual)}"
                              + ("" if before is None else f"; argument before {before.tolist()}, after {np.asarray(arg).tolist()}"), None)


def _sub_forms(sh, case):
    """Every public entry point of the anchored classes called with each legal form of its arguments; see the docstring."""
    import copy

    from rpylib.distribution.pairing import Domain, PairingToZ1d, PairingToZd, StatesManager
    from rpylib.tools.generic import lazy_indices_product

    what = case["what"]
    if what == "pairing":
        name = case["pairing"]
        p = _pairings()[name]
        F = _Forms(sh, f"pairing:{name}")
        n, ny = case["n"], (min(case["n"], 10) if name == "pepiskalmar" else case["n"])
        pts = [(x, y) for x in range(n) for y in range(ny)] + ([] if name == "pepiskalmar" else [(3000, 5000), (5000, 3000), (4000, 4000)])
        for x, y in pts:
            z = p.pairing((x, y))
            w = f"pairing(({x},{y}))"
            F.check("pairing2d-of-ints", z, lambda: p.pairing2d(x, y), w, used=True)
            F.check("list", z, lambda: p.pairing([x, y]), w)
            a = np.array([x, y])
            F.check("int64-array", z, lambda: p.pairing(a), w, arg=a)
            a32 = np.array([x, y], dtype=np.int32)
            if max(x, y) < 1000:
                F.check("int32-array", z, lambda: p.pairing(a32), w, arg=a32)
            F.check("tuple-of-numpy-integers", z, lambda: p.pairing((np.int64(x), np.int64(y))), w)
            F.check("pairing2d-of-numpy-integers", z, lambda: p.pairing2d(np.int64(x), np.int64(y)), w)
            F.check("keyword", z, lambda: p.pairing(x=(x, y)), w)
        for z in list(range(case["zmax"])) + [10 ** 6 + k for k in range(-2, 3)]:
            t = _proj2(p, name, z)
            w = f"projection({z})"
            F.check("numpy-int64", t, lambda: p.projection(np.int64(z)), w, used=True)
            F.check("numpy-int32", t, lambda: p.projection(np.int32(z)), w)
            F.check("0-d-array", t, lambda: p.projection(np.array(z)), w)
            F.check("keywords", t, lambda: p.projection(z=z, dim=2), w)
            F.check("positional-dim", t, lambda: p.projection(z, 2), w)
            F.check("projection2d", t, lambda: p.projection2d(z), w)
        if name != "cantor":
            for z in range(case["zmax"] // 4):
                t = p.projection(z, 3)
                F.check("d3:numpy-int64", t, lambda: p.projection(np.int64(z), 3), f"projection({z},3)", used=True)
                F.check("d3:keywords", t, lambda: p.projection(z=z, dim=3), f"projection({z},3)")
                t = _ints(t)
                F.check("d3:list", z, lambda: p.pairing(list(t)), f"pairing({t})")
                F.check("d3:tuple-of-numpy-integers", z, lambda: p.pairing(tuple(np.int64(v) for v in t)), f"pairing({t})")
                a = np.array(t)
                F.check("d3:int64-array", z, lambda: p.pairing(a), f"pairing({t})", arg=a)
        sh.outcome(("forms", name, len(pts)))
    elif what == "zd":
        name, dim, omit, n = case["pairing"], case["dim"], case["omit"], case["n"]
        F = _Forms(sh, f"zd:{name}:d{dim}")
        for how_name, how in [("fresh", lambda o: o)] + [v for v in _copies().values()]:
            q = how(PairingToZd(_pairings()[name], dimension=dim, omit_zero=omit))
            p = PairingToZd(pairing=_pairings()[name], dimension=dim, omit_zero=omit)
            for t in itertools.product(range(-n, n + 1), repeat=dim):
                if omit and not any(t):
                    continue
                i = p.pair(t)
                w = f"pair({t}), omit_zero={omit}"
                if how_name != "fresh":
                    F.check(f"object-after-{how_name}", i, lambda: q.pair(t), w, used=how_name != "shallow-copy")
                    F.check(f"object-after-{how_name}", t, lambda: q.project(i), f"project({i})", used=how_name != "shallow-copy")
                    continue
                F.check("list", i, lambda: p.pair(list(t)), w)
                a = np.array(t)
                F.check("int64-array", i, lambda: p.pair(a), w, arg=a)
                F.check("tuple-of-numpy-integers", i, lambda: p.pair(tuple(np.int64(v) for v in t)), w)
                F.check("keyword", i, lambda: p.pair(x=t), w)
                F.check("project:numpy-int64", t, lambda: p.project(np.int64(i)), f"project({i})", used=True)
                F.check("project:0-d-array", t, lambda: p.project(np.array(i)), f"project({i})")
                F.check("project:keyword", t, lambda: p.project(x=i), f"project({i})")
        sh.outcome(("forms-zd", name, dim, omit))
    elif what == "z1d":
        L, R, omit = case["L"], case["R"], case["omit"]
        F = _Forms(sh, "z1d")
        usual = PairingToZ1d((-L, R), omit_zero=omit)
        n = L + R + (0 if omit else 1)
        seq = [usual.project(i) for i in range(n)]
        members = [v for v in range(-L, R + 1) if v != 0 or not omit]
        pairs = [usual.pair(v) for v in members]  # differential: whatever the usual form answers, right or wrong
        mutable = [-L, R]
        ctors = {"list": lambda: PairingToZ1d([-L, R], omit_zero=omit),
                 "int64-array": lambda: PairingToZ1d(np.array([-L, R]), omit_zero=omit),
                 "tuple-of-numpy-integers": lambda: PairingToZ1d((np.int64(-L), np.int64(R)), omit_zero=omit),
                 "keywords": lambda: PairingToZ1d(interval=(-L, R), omit_zero=omit),
                 "positional-omit-zero": lambda: PairingToZ1d((-L, R), omit),
                 "list-modified-by-the-caller-afterwards": lambda: PairingToZ1d(mutable, omit_zero=omit)}
        if omit:
            ctors["default-omit-zero"] = lambda: PairingToZ1d((-L, R))
        for form, ctor in ctors.items():
            w = f"PairingToZ1d([-{L},{R}], omit_zero={omit})"
            try:
                o = ctor()
            except Exception:  # noqa
                sh.count(f"form-rejected-by-the-library:z1d:constructor:{form}")
                continue
            mutable[0], mutable[1] = -L - 3, R + 3
            F.check(f"constructor:{form}", seq, lambda: [o.project(i) for i in range(n)], w + " project(0..)")
            F.check(f"constructor:{form}", pairs, lambda: [o.pair(v) for v in members], w + " pair(states)")
            mutable[0], mutable[1] = -L, R
        o = PairingToZ1d((-L, R), omit_zero=omit)
        F.check("project:keyword", seq, lambda: [o.project(x=i) for i in range(n)], "project(x=i)")
        o = PairingToZ1d((-L, R), omit_zero=omit)
        F.check("project:0-d-array", seq, lambda: [o.project(np.array(i)) for i in range(n)], "project(np.array(i))")
        F.check("pair:keyword", pairs, lambda: [o.pair(x=v) for v in members], "pair(x=state)")
        F.check("pair:numpy-int64", pairs, lambda: [o.pair(np.int64(v)) for v in members], "pair(np.int64(state))")
        o = PairingToZ1d((-L, R), omit_zero=omit)
        F.check("project:numpy-int64", seq, lambda: [o.project(np.int64(i)) for i in range(n)], "project(np.int64(i))", used=True)
        sh.outcome(("forms-z1d", L, R, omit, tuple(_ints(seq))))
    elif what == "lazy":
        F = _Forms(sh, "lazy-product")
        for length in range(1, 4):
            for sizes in itertools.product(range(1, 4), repeat=length):
                ref = [v for t in lazy_indices_product(list(sizes)) for v in t]
                w = f"lazy_indices_product({list(sizes)})"
                F.check("tuple", ref, lambda: [v for t in lazy_indices_product(tuple(sizes)) for v in t], w)
                a = np.array(sizes)
                F.check("int64-array", ref, lambda: [v for t in lazy_indices_product(a) for v in t], w, arg=a)
                lst = [np.int64(v) for v in sizes]
                F.check("list-of-numpy-integers", ref, lambda: [v for t in lazy_indices_product(lst) for v in t], w, arg=lst)
                lst2 = list(sizes)
                F.check("list", ref, lambda: [v for t in lazy_indices_product(lst2) for v in t], w, arg=lst2, used=True)
                F.check("keyword", ref, lambda: [v for t in lazy_indices_product(args=list(sizes)) for v in t], w)
        sh.outcome("forms-lazy")
    elif what == "states":
        shape = [tuple(x) for x in case["shape"]]
        bnd = case.get("boundary", "none")
        dim = len(shape)
        F = _Forms(sh, f"states:d{dim}")
        grid = make_grid(shape)
        pairing = _make_pairing(grid)
        boundary = _make_boundary(bnd, shape)
        ref = _reference_states(grid, boundary)

        def new():
            return StatesManager(pairing=pairing, domain=Domain(boundary=boundary, grid=grid, pairing=pairing), grid=grid)

        def run(sm, call, start=0):
            out = []
            for x in range(start, 4 * len(ref) + 50):
                inc, done = call(sm, x)
                if done:
                    return out + ["exhausted"]
                out.append(_key(inc))
            return out

        def flat(seq):
            return [v for t in seq for v in (t if isinstance(t, tuple) else (-99,))]

        with _ScriptedChoice():
            usual = run(new(), lambda sm, x: sm.project_index_to_state_increment(x))
            w = f"shape {shape}, boundary {bnd}"
            F.check("x-numpy-int64", flat(usual), lambda: flat(run(new(), lambda sm, x: sm.project_index_to_state_increment(np.int64(x)))), w)
            F.check("keywords", flat(usual), lambda: flat(run(new(), lambda sm, x: sm.project_index_to_state_increment(x=x, max_logged=-1))), w)
            F.check("positional-max-logged", flat(usual), lambda: flat(run(new(), lambda sm, x: sm.project_index_to_state_increment(x, -1))), w, used=True)
            F.check("constructor-positional", flat(usual),
                    lambda: flat(run(StatesManager(pairing, Domain(boundary, grid, pairing), grid), lambda sm, x: sm.project_index_to_state_increment(x))), w)
            # a copy of the manager taken in the middle of the enumeration continues like the original, and the original is
            # not disturbed by what its copy does afterwards
            plain = lambda sm, x: sm.project_index_to_state_increment(x)  # noqa
            for k in sorted({0, 1, (len(usual) - 1) // 2, len(usual) - 1}):
                for how_name, how in _copies().values():
                    sm = new()
                    for x in range(k):
                        sm.project_index_to_state_increment(x)
                    try:
                        cp = how(sm)
                    except Exception:  # noqa
                        sh.count(f"form-rejected-by-the-library:states:{how_name}")
                        continue
                    F.check(f"manager-after-{how_name}", flat(usual[k:]), lambda: flat(run(cp, plain, k)), w + f" copied after {k} states",
                            used=how_name != "shallow-copy")
                    F.check(f"original-after-its-{how_name}-was-used", flat(usual[k:]), lambda: flat(run(sm, plain, k)), w + f" copied after {k} states", used=True)
        sh.outcome(("forms-states", tuple(shape), bnd, len(usual)))
    else:
        raise AssertionError(what)
    sh.nontriv()
    sh.cls(f"forms:{what}")


def _sub_lazy(sh, case):
    from rpylib.tools.generic import lazy_indices_product

    sizes = case["sizes"]
    if case.get("prefix"):
        # sizes too large to enumerate (grids with up to 1e8 points per axis): the first `prefix` tuples against the
        # mixed-radix digits of 0, 1, 2, ... computed here in plain Python integers
        K = case["prefix"]
        arg = list(sizes)
        got = [tuple(int(v) for v in t) for t in itertools.islice(lazy_indices_product(arg), K)]
        ref = []
        for n in range(K):
            digits = []
            for s in reversed(sizes):
                n, r = divmod(n, s)
                digits.append(r)
            ref.append(tuple(reversed(digits)))
        sh.count("evaluations", K)
        if got != ref or arg != list(sizes):
            j = next((j for j, (a, b) in enumerate(zip(got, ref)) if a != b), min(len(got), len(ref)))
            sh.violation("C14:lazy-product:prefix-differs-from-mixed-radix-digits:large-sizes",
                         f"lazy_indices_product({sizes}): tuple number {j} is {got[j] if j < len(got) else None}, expected {ref[j] if j < len(ref) else None}"
                         f"; argument afterwards {arg}", None)
        sh.outcome((tuple(sizes), tuple(got[-1:])))
        sh.nontriv()
        return
    # the generator is never consumed beyond one tuple more than the product of the sizes: a wrong element count (1e9 tuples for
    # sizes [65537, 2] when the place values come from the wrong end) is reported by the comparison, not by exhausting memory
    cap = math.prod(int(x) for x in sizes) + 1
    got = [tuple(int(v) for v in t) for t in itertools.islice(lazy_indices_product(list(sizes)), cap)]
    ref = list(itertools.product(*[range(s) for s in sizes]))
    sh.count("evaluations", len(ref))
    cls = "all-sizes-equal" if len(set(sizes)) == 1 else "sizes-not-all-equal"
    if sorted(got) != sorted(ref):
        dup = len(got) - len(set(got))
        missing = sorted(set(ref) - set(got))[:4]
        sh.violation(f"C14:lazy-product:not-every-tuple-exactly-once:{cls}",
                     f"lazy_indices_product({sizes}): {len(got)} tuples, {dup} duplicates, missing e.g. {missing}",
                     {"got": got[:12]})
    # two generators alive at once (the second for the reversed sizes), consumed alternately: no shared state
    rev = list(reversed(sizes))
    g1, g2 = itertools.islice(lazy_indices_product(list(sizes)), cap), itertools.islice(lazy_indices_product(rev), cap)
    a, b = [], []
    for t1, t2 in itertools.zip_longest(g1, g2):
        if t1 is not None:
            a.append(tuple(int(v) for v in t1))
        if t2 is not None:
            b.append(tuple(int(v) for v in t2))
    again = [tuple(int(v) for v in t) for t in itertools.islice(lazy_indices_product(list(sizes)), cap)]
    sh.count("evaluations", 3 * len(ref))
    alone = [tuple(int(v) for v in t) for t in itertools.islice(lazy_indices_product(list(rev)), cap)]
    if a != got or again != got or b != alone:
        sh.violation(f"C14:lazy-product:depends-on-other-generators-or-earlier-calls:{cls}",
                     f"lazy_indices_product({sizes}) interleaved with lazy_indices_product({rev}), then called again: "
                     f"{a[:6]}... / {b[:6]}... / {again[:6]}... instead of {got[:6]}...", None)
    sh.outcome((tuple(sizes), tuple(got[:3])))
    sh.nontriv()
    if sizes == [2, 3]:
        sh.sample({"sub": "lazy", "sizes": sizes, "got": got})


def make_grid(shape):
    """A real CTMCGrid with per-axis (left,right) numbers of non-origin points; spacing 1.0 (values are irrelevant here).
    CTMCGrid takes one origin index for all axes, so the left sizes must agree; unequal left sizes are expressed by
    unequal right sizes only (the library has no constructor producing per-axis origins)."""
    from rpylib.grid.spatial import CTMCGrid

    left = shape[0][0]
    axes = [np.array([float(k) for k in range(-l, r + 1)]) for (l, r) in shape]
    return CTMCGrid(h=1.0, origin_coordinate=left, axes=axes)


# sizes of the caller's log beyond which an implementation detail of the interpreter / of fixed-width integers changes: CPython
# shares the int objects -5..256 only (256 is the last shared one), 16-bit limits
_LOG_THRESHOLDS = (256, 257, 300, 32768, 65536)


def _other_int(m):
    """An int equal to m that is ANOTHER object whenever the interpreter can make one (m outside CPython's shared -5..256)."""
    return int(str(m))


def _restart_protocol(sh, new_manager, got, key, where):
    """The protocol of the only caller of the enumeration (InversionMethod with a bounded log of m states), driven directly
    on a fresh manager, for every log size m of the menu and every form of the two arguments:
        project(0) without max_logged (the sampler's constructor);
        walk 1: x = 1, 2, ... up to the middle of the states beyond the log (the log gets full on the way),
        walk 2: restart right after the log (x = m, the counter is COMPUTED by the caller: x = len(log) - 1, then x += 1), two states,
        walk 3: restart, up to exhaustion (signalled exactly when x = number of admissible states),
        walk 4: restart after exhaustion, three states.
    Every walk must return the states of ranks start..target of the plain enumeration `got`, each once.
    Forms: max_logged the very object used as x at the restart ("same-object": project(m, m)), an equal int that is another
    object (what the sampler does: max_logged is its attribute, x is computed), numpy.int64 as max_logged, numpy.int64 as x,
    keywords. A form the library rejects is counted, unless it is one of the two the sampler can produce."""
    n = len(got)
    ms = {1, n // 2, n - 2} | {t for t in _LOG_THRESHOLDS if t + 4 <= n}
    forms = ("same-object", "equal-int-other-object", "numpy-int64", "x-numpy-int64", "keywords")
    if n > 5000:  # one long interval: only the log sizes that need it, the sampler's own form and numpy
        ms = {t for t in ms if t >= 32768} or {n // 2}
        forms = ("equal-int-other-object", "numpy-int64")
    reported = set()
    for m in sorted(t for t in ms if 1 <= t <= n - 2):
        logcls = "log<=256" if m <= 256 else ("log>256" if m < 32768 else "log>=32768")
        for form in forms:
            vkey = key if (logcls == "log<=256" and form == "same-object") else f"{key}:{logcls}:{form}"
            if vkey in reported:
                continue
            M = m if form == "same-object" else (np.int64(m) if form == "numpy-int64" else _other_int(m))

            def call(sm, x, restart):
                if form == "same-object" and restart:
                    x = M  # the same object for both arguments
                elif form == "x-numpy-int64":
                    x = np.int64(x)
                if form == "keywords":
                    inc, done = sm.project_index_to_state_increment(x=x, max_logged=M)
                else:
                    inc, done = sm.project_index_to_state_increment(x, M)
                sh.count("evaluations")
                return _key(inc), bool(done)

            def walk(sm, start, target, restart):
                out = []
                x = start - 1
                while x < target:
                    x = x + 1  # computed, as in sample_with_u: a new int object beyond the interpreter's shared ones
                    t, done = call(sm, x, restart)
                    restart = False
                    if done:
                        return out, True
                    out.append(t)
                return out, False

            t1 = min(n - 1, m + max(2, (n - m) // 2))
            plan = [(1, t1, False, got[1:t1 + 1], False), (m, m + 1, True, got[m:m + 2], False),
                    (m, n + 3, True, got[m:], True), (m, min(m + 2, n - 1), True, got[m:m + 3], False)]
            try:
                sm2 = new_manager()
                first = _key(sm2.project_index_to_state_increment(0)[0])
                results = [walk(sm2, a, b, r) for a, b, r, _, _ in plan]
            except Exception as e:  # noqa
                if form in ("same-object", "equal-int-other-object"):
                    reported.add(vkey)
                    sh.violation(f"{vkey}:raises-{type(e).__name__}", f"{where}: log of {m} states, arguments as {form}: {e!r}", {"m": m})
                else:
                    sh.count(f"form-rejected-by-the-library:states:restart:{form}")
                continue
            for j, ((a, b, r, exp, exp_done), (out, done)) in enumerate(zip(plan, results)):
                if out != exp or done != exp_done or first != got[0]:
                    reported.add(vkey)
                    nbad = sum(1 for u, v in zip(out, exp) if u != v) + abs(len(out) - len(exp))
                    sh.violation(vkey, f"{where}: log of {m} states, arguments as {form}: walk {j + 1} (x = {a}..{b}, max_logged = {m}"
                                       f"{', a restart' if r else ''}) returns {len(out)} states {out[:4]}..., exhausted = {done}; expected "
                                       f"{len(exp)} states {exp[:4]}..., exhausted = {exp_done} ({nbad} differ)",
                                 {"m": m, "form": form, "walk": j + 1, "returned": out[:40], "expected": exp[:40]})
                    break


def _sub_states(sh, case):
    from rpylib.distribution.pairing import (Boundary, Domain, PairingToZ1d, PairingToZd, RectangleBoundary, RosenbergStrong,
                                             SimplexBoundary, StatesManager, Szudzik)

    shape = [tuple(s) for s in case["shape"]]
    dim = len(shape)
    bnd = case.get("boundary", "none")
    if dim > 1 and len({s[0] for s in shape}) != 1:
        sh.count("skipped-unrepresentable-origin")
        return
    # right_point() of the library assumes one common axis length (FIXME in spatial.py) - enumeration itself does not
    grid = make_grid(shape)
    if dim == 1:
        (L, R), = shape
        pairing = PairingToZ1d((-L, R), omit_zero=True)
        ref = sorted((x,) for x in range(-L, R + 1) if x != 0)
    else:
        pname = case.get("pairing")
        pairing = PairingToZd(pairing=_pairings()[pname] if pname else (Szudzik() if dim == 2 else RosenbergStrong()), dimension=dim)
        ref = sorted(t for t in itertools.product(*[range(-l, r + 1) for (l, r) in shape]) if any(t))
    boundary = Boundary()
    if bnd != "none":
        # grid spacing is 1.0 and the origin value 0.0, so a state increment IS its grid point: the reference evaluates the
        # boundary predicate on every in-grid state (brute force), independently of frontier / largest-index bookkeeping
        boundary = _make_boundary(bnd, shape)
        ref = [t for t in ref if not bool(boundary(np.array([float(v) for v in t])))]
        if len(ref) < 2:
            raise AssertionError(f"alphabet error: boundary {bnd} leaves {len(ref)} states for {shape}")
    domain = Domain(boundary=boundary, grid=grid, pairing=pairing)
    equal = "equal-axes" if len(set(shape)) == 1 else "unequal-axes"
    if bnd != "none":
        equal = f"{bnd}-boundary:{equal}"
    if case.get("pairing"):
        equal = f"{case['pairing']}:{equal}"
    sym = "symmetric" if all(l == r for l, r in shape) else "asymmetric"
    if any(0 in lr for lr in shape):
        sym = "one-sided"  # the origin is the first / last point of an axis
    try:
        sm = StatesManager(pairing=pairing, domain=domain, grid=grid)
    except Exception as e:
        sh.violation(f"C14:states:d{dim}:{equal}:{sym}:constructor-raises:{type(e).__name__}", f"shape {shape}: {e!r}", None)
        return
    import numpy.random as npr

    calls = {"n": 0}
    orig_choice = npr.choice

    def choice(a, *args, **kw):
        calls["n"] += 1
        return list(a)[0]

    npr.choice = choice
    try:
        got = []
        x = 0
        limit = 4 * (max(sm.frontier_states_indices) + 2) + 50
        while x < limit:
            inc, done = sm.project_index_to_state_increment(x)
            sh.count("evaluations")
            if done:
                break
            got.append(tuple(int(v) for v in np.atleast_1d(inc)))
            x += 1  # the caller's protocol (InversionMethod): x counts the states obtained so far; no private field is read
        else:
            sh.violation(f"C14:states:d{dim}:{equal}:{sym}:no-exhaustion-signal", f"shape {shape}: no exhaustion after {limit} indices", None)
    finally:
        npr.choice = orig_choice
    dups = len(got) - len(set(got))
    missing = sorted(set(ref) - set(got))
    extra = sorted(set(got) - set(ref))
    if dups:
        sh.violation(f"C14:states:d{dim}:{equal}:{sym}:state-enumerated-twice", f"shape {shape}: {dups} duplicates in {got}", None)
    if extra:
        sh.violation(f"C14:states:d{dim}:{equal}:{sym}:inadmissible-state-enumerated", f"shape {shape}: {extra[:5]}", None)
    if missing:
        # classify: is the only missing state the one of largest index?
        idx = {t: (pairing.pair(t[0]) if dim == 1 else pairing.pair(t)) for t in ref}
        top = max(ref, key=lambda t: idx[t])
        cls = "only-the-state-of-largest-index" if missing == [top] else "several-states"
        sh.violation(f"C14:states:d{dim}:{equal}:{sym}:missing:{cls}",
                     f"shape {shape}: exhaustion signalled after {len(got)} of {len(ref)} states; missing {missing[:6]}",
                     {"missing": missing, "enumerated": got})
    # restart protocol of the only caller (InversionMethod with a full log): after the enumeration has passed the m-th
    # admissible state, a call with x == max_logged == m must resume with the (m+1)-th admissible state, whatever the pointer
    # had reached and however many pairing indices were skipped as inadmissible
    if not (dups or extra or missing) and len(got) >= 4:
        npr.choice = choice
        try:
            _restart_protocol(sh, lambda: StatesManager(pairing=pairing, domain=domain, grid=grid), got,
                              f"C14:states:d{dim}:{equal}:{sym}:restart-after-last-logged-state-does-not-resume-there", f"shape {shape}")
        finally:
            npr.choice = orig_choice
    sh.outcome((tuple(shape), bnd, tuple(got[:4]), len(got)))
    sh.nontriv()
    sh.cls(f"states:d{dim}:boundary-{bnd}")
    if shape in ([(2, 3)], [(1, 1), (1, 2)]):
        sh.sample({"sub": "states", "shape": shape, "enumerated": got, "reference_size": len(ref)})


# ----------------------------------------------------------------------------------------------------------------------
# the enumeration through its caller (InversionMethod) and on re-used objects

class _ScriptedChoice:
    """numpy.random.choice replaced by 'first element' while the library runs (the state handed out on exhaustion is drawn
    with the global generator; it is not judged here)."""

    def __enter__(self):
        import numpy.random as npr

        self._npr, self._orig = npr, npr.choice
        npr.choice = lambda a, *args, **kw: list(a)[0]
        return self

    def __exit__(self, *exc):
        self._npr.choice = self._orig
        return False


def _make_boundary(bnd, shape):
    from rpylib.distribution.pairing import Boundary, RectangleBoundary, SimplexBoundary

    # an empty half axis (l = 0 or r = 0) gets the truncation of a half axis of one point: never reached by a grid point, and
    # the library divides by it (simplex) / negates it (rectangle) without a guard for 0
    if bnd == "rectangle":
        return RectangleBoundary([(-(max(l, 1) - 0.5), max(r, 1) - 0.5) for (l, r) in shape])
    if bnd == "simplex":
        return SimplexBoundary([(-float(max(l, 1)), float(max(r, 1))) for (l, r) in shape])
    return Boundary()


def _make_pairing(grid):
    """The pairing the library's factory (create_sampling_inversion_method) takes for that grid."""
    from rpylib.distribution.pairing import PairingToZ1d, PairingToZd, RosenbergStrong, Szudzik

    dim = len(grid.axes)
    if dim == 1:
        left = int(tuple(grid.origin_coordinate)[0])
        return PairingToZ1d((-left, len(grid.axes[0]) - left - 1), omit_zero=True)
    return PairingToZd(pairing=Szudzik() if dim == 2 else RosenbergStrong(), dimension=dim)


def _key(inc):
    return tuple(int(v) for v in np.atleast_1d(inc))


def _reference_states(grid, boundary):
    """Brute force over the public description of the grid (axes, origin index): every index tuple but the origin whose
    grid point the boundary predicate accepts - no frontier, no largest index, no pairing involved."""
    origin = tuple(int(v) for v in grid.origin_coordinate)
    axes = [np.asarray(a, dtype=float) for a in grid.axes]
    ref = []
    for idx in itertools.product(*[range(len(a)) for a in axes]):
        inc = tuple(i - o for i, o in zip(idx, origin))
        if not any(inc):
            continue
        if bool(boundary(np.array([axes[k][i] for k, i in enumerate(idx)]))):
            continue
        ref.append(inc)
    return sorted(ref)


def _enumerate(sm, nref, stop_after=None):
    """project_index_to_state_increment over increasing indices, as a caller without log does it. Returns (states, exhausted)."""
    got = []
    limit = 4 * nref + 50
    for x in range(limit):
        if stop_after is not None and len(got) >= stop_after:
            return got, False
        inc, done = sm.project_index_to_state_increment(x)
        if done:
            return got, True
        got.append(_key(inc))
    return got, False


def _judge_enumeration(sh, prefix, what, got, exhausted, ref):
    """The oracle of the last sentence of the statement. Returns True when the enumeration is right."""
    sh.count("evaluations", len(got) + 1)
    ok = True
    if not exhausted:
        sh.violation(f"{prefix}:no-exhaustion-signal", f"{what}: no exhaustion after {len(got)} states ({len(ref)} admissible)", None)
        ok = False
    dups = len(got) - len(set(got))
    missing = sorted(set(ref) - set(got))
    extra = sorted(set(got) - set(ref))
    if dups:
        sh.violation(f"{prefix}:state-enumerated-twice", f"{what}: {dups} duplicates in {got[:12]}...", None)
    if extra:
        sh.violation(f"{prefix}:inadmissible-state-enumerated", f"{what}: {extra[:5]}", None)
    if missing:
        sh.violation(f"{prefix}:missing", f"{what}: exhaustion signalled after {len(got)} of {len(ref)} states; missing {missing[:6]}",
                     {"missing": missing[:40], "enumerated": got[:40]})
    return ok and not (dups or extra or missing)


_TARGETS_BOUNDED = ["first", "last-logged", "first-beyond", "second-beyond", "mid-beyond", "last", "exhaust"]
_TARGETS_UNBOUNDED = ["first", "mid", "last", "exhaust"]


def _sub_inversion(sh, case):
    """InversionMethod.sample_with_u on a real StatesManager, scripted u, probabilities that record the states they are
    asked for. Every word of `depth` draws over the target menu on a fresh sampler (depth 0: one sampler, one word in which
    every ordered pair of targets occurs). Oracle per draw, all exact:
      * the states walked through during the draw are a run of consecutive states of the enumeration, none twice, that
        starts no later than the first state never seen so far and ends with the state the draw needs (the last admissible
        state for a draw beyond the total mass: every state has then been produced before exhaustion was signalled);
      * the state returned is the state of that rank (inverse of the cumulated probabilities; u is the middle of the step)."""
    import copy

    from rpylib.distribution.pairing import Domain, StatesManager
    from rpylib.distribution.variate.inversion import InversionMethod

    shape = [tuple(x) for x in case["shape"]]
    dim, bnd, storage, depth = len(shape), case.get("boundary", "none"), case["storage"], case["depth"]
    grid = make_grid(shape)
    pairing = _make_pairing(grid)
    boundary = _make_boundary(bnd, shape)
    ref = _reference_states(grid, boundary)
    n = len(ref)
    with _ScriptedChoice():
        order, exhausted = _enumerate(StatesManager(pairing=pairing, domain=Domain(boundary=boundary, grid=grid, pairing=pairing), grid=grid), n)
    if sorted(order) != ref or not exhausted:
        sh.count("skipped-enumeration-wrong-without-sampler")  # reported by the sub-check 'states' (same shapes there)
        sh.note(f"inversion {shape} {bnd}: plain enumeration already differs from the reference; see C14:states")
        if depth:
            return
        order = sorted(ref, key=lambda t: pairing.pair(t[0] if dim == 1 else t))
    rank = {t: k for k, t in enumerate(order)}
    weights = [1 + (7 * k) % 5 for k in range(n)]
    total = sum(weights) / 0.9  # the probabilities add up to 0.9: u = 0.95 lies beyond the last state
    probs = [w / total for w in weights]
    cum = list(itertools.accumulate(probs))
    walked = []

    def probability(inc):
        t = _key(inc)
        walked.append(t)
        k = rank.get(t)
        return probs[k] if k is not None else 0.0

    def probability2(inc):  # of the second sampler: total mass far below the u it is drawn with
        walked.append(_key(inc))
        return 1e-4

    # (a bound given in figures is built at run time: an int object of its own, as the sampler's attribute is)
    K = int(storage) if storage.isdigit() else {"one": 1, "two": 2, "half": n // 2, "all-but-two": n - 2}.get(storage)
    if K is not None and not (1 <= K <= n - 2):
        sh.count("skipped-log-bound-not-below-number-of-states")
        return

    def fresh():
        del walked[:]
        sm = StatesManager(pairing=pairing, domain=Domain(boundary=boundary, grid=grid, pairing=pairing), grid=grid)
        smp = InversionMethod(probability_to_jump_to_state=probability, state_manager=sm)
        if K is not None:
            if not hasattr(smp, "_max_storage"):
                return None, None
            smp._max_storage = K
        keff = getattr(smp, "_max_storage", None)
        return smp, (keff if isinstance(keff, int) and 1 <= keff <= n - 2 else None)

    with _ScriptedChoice():
        smp, keff = fresh()
    if smp is None:
        sh.count("skipped-log-bound-attribute-not-found")
        return
    if keff is None:
        targets = {"first": 0, "mid": n // 2, "last": n - 1, "exhaust": None}
        names = _TARGETS_UNBOUNDED
        logcls = "log-holds-every-state"
    else:
        targets = {"first": 0, "last-logged": keff - 1, "first-beyond": keff, "second-beyond": min(keff + 1, n - 1),
                   "mid-beyond": (keff + n) // 2, "last": n - 1, "exhaust": None}
        names = _TARGETS_BOUNDED
        # (the size class of the log is part of the key: 256 is the last int object the interpreter shares)
        logcls = "log-full" if keff <= 256 else ("log-full:log>256" if keff < 32768 else "log-full:log>=32768")
    if depth:
        words = list(itertools.product(names, repeat=depth))
    else:
        # every ordered pair of targets as two consecutive draws of one history
        w = []
        for a in names:
            for b in names:
                w += [a, b]
        words = [tuple(w)]
    if depth:
        # "copy": the sampler is replaced by a deepcopy of itself between two draws (what the engines do when they hand the
        # process to the workers of a pool); "other": a second sampler on a larger grid draws beyond its total mass in between
        # "shallow" (words of depth 3 only): copy.copy of the sampler - log and manager are shared with the original
        words += [(a, ev, b) for ev in ("copy", "other") + (("shallow",) if depth >= 3 else ()) for a in names for b in names]
    bcls = "no-boundary" if bnd == "none" else f"{bnd}-boundary"
    if any(0 in lr for lr in shape):
        bcls += ":one-sided"
    prefix = f"C14:inversion:d{dim}:{bcls}:{logcls}"
    other_shape = [(l, r + 1) for (l, r) in shape]
    reported = set()

    def report(kind, what, detail):
        if kind not in reported:
            reported.add(kind)
            sh.violation(f"{prefix}:{kind}", what, detail)

    for wi, word in enumerate(words):
        with _ScriptedChoice():
            if depth or smp is None:
                smp, _ = fresh()
            seen_upto = max([rank[t] for t in walked if t in rank], default=-1) + 1  # first rank never asked for
            hist = []
            for name in word:
                hist.append(name)
                if name in ("copy", "shallow"):
                    smp = copy.deepcopy(smp) if name == "copy" else copy.copy(smp)
                    continue
                if name == "other":
                    g2 = make_grid(other_shape)
                    p2 = _make_pairing(g2)
                    keep = list(walked)
                    s2 = InversionMethod(probability_to_jump_to_state=probability2,
                                         state_manager=StatesManager(pairing=p2, domain=Domain(boundary=boundary, grid=g2, pairing=p2), grid=g2))
                    if K is not None:
                        s2._max_storage = K
                    s2.sample_with_u(0.999)
                    r2 = _reference_states(g2, boundary)
                    sh.count("evaluations")
                    if sorted(walked[len(keep):]) != r2:
                        report("second-sampler-in-between-does-not-walk-every-state-once",
                               f"shape {other_shape}, boundary {bnd}, used between the draws {hist} on {shape}: walked "
                               f"{len(walked) - len(keep)} states, {len(r2)} admissible", {"word": hist})
                    walked[:] = keep
                    continue
                k = targets[name]
                u = 0.95 if k is None else (cum[k] + (cum[k - 1] if k else 0.0)) / 2
                del walked[:]
                # u in the forms the library itself and its callers use: numpy.float64 (Uniform.sample), float, keyword
                form = (wi + len(hist)) % 3
                ret = _key(smp.sample_with_u(np.float64(u)) if form == 0 else (smp.sample_with_u(u) if form == 1 else smp.sample_with_u(u=u)))
                walk = list(walked)
                sh.count("evaluations")
                where = f"shape {shape}, boundary {bnd}, log bound {keff}, draws {hist}"
                ranks = [rank.get(t) for t in walk]
                end = (n - 1) if k is None else k
                if None in ranks or len(set(ranks)) != len(ranks):
                    report("state-walked-twice-or-inadmissible-in-one-draw", f"{where}: walked {walk[:12]}", {"word": hist})
                elif ranks and ranks != list(range(ranks[0], ranks[0] + len(ranks))):
                    report("walk-not-in-enumeration-order", f"{where}: ranks walked {ranks[:20]}", {"word": hist})
                elif ranks and ranks[0] > seen_upto:
                    report("states-skipped", f"{where}: the walk starts at rank {ranks[0]} but rank {seen_upto} was never produced",
                           {"word": hist, "ranks": ranks[:20]})
                elif (ranks and ranks[-1] != end) or (not ranks and seen_upto <= end):
                    report("walk-does-not-end-at-the-state-needed",
                           f"{where}: needs the state of rank {end}{' (all, then exhaustion)' if k is None else ''}; ranks walked "
                           f"{ranks[:6]}..{ranks[-3:]}; ranks below {seen_upto} produced before", {"word": hist})
                if k is not None and ret != order[k]:
                    report("draw-returns-wrong-state", f"{where}: u = {u!r} is in the step of rank {k} = {order[k]}, returned {ret}",
                           {"word": hist})
                if ranks and None not in ranks:
                    seen_upto = max(seen_upto, max(ranks) + 1)
    sh.outcome((tuple(shape), bnd, storage, keff, n, len(words)))
    sh.nontriv()
    sh.cls(f"inversion:d{dim}:boundary-{bnd}:{logcls}")
    if shape == [(2, 2), (2, 3)] and storage == "half":
        sh.sample({"sub": "inversion", "shape": shape, "log_bound": keff, "states": n, "words": len(words), "targets": targets})


def _sub_reuse(sh, case):
    """One Domain object kept through a history of public operations; after every operation a NEW StatesManager on it must
    enumerate exactly the admissible states of the grid / boundary the Domain has now. Words: `first` then every
    continuation of length depth-1 over REUSE_OPS (at most two refinements per word)."""
    import copy

    from rpylib.distribution.pairing import Boundary, Domain, RectangleBoundary, StatesManager
    from rpylib.distribution.variate.inversion import InversionMethod

    shape0 = [tuple(x) for x in case["shape"]]
    dim, bnd0, depth = len(shape0), case.get("boundary", "none"), case["depth"]
    bcls = "no-boundary" if bnd0 == "none" else f"{bnd0}-boundary"
    if any(0 in lr for lr in shape0):
        bcls += ":one-sided"
    reported = set()
    nwords = 0

    def judge(st, last, word):
        """new StatesManager on the kept Domain: direct enumeration, then the same through a sampler's exhausting draw"""
        G, D, P = st["G"], st["D"], st["P"]
        ref = _reference_states(G, D.boundary)
        if len(ref) < 1:
            # e.g. a rectangle fitted to the refined grid, then a coarser grid assigned: no admissible state, not a domain
            sh.count("reuse-word-cut-at-empty-domain")
            return False
        prefix = f"C14:reuse:d{dim}:{bcls}:after-{last}"
        if prefix in reported:
            return True
        with _ScriptedChoice():
            got, exhausted = _enumerate(StatesManager(pairing=P, domain=D, grid=G), len(ref))
        what = f"shape {shape0}, history {word} (axes now {[len(a) for a in G.axes]} points)"
        ok = _judge_enumeration(sh, prefix, what, got, exhausted, ref)
        if not ok:
            reported.add(prefix)
            return True
        walked = []

        def probability(inc):
            walked.append(_key(inc))
            return 0.5 / len(ref)

        with _ScriptedChoice():
            smp = InversionMethod(probability_to_jump_to_state=probability, state_manager=StatesManager(pairing=P, domain=D, grid=G))
            smp.sample_with_u(0.75)
        sh.count("evaluations", len(walked))
        if walked != got:
            reported.add(prefix)
            sh.violation(f"{prefix}:sampler-walk-differs-from-plain-enumeration",
                         f"{what}: a draw beyond the total mass walked {len(walked)} states {walked[:6]}..., the plain enumeration "
                         f"gives {len(got)} states {got[:6]}...", None)
        return True

    def apply(st, op):
        G, D, P = st["G"], st["D"], st["P"]
        if op == "refine":  # in place, as Coupling*.next_level does
            G.refine()
            if dim == 1:
                st["P"] = D.pairing = _make_pairing(G)
        elif op == "regrid":  # public attribute re-assigned: a larger grid (one more point to the right on every axis)
            sizes = [(int(tuple(G.origin_coordinate)[0]), len(a) - int(tuple(G.origin_coordinate)[0])) for a in G.axes]
            st["G"] = D.grid = make_grid(sizes)
            if dim == 1:
                st["P"] = D.pairing = _make_pairing(st["G"])
        elif op == "boundary":  # public attribute re-assigned: no boundary <-> rectangle at 3/4 of the grid's extent
            if type(D.boundary) is Boundary:
                cand = RectangleBoundary([(0.75 * float(a[0]), 0.75 * float(a[-1])) for a in G.axes])
                if len(_reference_states(G, cand)) >= 2:
                    D.boundary = cand
                else:
                    sh.count("reuse-boundary-op-left-out-too-few-states")
            else:
                D.boundary = Boundary()
        elif op in ("copy", "dill"):  # the copy is used from then on (dill: what a pool hands to its workers)
            st["D"] = D2 = copy.deepcopy(D) if op == "copy" else _dill_round_trip(D)
            st["G"], st["P"] = D2.grid, D2.pairing
        elif op == "other":  # a second Domain on a larger grid, same boundary / pairing objects where the pairing allows
            sizes = [(int(tuple(G.origin_coordinate)[0]) , len(a) - int(tuple(G.origin_coordinate)[0]) + 1) for a in G.axes]
            G2 = make_grid(sizes)
            P2 = P if dim > 1 else _make_pairing(G2)
            D2 = Domain(boundary=D.boundary, grid=G2, pairing=P2)
            ref2 = _reference_states(G2, D2.boundary)
            with _ScriptedChoice():
                got2, ex2 = _enumerate(StatesManager(pairing=P2, domain=D2, grid=G2), len(ref2))
            pre = f"C14:reuse:d{dim}:{bcls}:second-domain"
            if pre not in reported and not _judge_enumeration(sh, pre, f"shape {shape0}: second domain with axes {sizes}", got2, ex2, ref2):
                reported.add(pre)
        elif op == "half":  # a manager left half-way
            with _ScriptedChoice():
                _enumerate(StatesManager(pairing=P, domain=D, grid=G), 10 ** 6, stop_after=max(1, len(G.axes[0]) // 2))
        else:
            raise AssertionError(op)

    words = [(case["first"],) + rest for rest in itertools.product(REUSE_OPS, repeat=depth - 1)]
    for word in words:
        if word.count("refine") > 2:
            continue
        nwords += 1
        G = make_grid(shape0)
        P = _make_pairing(G)
        st = {"G": G, "P": P}
        st["D"] = Domain(boundary=_make_boundary(bnd0, shape0), grid=G, pairing=P)
        judge(st, "construction", [])
        for j, op in enumerate(word):
            apply(st, op)
            if not judge(st, op, list(word[:j + 1])):
                break
    sh.outcome((tuple(shape0), bnd0, case["first"], nwords))
    sh.nontriv()
    sh.cls(f"reuse:d{dim}:boundary-{bnd0}:first-{case['first']}")
    if shape0 == [(1, 2), (1, 1)] and case["first"] == "refine":
        sh.sample({"sub": "reuse", "shape": shape0, "words": [list(w) for w in words]})


# ----------------------------------------------------------------------------------------------------------------------
# whole hyperbolas of the hyperbolic pairing, chosen by the factor structure of n = (x+1)(y+1)

def _is_prime(n):
    if n < 2:
        return False
    if n % 2 == 0:
        return n == 2
    k = 3
    while k * k <= n:
        if n % k == 0:
            return False
        k += 2
    return True


def _next_prime(n):
    """smallest prime > n"""
    n += 1
    while not _is_prime(n):
        n += 1
    return n


def _prev_prime(n):
    """largest prime <= n"""
    while not _is_prime(n):
        n -= 1
    return n


def _divisor_summatory(n):
    """D(n) = sum_{k<=n} d(k), plain Python integers (Dirichlet hyperbola method)."""
    if n <= 0:
        return 0
    r = math.isqrt(n)
    return 2 * sum(n // k for k in range(1, r + 1)) - r * r


def _divisors(n):
    small = [a for a in range(1, math.isqrt(n) + 1) if n % a == 0]
    return sorted(set(small + [n // a for a in small]))


_HIGHLY_COMPOSITE = [720, 5040, 55440, 720720, 1441440, 4324320, 21621600, 367567200, 6983776800,
                     3628800, 479001600, 30030, 9699690, 223092870, 6469693230] + [2 ** k for k in (8, 10, 16, 20, 30, 32)] + [3 ** 20, 6 ** 12]


def _hyperbola_ns(case):
    """[(n, structure)] of one case: either the products of the primes around a threshold T, or the highly composite n."""
    cap = case["cap"]
    if case.get("T") is None:
        return [(n, "highly-composite") for n in _HIGHLY_COMPOSITE if n <= cap]
    T = case["T"]
    p = _next_prime(T)
    q = _next_prime(p)
    r = _next_prime(q)
    l = _prev_prime(T)
    ll = _prev_prime(l - 1)
    out = [(p, "p"), (l, "l"), (l * l, "l^2"), (ll * l, "k*l"), (l * p, "l*p"), (p * q, "p*q"), (p * p, "p^2"), (q * q, "q^2"), (p * r, "p*r"),
           (2 * p, "2*p"), (2 * p * q, "2*p*q"), (6 * p * p, "6*p^2"), (3 * p * q, "3*p*q"), (l * p * q, "l*p*q"), (p * p * q, "p^2*q"),
           (p * q * q, "p*q^2"), (p * q * r, "p*q*r"), (p ** 3, "p^3"), (p * p * q * q, "p^2*q^2"), (T * T, "T^2"), (T * p, "T*p")]
    if T <= 4096:
        for c, nm in ((p * p, "p^2"), (p * q, "p*q"), (T * T, "T^2")):
            out += [(c + d, f"next-to-{nm}") for d in (-2, -1, 1, 2)]
    seen, res = set(), []
    for n, s in out:
        if n not in seen and 2 <= n <= cap:
            seen.add(n)
            res.append((n, s))
    return res


def _sub_hyperbola(sh, case):
    """For every n of the case: the lattice points (a-1, n/a-1), a | n, get exactly the indices [D(n-1), D(n)) (D: own divisor
    summatory function), every index of the block projects back onto its point (all of them for n <= 2^24 or blocks of at
    most 64 points, the first / last 16 and 16 evenly spaced ones otherwise), the recursive 3-d pairing agrees on
    (projection2d(a-1), n/a-1), and the signed extension PairingToZd (zero omitted or kept) round-trips on the states
    folded onto those points."""
    from rpylib.distribution.pairing import PairingToZd, projection_to_z

    H = _pairings()["hyperbolic"]
    T = case.get("T")
    tcls = "highly-composite" if T is None else f"primes-around-{T}"
    zds = {omit: PairingToZd(_pairings()["hyperbolic"], dimension=2, omit_zero=omit) for omit in (True, False)}
    reported = set()

    def bad(failure, structure, what, detail=None):
        key = f"C14:hyperbola:hyperbolic:{failure}:{structure}:{tcls}"
        if key not in reported:
            reported.add(key)
            sh.violation(key, what, detail)

    nblocks = 0
    for n, structure in _hyperbola_ns(case):
        divs = _divisors(n)
        lo, hi = _divisor_summatory(n - 1), _divisor_summatory(n)
        if hi - lo != len(divs):
            raise AssertionError(f"reference inconsistent at n = {n}")
        nblocks += 1
        pts = [(a - 1, n // a - 1) for a in divs]
        idx = []
        for x, y in pts:
            sh.count("evaluations")
            z = H.pairing2d(x, y)
            if not isinstance(z, (int, np.integer)) or isinstance(z, bool):
                bad("index-not-an-integer", structure, f"pairing2d({x},{y}) = {z!r} on the hyperbola n = {n}")
            idx.append(int(z))
        if sorted(idx) != list(range(lo, hi)):
            dup = sorted({z for z in idx if idx.count(z) > 1})[:3] if len(idx) <= 4096 else []
            bad("points-do-not-get-the-index-block-exactly-once", structure,
                f"hyperbola n = {n} ({structure}, {len(divs)} divisors): the points get the indices {sorted(idx)[:8]}.. instead of "
                f"[{lo}, {hi}); shared indices {dup}", {"n": n, "points": pts[:8], "indices": idx[:8], "block": [lo, hi]})
        k = len(pts)
        if n <= 2 ** 24 or k <= 64:
            sel = list(range(k))
        else:
            sel = sorted(set(list(range(16)) + list(range(k - 16, k)) + [j * k // 16 for j in range(16)]))
            sh.count("hyperbola-blocks-projected-on-a-stated-subset")
        by_index = {}
        for (x, y), z in zip(pts, idx):
            by_index.setdefault(z, (x, y))
        for j in sel:
            z = lo + j
            sh.count("evaluations")
            try:
                back = tuple(int(v) for v in H.projection2d(z))
            except Exception as e:  # noqa
                back = repr(e)
            if isinstance(back, str) or len(back) != 2 or (back[0] + 1) * (back[1] + 1) != n:
                bad("projection-leaves-the-hyperbola", structure, f"projection2d({z}) = {back}, not on the hyperbola n = {n} of the block [{lo}, {hi})",
                    {"n": n, "z": z})
                continue
            if z in by_index and by_index[z] != back:
                bad("projection-of-pair-differs", structure, f"n = {n}: pairing2d{by_index[z]} = {z} but projection2d({z}) = {back}", {"n": n, "z": z})
            z2 = int(H.pairing2d(*back))
            if z2 != z:
                bad("pair-of-projection-differs", structure, f"n = {n}: projection2d({z}) = {back}, pairing2d back = {z2}", {"n": n, "z": z})
        # the points themselves (the state-side round trip), the 3-d recursion and the signed extension
        for j in sel:
            (x, y), z = pts[j], idx[j]
            sh.count("evaluations")
            try:
                back = tuple(int(v) for v in H.projection2d(z))
            except Exception as e:  # noqa
                back = repr(e)
            if back != (x, y):
                bad("projection-of-pair-differs", structure, f"n = {n}: projection2d(pairing2d({x},{y})) = projection2d({z}) = {back}", {"n": n, "z": z})
            s = (int(projection_to_z(x)), int(projection_to_z(y)))
            for omit, P in zds.items():
                if omit and not any(s):
                    continue
                sh.count("evaluations")
                try:
                    i = int(P.pair(s))
                    t = tuple(int(v) for v in P.project(i))
                    i2 = int(P.pair(tuple(int(v) for v in P.project(lo + j - (1 if omit else 0)))))
                except Exception as e:  # noqa
                    bad("signed-extension-raises", structure, f"n = {n}: PairingToZd(omit_zero={omit}) on the state {s}: {e!r}")
                    continue
                if t != s:
                    bad("signed-project-of-pair-differs", structure, f"n = {n}: PairingToZd(omit_zero={omit}).project(pair({s})) = project({i}) = {t}",
                        {"n": n, "state": s})
                if i2 != lo + j - (1 if omit else 0):
                    bad("signed-pair-of-project-differs", structure,
                        f"n = {n}: PairingToZd(omit_zero={omit}).pair(project({lo + j - (1 if omit else 0)})) = {i2}", {"n": n})
                if not lo <= i + (1 if omit else 0) < hi:
                    bad("signed-index-outside-the-block", structure, f"n = {n}: pair({s}) = {i}, block [{lo}, {hi}) (omit_zero={omit})", {"n": n})
            if x <= 2 ** 26:
                sh.count("evaluations")
                try:
                    t3 = tuple(int(v) for v in H.projection2d(x)) + (y,)
                    z3 = int(H.pairing(t3))
                    b3 = tuple(int(v) for v in H.projection(z, 3))
                except Exception as e:  # noqa
                    bad("3d-recursion-raises", structure, f"n = {n}: 3-d pairing over the point ({x},{y}): {e!r}")
                    continue
                if z3 != z or b3 != t3:
                    bad("3d-recursion-differs", structure, f"n = {n}: pairing({t3}) = {z3}, expected {z}; projection({z},3) = {b3}", {"n": n})
        sh.cls(f"hyperbola:{structure}")
    sh.outcome((tcls, nblocks))
    sh.nontriv()
    if T == 256:
        sh.sample({"sub": "hyperbola", "T": T, "hyperbolas": _hyperbola_ns(case)})


# ----------------------------------------------------------------------------------------------------------------------
# PairingToZd on states with large coordinates: closed forms in plain Python integers

def _fold(v):
    return 2 * v - 1 if v > 0 else -2 * v


def _ref_rosenbergstrong(x):
    z = x[0]
    for d in range(2, len(x) + 1):
        m = max(x[:d])
        z = z + m ** d + (m - x[d - 1]) * ((m + 1) ** (d - 1) - m ** (d - 1))
    return z


def _ref_nested(f2):
    def ref(x):
        z = x[0]
        for y in x[1:]:
            z = f2(z, y)
        return z
    return ref


_CLOSED_FORMS = {
    "rosenbergstrong": _ref_rosenbergstrong,
    "szudzik": _ref_nested(lambda a, b: a * a + a + b if a >= b else a + b * b),
    "cantor": _ref_nested(lambda a, b: ((a + b) ** 2 + 3 * a + b) // 2),
    "pepiskalmar": _ref_nested(lambda a, b: 2 ** b * (2 * a + 1) - 1),
}

_LARGE_MAGNITUDES = [("2^15", 2 ** 15), ("2^16", 2 ** 16), ("2^20", 2 ** 20), ("2^21", 2 ** 21), ("2^31", 2 ** 31), ("2^32", 2 ** 32),
                     ("1e8", 10 ** 8), ("2^62", 2 ** 62), ("2^63", 2 ** 63), ("2^64", 2 ** 64)]
_SMALL_FILL = (5, -2, 1, -3)


def _large_states(name, dim, thorough):
    """[(magnitude label, state)]: one large coordinate on each axis (the others small), two large ones, all large; both
    signs; the large value M-1, M, M+1.  Pepis-Kalmar (index 2^y (2x+1)): only the first axis is large; hyperbolic: the
    hyperbola must stay affordable (filtered by the caller)."""
    out = []
    for label, M in _LARGE_MAGNITUDES:
        for big in (M - 1, M, M + 1):
            for sgn in (1, -1):
                b = sgn * big
                pats = []
                for k in range(dim):
                    pats.append(tuple(b if j == k else _SMALL_FILL[j] for j in range(dim)))
                if name != "pepiskalmar":
                    pats.append(tuple(b if j % 2 == 0 else -b + (1 if j == 1 else 0) for j in range(dim)))  # all large
                    pats.append(tuple(b for _ in range(dim)))  # exact ties
                    if dim >= 3:
                        pats.append((b,) + tuple(_SMALL_FILL[j] for j in range(1, dim - 1)) + (-b,))
                        pats.append((0,) * (dim - 1) + (b,))
                        pats.append((b,) + (0,) * (dim - 1))
                else:
                    pats = pats[:1] + [(b,) + (0,) * (dim - 1), (b,) + (7,) * (dim - 1)]
                for s in pats:
                    out.append((label, s))
    seen, res = set(), []
    for label, s in out:
        if s not in seen:
            seen.add(s)
            res.append((label, s))
    return res


def _sub_zd_large(sh, case):
    """PairingToZd.pair / project at states with coordinates at and beyond 2^15 .. 2^64 (Python integers are unbounded: the
    unchanged tree accepts them), every argument form, judged by the closed form of the pairing evaluated here in plain
    Python integers (hyperbolic: membership of the index in the block of its hyperbola), by both round trips and by the
    type of the answer.  numpy forms only where 8 * (index + 1) fits the dtype (fixed-width arithmetic would overflow
    in the unchanged tree as well: outside the alphabet, counted)."""
    from rpylib.distribution.pairing import PairingToZd

    name, dim, thorough = case["pairing"], case["dim"], case.get("thorough", False)
    ref = _CLOSED_FORMS.get(name)
    reported = set()

    def bad(failure, label, what, detail=None):
        beyond = ":beyond-1e8-points-per-axis" if label in ("2^31", "2^32", "2^62", "2^63", "2^64") else ""
        key = f"C14:zd-large:{name}:d{dim}:{failure}:coordinates-near-{label}{beyond}"
        if key not in reported:
            reported.add(key)
            sh.violation(key, what, detail)

    def is_int(v):
        return isinstance(v, (int, np.integer)) and not isinstance(v, bool)

    nstates = 0
    for omit in (True, False):
        P = PairingToZd(_pairings()[name], dimension=dim, omit_zero=omit)
        om = 1 if omit else 0
        for label, s in _large_states(name, dim, thorough):
            f = tuple(_fold(v) for v in s)
            if name == "hyperbolic":
                # affordable hyperbolas only: n = (x+1)(y+1) <= 2^34 at every nesting level
                z, ok, blocks = f[0], True, []
                for y in f[1:]:
                    n = (z + 1) * (y + 1)
                    if n > 2 ** 34:
                        ok = False
                        break
                    blocks.append(n)
                    z = _divisor_summatory(n)  # upper end of the block: bounds the next level
                if not ok:
                    sh.count("zd-large:hyperbola-too-large-skipped")
                    continue
                expected = None
            else:
                expected = ref(f) - om
            nstates += 1
            sh.count("evaluations")
            try:
                i = P.pair(s)
            except Exception as e:  # noqa  (tuples of Python integers: the usual form, never rejected by the unchanged tree)
                bad("pair-raises", label, f"pair({s}), omit_zero={omit}: {e!r}")
                continue
            if not is_int(i):
                bad("index-not-an-integer", label, f"pair({s}) = {i!r} of type {type(i).__name__}")
                continue
            i = int(i)
            if expected is not None and i != expected:
                bad("pair-differs-from-the-closed-form", label, f"pair({s}), omit_zero={omit} = {i}, the closed form in Python integers gives {expected}",
                    {"state": s, "omit": omit, "got": i, "expected": expected})
            if expected is None:
                n = (f[0] + 1) * (f[1] + 1) if dim == 2 else None
                if n is not None and not _divisor_summatory(n - 1) <= i + om < _divisor_summatory(n):
                    bad("index-outside-the-block-of-its-hyperbola", label, f"pair({s}), omit_zero={omit} = {i}; hyperbola n = {n}: block "
                        f"[{_divisor_summatory(n - 1)}, {_divisor_summatory(n)})", {"state": s})
            if i < 0:
                bad("negative-index", label, f"pair({s}), omit_zero={omit} = {i}", {"state": s})
            # project(pair(s)) == s; judged on the index the closed form gives as well (pair(project(z)) == z)
            for z, side in ((i, "project-of-pair-differs"), (expected, "project-of-the-closed-form-index-differs")):
                if z is None or z < 0 or (side.startswith("project-of-the") and z == i):
                    continue
                if name == "pepiskalmar" and z.bit_length() > 900:
                    sh.count("zd-large:pepiskalmar-recursion-too-deep-skipped")
                    continue
                sh.count("evaluations")
                try:
                    t = P.project(z)
                    if not all(is_int(v) for v in t):
                        bad("state-not-of-integers", label, f"project({z}) = {t!r}")
                    t = tuple(int(v) for v in t)
                except Exception as e:  # noqa
                    t = repr(e)
                if t != s:
                    bad(side, label, f"project({z}) = {t} for the state {s} (omit_zero={omit}, pair gives {i})", {"state": s, "omit": omit})
            # neighbours of the index: pair(project(z)) == z
            if name != "pepiskalmar" or i.bit_length() <= 900:
                base = expected if expected is not None else i
                for z in (base - 1, base + 1):
                    if z < 0:
                        continue
                    sh.count("evaluations")
                    try:
                        t = tuple(int(v) for v in P.project(z))
                        if name == "hyperbolic" and max(abs(v) for v in t) > 2 ** 34:
                            continue
                        z2 = int(P.pair(t))
                    except Exception as e:  # noqa
                        z2 = repr(e)
                    if z2 != z:
                        bad("pair-of-project-differs", label, f"pair(project({z})) = {z2}, omit_zero={omit} (index next to the one of {s})",
                            {"z": z, "omit": omit})
            # argument forms of pair (differential against the Python-integer answer); numpy forms only where they fit
            usual = expected if expected is not None else i
            forms = [("list", lambda: P.pair(list(s)), None), ("keyword", lambda: P.pair(x=s), None)]
            for bits, dt in ((64, np.int64), (32, np.int32)):
                if 8 * (usual + om + 1) < 2 ** (bits - 1):
                    a = np.array(s, dtype=dt)
                    forms.append((f"int{bits}-array", lambda a=a: P.pair(a), a))
                    forms.append((f"tuple-of-numpy-int{bits}", lambda dt=dt: P.pair(tuple(dt(v) for v in s)), None))
                else:
                    sh.count(f"zd-large:numpy-int{bits}-form-would-overflow-outside-the-alphabet")
            for form, call, arg in forms:
                sh.count("evaluations")
                before = None if arg is None else arg.copy()
                try:
                    g = call()
                except Exception:  # noqa
                    sh.count(f"form-rejected-by-the-library:zd-large:{name}:{form}")
                    continue
                if not is_int(g) or int(g) != usual:
                    bad(f"form-answers-differently:{form}", label, f"pair({form} of {s}) = {g!r}, tuple of Python integers: {usual}", {"state": s})
                if before is not None and not np.array_equal(before, arg):
                    bad(f"form-modifies-its-argument:{form}", label, f"pair({form} of {s}) changed its argument to {arg.tolist()}")
            if usual + om >= 0 and 8 * (usual + om + 1) < 2 ** 63 and (name != "pepiskalmar" or usual.bit_length() <= 900):
                sh.count("evaluations")
                try:
                    t = tuple(int(v) for v in P.project(np.int64(usual)))
                except Exception:  # noqa
                    sh.count(f"form-rejected-by-the-library:zd-large:{name}:project:numpy-int64")
                    t = s
                if t != s:
                    bad("form-answers-differently:project:numpy-int64", label, f"project(np.int64({usual})) = {t}, state {s}", {"state": s})
        sh.cls(f"zd-large:{name}:d{dim}:omit-{omit}")
    # objects used alternately (zero omitted / kept: the indices differ by one) and an object RE-PARAMETRISED through its
    # public attributes (dimension, n_pairing re-assigned) must answer like a fresh object
    PT, PF = (PairingToZd(_pairings()[name], dimension=dim, omit_zero=o) for o in (True, False))
    other = "szudzik" if name != "szudzik" else "rosenbergstrong"
    Q = PairingToZd(_pairings()[other], dimension=2 if dim != 2 else 3, omit_zero=True)
    Q.pair((3, -2) if dim != 2 else (3, -2, 1))
    Q.project(11)
    Q.dimension = dim
    Q.n_pairing = _pairings()[name]
    for label, s in _large_states(name, dim, thorough)[:60:3]:
        if name == "hyperbolic" and (max(abs(v) for v in s) > 2 ** 16 or sorted(abs(v) for v in s)[-2] > 8):
            continue
        sh.count("evaluations", 3)
        try:
            a, b, c = int(PT.pair(s)), int(PF.pair(s)), int(Q.pair(s))
            tq = tuple(int(v) for v in Q.project(a))
            tf = tuple(int(v) for v in PF.project(b))
        except Exception as e:  # noqa
            bad("alternating-or-reparametrised-object-raises", label, f"state {s}: {e!r}")
            continue
        if b != a + 1 or tf != s:
            bad("zero-kept-and-zero-omitted-objects-disagree", label, f"state {s}: pair with zero omitted {a}, with zero kept {b}; project({b}) = {tf}")
        if c != a or tq != s:
            bad("reparametrised-object-answers-differently", label,
                f"object built with {other} / another dimension, then dimension = {dim} and n_pairing = {name} assigned: pair({s}) = {c}, "
                f"project({a}) = {tq}; a fresh object gives {a}")
    sh.outcome((name, dim, nstates))
    sh.nontriv()
    if name == "rosenbergstrong" and dim == 3:
        P = PairingToZd(_pairings()[name], dimension=3, omit_zero=True)
        sh.sample({"sub": "zd-large", "state": [2 ** 21, 5, -2], "index": int(P.pair((2 ** 21, 5, -2)))})


def _sub_z1d_large(sh, case):
    """PairingToZ1d on intervals with up to 1e8 points on a side (the library's limit; not enumerable): for the indices in the
    windows [0, 8), around the switch 2 min(L,R) and [n-8, n), and the states +-1, +-2, +-min(L,R) (+-1), the two ends and
    their neighbours: project(i) is a state of the interval, pair(project(i)) == i, project(pair(s)) == s, pair(s) in [0, n),
    no two probed indices / states share an image; numpy int64 arguments give the same.  Fresh object per direction."""
    from rpylib.distribution.pairing import PairingToZ1d

    L, R = case["L"], case["R"]
    shape = ("L=0" if L == 0 else "R=0" if R == 0 else "L=R" if L == R else "L<R" if L < R else "L>R") + ":large"
    for omit in (True, False):
        n = L + R + (0 if omit else 1)
        m = min(L, R)
        idx = sorted({i for w in (range(0, 8), range(2 * m - 6, 2 * m + 8), range(n - 8, n)) for i in w if 0 <= i < n})
        sts = sorted({v for c in (1, 2, m - 1, m, m + 1, m + 2, L - 1, L, R - 1, R) for v in (c, -c) if -L <= v <= R and (v != 0 or not omit)}
                     | ({0} if not omit else set()))
        for form, conv in (("python-int", int), ("numpy-int64", np.int64)):
            p = PairingToZ1d((-L, R), omit_zero=omit)
            q = PairingToZ1d((-L, R), omit_zero=omit)
            try:
                img = [int(p.project(conv(i))) for i in idx]
                back = [int(p.pair(conv(v))) for v in img]
                pre = [int(q.pair(conv(v))) for v in sts]
                rt = [int(q.project(conv(i))) for i in pre]
            except Exception as e:  # noqa
                if form == "python-int":
                    sh.violation(f"C14:z1d-large:raises:{shape}", f"[-{L},{R}], omit_zero={omit}: {e!r}", None)
                else:
                    sh.count("form-rejected-by-the-library:z1d-large:numpy-int64")
                continue
            sh.count("evaluations", 2 * len(idx) + 2 * len(sts))
            bad = None
            if any(not (-L <= v <= R) or (omit and v == 0) for v in img):
                bad = ("projects-outside-the-interval", f"project({idx}) = {img}")
            elif len(set(img)) != len(img):
                bad = ("two-indices-share-a-state", f"project({idx}) = {img}")
            elif back != idx:
                bad = ("pair-does-not-invert-project", f"project({idx}) = {img}, pair of those = {back}")
            elif any(not 0 <= i < n for i in pre) or len(set(pre)) != len(pre):
                bad = ("pair-not-into-distinct-indices", f"pair({sts}) = {pre}, n = {n}")
            elif rt != sts:
                bad = ("project-does-not-invert-pair", f"pair({sts}) = {pre}, project of those = {rt}")
            if bad:
                sh.violation(f"C14:z1d-large:{bad[0]}:{shape}:{form}", f"[-{L},{R}], omit_zero={omit}: {bad[1]}", None)
    sh.outcome((L, R))
    sh.nontriv()
