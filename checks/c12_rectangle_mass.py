"""C12 - rectangle mass of a Levy-copula model is a measure consistent with its margins.

Mode: lattice sweep (complete finite products), plus a history part: the lru_cache of the marginal tail integral, copies of a
used model (shallow / deep / pickle / dill, before and after truncation, then the copy or the original re-parametrised), a second
model used in between, a TWIN model alive at the same time that differs in exactly one constructor argument, ONE used model
walked through the copulas by the public setters, the construction route of the model under test, and the integrity of the
containers handed to the model (not modified, not kept).

Alphabet
  models     mc.alphabets.copula_model_specs(tier) (pairs and triples of HEM / VG / CGMY 0.5 / CGMY 1.2 / Merton margins under
             Clayton(theta, eta), independent and completely dependent copulas), as Levy models and as exponential models
  intervals  per coordinate the 8 interval types with two numeric instances each (the whole line has one): 15 intervals
             pos-fin (0.1,0.7] (0.02,0.1]     neg-fin (-1,-0.2] (-0.2,-0.03]    pos-inf (0.3,inf) (0.02,inf)
             neg-inf (-inf,-0.5] (-inf,-0.03] str-fin (-0.4,0.25] (-0.03,0.7]   str-left (-inf,0.3] (-inf,0.02]
             str-right (-0.2,inf) (-1,inf)    whole (-inf,inf)
             End points are Python floats.  A rectangle is in the space iff at least one coordinate interval is not a
             straddling type (= it does not contain the origin): 8^d - 4^d type patterns (48 / 448), 15^d - 7^d rectangles
             (176 / 3032) per model.
  splits     every finite end point of the alphabet {-1,-0.5,-0.4,-0.2,-0.03,0.02,0.1,0.25,0.3,0.7} strictly inside the
             interval of the coordinate being split, and 0 for straddling coordinates (the two pieces (a,0] and (0,b] then
             have an end point exactly at zero; they are checked like every other rectangle, against a reference that knows
             U(0+) = nu(0,inf) and U(0-) = -nu(-inf,0), finite for finite-activity margins and infinite otherwise, and that
             (a,0] contains the hyperplane x_k = 0 while (0,b] does not; this reference was validated against the 2-d
             quadrature of the joint density on (eps,b] x B, eps -> 0, plus the mass of {0} x B).
             mc.oracle.ref_rectangle_mass takes U(0+-) = +-inf: exact for infinite-activity margins, wrong for
             finite-activity ones at an end point 0 (it splits the mass of the hyperplane between the two pieces), so it
             is consulted on zero pieces only when the split coordinate has infinite activity.
             Zero splits of an infinite-activity coordinate need nu_k((0,inf)) = +inf from the margin: where the margin's
             closed form returns nan on that divergent integral (CGMY with y >= 1) the split is outside the alphabet
             (counter zero_split_skipped_margin_integral_not_inf).
  tiers      thorough = every model (Levy and exponential) x all rectangles; quick = the quick model list, d = 2 all
             rectangles, d = 3 all rectangles for the Clayton Levy models and, for the others, all 15 intervals in the
             first coordinate x first numeric instances in the second and third
             spelling: thorough = every model, quick = the first Levy model of every (dimension, copula kind);
             reparam: one case per margin tuple (quick: Levy models only)
  subsets    all non-empty proper index subsets I, all |I|-tuples of intervals that are not all straddling
  routes     how the model under test was reached (case["route"], build_model): "direct" (constructors called with the values);
             "reinit" (margins through mc.alphabets' reinit twin = donor parameter object re-assigned + initialisation();
             Clayton copula constructed as Clayton(1.9, 0.65) and re-assigned through `copula.theta = / copula.eta =` before
             the model is built); "reused" (model built with the donor Clayton copula and used - masses, sub-family mass, tail
             integrals, inverse - then `model.copula.eta = / model.copula.theta =` in place, or `model.copula = <target>` for
             the parameter-free copulas); "swapped" (model built with a copula of another class and used, then
             `model.copula = <fresh target copula>`). Every sub-check of the lattice (tails, subfamily, partition, history,
             rect) runs unchanged on the twins against the reference built from the target values.
             quick: per dimension the first Clayton model x 3 twin routes, first independent and first dependent pair x
             (reused, swapped); rect of the 3-d twins: first numeric instances. thorough: first pair and first triple under
             every copula x 3 twin routes.
  zeros      an end point equal to zero is written +0.0 and -0.0 (-0.0 == 0.0: the mirror -g[::-1] of a grid, -1 * 0.0):
             every zero piece of `rect` is asked again with -0.0 on a model that never saw +0.0 (mass and _mass_nd);
             `tails` asks U_i(-0.0), U_i(0.0) in both orders (two models; the memo treats them as one key); `history` has both
             writings in its query list (forward pass: +0.0 first, reverse pass: -0.0 first); `spelling` has a fresh model
             whose zeros are all negative. Only in coordinates where an end point 0 is inside the alphabet (finite activity,
             or nu_k((0,inf)) reported +inf by the margin).
  ties       models with IDENTICAL margins (hem,hem under the dependent and a Clayton copula, cgmy05,cgmy05 dependent, vg,vg
             independent, hem,hem,hem dependent; thorough: + hem,hem,hem Clayton(3,1) and vg,vg,vg independent): equal end points on
             two axes give exactly equal arguments of the copula; sub-checks tails, subfamily, partition, rect (d = 2: all
             rectangles; quick d = 3: first numeric instances in the second and third coordinate).
  extras     EXTRA_SPECS, six Clayton models outside mc.alphabets' quick list, in both tiers: the margin families missing from
             it (merton,hem2) and extreme legal copula parameters (theta = 0.1 eta = 0.5: hem,vg and hem,vg,cgmy05; theta = 6
             eta = 0.8: hem2,cgmy05 / merton,cgmy12 / merton,hem2,vg; with theta = 6 every |u|^-theta of the alphabet is finite).
             Sub-checks tails, subfamily, partition, rect (d = 2: all rectangles; quick d = 3: the 8 first instances x first
             instances), jointdensity, density (quick: first interval; d = 3: the pair [0, 2]).
             empty intervals a_k = b_k: every rectangle made of first numeric instances, each coordinate in turn collapsed to
             (b_k, b_k] ((a_k, a_k] where b_k is infinite): mass 0 by every route (`rect`, key empty-interval).
             The truncation bounds of `history` coincide with alphabet end points (-0.5, 0.7, 0.3).
  spellings  the Python objects carrying the end points (sub = spelling; one fresh model per spelling): tuples of floats
             (baseline) / lists / tuples of numpy float64 scalars / numpy arrays / keyword arguments a=, b= / -0.0 as tuples and
             as arrays - the forms in which distribution.samplingfactory, the grids and numerical.closedform call `mass` -
             / ONE pair of numpy arrays refilled in place before every call (reused-buffers) / the index family as a tuple and
             as a list of numpy int64 (named explicitly also for the full family; a form that the model rejects with an exception
             is counted spelling_form_rejected, never an alarm). After every call of every spelling the containers handed over
             (a, b, indices) are compared with copies taken before.
             Rectangles: first numeric instances of the 8 types + the zero-touching intervals (-0.4,0] (0,0.25] (-inf,0]
             (0,inf), at least one coordinate bounded away from zero, all index subsets (d = 3: types pos-fin, neg-fin,
             neg-inf, str-fin, whole + the two finite zero-touching intervals). `tails` also asks marginal_tail_integral with
             keywords (i=, x=: its own memo key, the form used by inverse_tail_integral and markovchainsde), with numpy
             scalars and with a numpy int64 coordinate index, tail_integrals(x=ndarray), margin_tail_integral(indices=, x=tuple),
             inverse_tail_integral(i=, x=numpy scalar) (the form of process.levycopulaseries).

  twins      TWIN_BASES (hem,vg / cgmy05,merton / hem,vg,cgmy05 Clayton(0.7,0.3); cgmy12,hem2 Clayton(3,1); exponential hem,cgmy05
             Clayton(0.7,0.3); vg,hem independent) x every model that differs from the base in EXACTLY ONE constructor argument:
             every parameter of every margin family in turn (hem: sigma p eta1 eta2 intensity; merton: sigma sigma_j mu_j intensity;
             vg: sigma nu theta; cgmy: c g m y; values TWIN_BUMPS; a constructor parameter absent from that table is counted
             twin_constructor_parameter_without_a_twin), spot / r / d of the exponential form of the last margin, theta and eta of
             the Clayton copula, the class of the copula, the order of the margins (rotation). Both tiers: every twin of every base
             (quick: the independent base has 4 twins). Rectangles: first numeric instances of the 8 types (d = 3: 5 types), all
             index subsets; abscissae POINTS_SUB; inverse targets 0.5, -0.5, 0.01, -2.

Sub-checks (sub = ...)
  twins      two models alive in one process that differ in one argument (e.g. only in p of a double-exponential margin, which
             HEMParameters.__repr__ does not print): the twin is built and asked first; then a base model and a second twin are
             asked ALTERNATELY (even rectangles / abscissae base first, odd ones twin first) for the same rectangles (mass,
             fast path, _mass_nd, sub-families), marginal tail integrals and inverse tail integrals, EACH against the reference
             built from its own values (keys C12:twins:<family.param | copula.theta | copula.eta | copula.class | margins.order |
             exp.arg>:...). Bit for bit: twin asked beside the base = twin asked first; a base model built afterwards = the base;
             deepcopy / dill copy of either = its original; copula / order twins: a model built around the margin OBJECTS of the used
             base = the twin, and the base unchanged by it. Hygiene: base == twin is False, != is True, the two are two members of a
             set and two keys of a dict (unhashable models are counted, not judged).
  rect       per rectangle: finite; mass >= -slack; fast path (model.mass, _mass_2d/_mass_3d) = _mass_nd; = reference mass
             (mc.oracle.ref_rectangle_mass and the zero-aware reference of this module); additivity under every split
  subfamily  (+ index lists of size >= 2, the full family included, in every order with the intervals permuted along: same
             mass, first numeric instances; d = 3: types pos-fin, neg-fin, neg-inf, str-fin, whole)
             per (I, rectangle in the I-subspace): mass(.., indices=I) = _mass_nd(.., I) = reference mass built from the
             I-margin of the copula (written here from the definition: signed sum over the other arguments at -inf/+inf)
             composed with the marginal tail integrals = mass of the full rectangle with the whole line in the other
             coordinates; for |I| = 1 also = the margin's own Levy mass nu_i((a,b])
  partition  the whole line of every other coordinate is cut at all alphabet points (11 pieces, one of them straddling
             zero); the sum of the masses over all products of pieces = nu_k((a_k,b_k]) for every non-straddling interval
  tails      marginal_tail_integral(i,x) = sign(x) nu_i(I(x)) on the alphabet (at x = +-0.0: I(0) = (0,inf), the value is
             nu_i((0,inf)), +inf for infinite activity; asked where the margin reports that integral as finite or +inf);
             margin_tail_integral(I, x) and tail_integrals(x) = I-margin of the copula at
             the marginal tail integrals, all subsets, all point tuples of a 6-letter sub-alphabet;
             inverse_tail_integral(i, U_i(x)) = x for x in the alphabet and at the ends +-1e-20, +-500 of the root bracket;
             U_i(inverse_tail_integral(i, y)) = y for y = +-{0.01, 0.5, 2, 50, 1000} and, for finite-activity margins, y = the
             end L of the attainable range (L = nu(0,inf) and -nu(-inf,0)), L(1 - 1e-6), L(1 + 1e-9), 2L. A y beyond the value
             of U_i at +-1e-12 (U_i is monotone on each side of zero: the generalised inverse then lies in (0, 1e-12]; this is
             every y beyond the attainable range of a finite-activity margin, where inf{x > 0: U(x) <= y} = 0 - the fallback
             branch of the library, reached by levycopulaseries) must give 0 <= sign(y) x <= 1e-12.
             argument integrity: tail_integrals / margin_tail_integral / the copula of the model itself called on ONE numpy
             buffer refilled in place: same values as with fresh tuples / arrays, buffer and index list unchanged after the call.
             memo sweep: 1100 distinct abscissae per coordinate on one model (the memo holds 2**10 entries), every tenth
             against the definition, the first 64 asked again afterwards: bit for bit what they were.
  history    one list of queries (masses incl. zero-touching rectangles in both writings of zero, tail integrals incl.
             U(+-0.0), inverses) is evaluated on a fresh model twice (second pass hits the cache), on another fresh model
             in reverse order, with the tail integrals first, on a deepcopy and on a pickle round trip of the used model,
             again on the used model after ANOTHER model (margins reversed, another copula) answered the same list, on a
             fresh model built after that, then again after truncate_levy_measure on the used model and on a fresh model
             truncated before its first query. Asserted bit for bit: pass 2 = pass 1, every order = forward, copies =
             original, unchanged by the other model, -0.0 = +0.0 within a pass, and warm-after-truncation =
             cold-after-truncation (the answer to a query is a function of the model and the rectangle, not of what was
             asked before, of which object asks, or of how zero is written). Also: a copy.copy and a dill round trip of the
             used model = original; a deepcopy of the used model truncated AFTER the copy (the route of MarkovChainLevyCopula) =
             fresh model truncated, and the original unchanged by it; deepcopy / dill / copy.copy of the used model taken
             AFTER its truncation = the truncated original. Whether truncation changes the masses at all is
             NOT asserted (DESIGN section 9 item 20: it does not reach `mass` on the pinned tree); it is recorded in the
             counter `truncation_changed_some_value`. (d = 3: the copy / other-model passes ask the tail integrals, the
             sub-family masses and the full rectangles over pos-fin, neg-fin, str-fin and the zero-touching intervals.)
  reparam    state = copula of ONE model that is used in every state; transitions = `model.copula.theta = ..` /
             `model.copula.eta = ..` (only the attributes that change: set-theta, set-eta, set-theta-eta) between Clayton
             copulas and `model.copula = ..` otherwise; every ordered pair of alphabet copulas (d = 2 and thorough: the 8
             of the thorough alphabet, 56 pairs; quick d = 3: the 5 quick copulas) is taken, the walk returning to the source
             through checked transitions. After each transition masses (all routes, all index subsets), tail integrals and
             tail_integrals are bit for bit those of a model freshly constructed with the target copula (which the lattice
             sub-checks compare with the reference). One case per margin tuple.
  copies     per margin tuple and kind of copy (deepcopy, dill, pickle, copy.copy): a model whose caches are all populated is
             copied; then the COPY, or the ORIGINAL, is re-parametrised (Clayton setters theta / eta / both; `.copula =`
             independent, dependent). deep copies: the object touched = fresh model with the target copula, the other one = fresh
             model with the source copula, bit for bit, all queries of `reparam`. copy.copy shares the copula object: after a
             setter both = fresh target model; `.copula =` on one of the two is recorded, not judged (see below).
             quick: the Levy models' margin tuples (2 pairs, 1 triple) x 4 kinds x 4 targets x {copy, original}; thorough: every
             margin tuple, Levy and exponential.
  density    (Clayton) mass of an off-axis finite rectangle = 2-d quadrature of the implied joint density
             d2F/du1du2 (U_1(x_1), U_2(x_2)) nu_1(x_1) nu_2(x_2) with the mixed derivative of the Clayton formula written
             here; for triples through the 2-margins (which are Clayton with eta = 1/2: verified against the
             definition-based margin before use, otherwise skipped and noted). Compared only when the quadrature's own
             error estimate is below 1e-9 relative, else counted as oracle_inconclusive.
  jointdensity (Clayton, FULL family, d = 2 and d = 3; one case per model and orthant = sign pattern, all 4 / 8 of them) mass of a
             finite rectangle inside the orthant = integral over it of the implied joint Levy density
             d^dF/du_1..du_d (U_1(x_1), .., U_d(x_d)) nu_1(x_1) .. nu_d(x_d), the density of the copula taken
             (i) from the d-dimensional Clayton formula written here (2^(2-d) |w| prod_{k<d}(1 + k theta) prod |u_i|^(-theta-1)
             (sum |u_i|^-theta)^(-1/theta-d)), at the reference tail integrals, with the densities of fresh margins, and
             (ii) from the library: `model.copula.x_first_derivative(u)` of the copula OF THE MODEL UNDER TEST at the model's own
             marginal_tail_integral, times the densities of the model's own margins - the joint density as the library itself
             builds it (markovchainsde._integral_zz: nu_i(x) nu_j(y) copula.x_first_derivative(u)); convention = the PLAIN mixed
             derivative of the copula (OPEN known finding of C11: the docstring says "times the product of the arguments"; a
             change to the docstring's convention would have to come with a change of that caller and of this sub-check).
             Before anything is evaluated a second Clayton copula with other parameters evaluates its value and its density on
             2- and 3-vectors (no state per class / module / dimension); after every call of x_first_derivative its argument
             array is compared with a copy.
             Quadrature: tensor Gauss-Legendre rules (the integrand is analytic on a rectangle that does not meet the axes). For
             (i), vectorised, n = 8, 12, .., 28 nodes per axis are tried in turn and rule n + 4 is taken when it agrees with
             rule n to 1e-10 relative (else oracle_inconclusive + jointdensity_rules_did_not_converge: the density of a strongly
             dependent copula is a ridge along U_i(x_i) = U_j(x_j) that a tensor rule resolves on narrow rectangles only; or
             + jointdensity_tail_integral_rounds_to_zero: Merton's far tail integrals cancel to -0.0 where its density is still
             1e-24 - the closed form of the margin, C09 - and the density of the copula cannot be evaluated at u = 0);
             (ii) is a scalar function and is integrated by that same rule when it has at most 24 nodes per axis (else counted
             library_density_skipped_rule_too_large): if it is the density, it is the same integrand.
             Intervals per side of zero: the two alphabet instances and a narrow one, (0.02,0.05] / (-0.06,-0.03]; d = 2 and
             thorough: all 3^d tuples; quick d = 3: narrow cube, second instances, one tuple of three different lengths; route
             twins (Clayton: reinit / reused / swapped, i.e. copula parameters set through the setters, copula object replaced
             on a used model) and the exponential models: two tuples (thorough exponential: three).

Outside the alphabet (statement silent): the density of the 2-margins of a 3-d model through the library (the library has no
density of an I-margin; `density` uses the formula written here with eta = 1/2; markovchainsde applies the d-dimensional
copula's x_first_derivative to 2-vectors, which for d = 3 and eta != 1/2 is not the density of the 2-margin - its subject, not
a route of LevyCopulaModel); x_first_derivative given lists / tuples (it reads u.size: rejected); assignment of `.copula` on a SHALLOW copy of a model (on the pinned tree `mass` is an
instance attribute holding the bound method of the original, so copy.copy(m).mass keeps reading m.copula while ._mass_nd reads the
copy's: counter shallow_copy_mass_still_bound_to_the_original; no library route makes shallow copies of models); changes of the
caller's `models` list after construction (the constructor keeps the list itself in .models; the masses use the measures captured
at construction); in-place changes of a MARGIN's parameters inside a constructed copula model (like
truncation they do not reach `mass`: the marginal Levy measures are captured at construction; observation, not asserted);
FrankLevyCopula (never used by the library; as coded it is a Levy copula for one-sided margins only: on two-sided margins its
I-margins are 2^(d-1) u and straddling rectangles get negative mass - C11's subject, reported, not enumerated here);
index subsets given as numpy arrays (rejected), a > b; rectangles containing the origin (all coordinates straddling, or
closure touching the origin in every coordinate); 1-d sub-family intervals containing 0; Python ints and numpy float32 as end
points (sign() dispatches on float: rejected with TypeError, like integer-dtype arrays and arrays of shape (1,n)); the inverse
at y = 0 (the value of U at +-inf) and at |y| above 1e3 (the absolute xtol of the root search is then coarser than 1e-9 relative);
the value of the masses after
truncate_levy_measure; closed-form marginal integrals against the density (C09) and copula axioms (C11).

Tolerances: every compared quantity is a signed sum of at most ~30 copula values, each bounded in modulus by
S = max over the non-straddling coordinates of max(|U(a_i)|, |U(b_i)|) (a Levy copula is bounded by each argument), so
re-association differences are a few ulps of S: |x-y| <= 1e-12 S + 1e-9 max(|x|,|y|); non-negativity slack 1e-13 S;
partition sums (up to 121 terms) 1e-11 S.
Density, jointdensity: rtol 1e-8 (nested quadrature / rule error estimate <= 1e-10) + 1e-12 min_i max(|U_i(a_i)|,|U_i(b_i)|) (the 2^d copula values of an off-axis
rectangle are bounded by every argument; far-tail rectangles of a strongly dependent copula are pure cancellation).
Inverse: |x' - x| <= 1e-12 + 1e-9 |x|, or U(x') = y to 1e-9 relative + 16 ulps of the margin's total mass (finite activity).
"""
from __future__ import annotations

import itertools
import math
import warnings

import numpy as np

from mc import alphabets as A
from mc import core
from mc import oracle as O

PID = "C12"
LEVEL = "exploration"
RULE = (
    "complete product of copula models x d-tuples of the 15 alphabet intervals per coordinate minus the tuples that "
    "contain the origin, x all alphabet split points per coordinate (zero written +0.0 and -0.0), x all index subsets, x "
    "construction routes (direct / reinit / reused / swapped), x spellings of the end points and of the index family, x all "
    "ordered pairs of copulas on one used model, x kinds of copy x object re-parametrised x target copula; identical margins; "
    "empty intervals; base models x all models differing from them in exactly one constructor argument (margin parameter, "
    "exponential-form argument, copula parameter, copula class, order of the margins), both alive and asked alternately; "
    "Clayton models x all orthants x tuples of finite intervals inside the orthant for the integral of the joint "
    "density (formula written here and the library's x_first_derivative, d = 2 and 3); extra models (Merton / HEM2 margins, "
    "theta = 0.1 and 6); a case is non-trivial when at "
    "least one mass of the real model was compared with the reference or with another route of the real code; "
    "distinct = distinct case dict (model, fixed first interval / sub-check)"
)
ASSUMPTIONS = [
    "interval end points, split points and tail-integral arguments are restricted to the stated alphabet of Python floats",
    "the reference mass shares the copula function (C11) and the margins' closed-form integrate (C09) with the library; "
    "everything else (I-margins, straddle decomposition, tail integrals at zero, signed volume) is re-derived here",
    "values of the masses after truncate_levy_measure are not asserted, only their independence of the query history",
    "a copula parameter set through the public setters of a copula object (or a copula assigned to model.copula) is an input "
    "like a constructor argument: the used model must then equal a freshly constructed one; in-place changes of a margin inside "
    "a constructed copula model are not covered",
    "-0.0 and 0.0, and float / numpy.float64 / ndarray carriers, denote the same end points",
    "two models constructed with different arguments are different models: they do not compare equal and are distinct keys of a "
    "dict (whatever __eq__ / __hash__ the class defines); the answers of a model do not depend on which other models are alive",
    "a deep copy (copy.deepcopy, pickle, dill) of a model is an independent model: re-parametrising one of the two through the "
    "public setters leaves the other one as it was; for |y| beyond the value of U at +-1e-12 the inverse tail integral is a "
    "point of [0, 1e-12] on the side of y (generalised inverse of a monotone function)",
    "joint-density quadrature (Clayton only) uses scipy nested adaptive quadrature (2-margins) and tensor Gauss-Legendre rules "
    "(full family) and is compared only when its own error estimate is below 1e-9 relative",
    "the joint density implied by the library is copula.x_first_derivative(U(x)) * prod nu_i(x_i) with x_first_derivative the "
    "plain mixed derivative of the copula, as its only caller in the library uses it (open C11 finding about its docstring); it is "
    "integrated by the Gauss-Legendre rule that was accurate (two rules agreeing to 1e-10) for the same density written in the check",
]
CHUNK = 1

INF = math.inf

# the infinite-activity zero-splits are finite whenever another coordinate is bounded away from zero; the same reference
# applies (U(0+) = +inf, U(0-) = -inf). Kept behind a switch because DESIGN.md section 6 planned them for finite activity only.
ZERO_SPLIT_INFINITE_ACTIVITY = True

TYPES = [
    ("pos-fin", [(0.1, 0.7), (0.02, 0.1)]),
    ("neg-fin", [(-1.0, -0.2), (-0.2, -0.03)]),
    ("pos-inf", [(0.3, INF), (0.02, INF)]),
    ("neg-inf", [(-INF, -0.5), (-INF, -0.03)]),
    ("str-fin", [(-0.4, 0.25), (-0.03, 0.7)]),
    ("str-left", [(-INF, 0.3), (-INF, 0.02)]),
    ("str-right", [(-0.2, INF), (-1.0, INF)]),
    ("whole", [(-INF, INF)]),
]
STRADDLING = {"str-fin", "str-left", "str-right", "whole"}
# simplest first: first instances of every type, then second instances
INTERVALS = [{"t": t, "k": 0, "a": inst[0][0], "b": inst[0][1]} for t, inst in TYPES] + [
    {"t": t, "k": 1, "a": inst[1][0], "b": inst[1][1]} for t, inst in TYPES if len(inst) > 1
]
FIRST = [i for i, iv in enumerate(INTERVALS) if iv["k"] == 0]
POINTS = sorted({x for iv in INTERVALS for x in (iv["a"], iv["b"]) if math.isfinite(x)})
POINTS_SUB = [-1.0, -0.2, -0.03, 0.02, 0.1, 0.7]
Y_ALPHABET = [0.01, 0.5, 2.0, 50.0, 1000.0]
TRUNCATIONS = [(-0.5, 0.7), (-0.25, 0.15), (-1.5, 0.3)]

# construction routes of the model under test (the property quantifies over models, not over how they were reached)
ROUTES = ("direct", "reinit", "reused", "swapped")
TWIN_ROUTES = ROUTES[1:]
DONOR_CLAYTON = {"kind": "clayton", "theta": 1.9, "eta": 0.65}  # differs from every alphabet copula in both parameters
# zero-touching intervals of the spelling / history alphabets (the two pieces of a straddling interval split at zero)
ZERO_INTERVALS = [(-0.4, 0.0), (0.0, 0.25), (-INF, 0.0), (0.0, INF)]
SMALL_TYPES = {"pos-fin", "neg-fin", "str-fin", "neg-inf", "whole"}
CORE_TYPES = {"pos-fin", "neg-fin", "str-fin"}
SPELLINGS = ("list", "np-scalars", "ndarray", "keywords", "negzero", "negzero-ndarray", "reused-buffers", "indices-tuple",
             "indices-np-int64")
# models whose margins are IDENTICAL (equal tail integrals on two axes at equal end points: exact ties in the copula's arguments)
TIE_SPECS = [
    {"margins": ["hem", "hem"], "copula": {"kind": "dependent"}},
    {"margins": ["hem", "hem"], "copula": {"kind": "clayton", "theta": 0.7, "eta": 0.3}},
    {"margins": ["cgmy05", "cgmy05"], "copula": {"kind": "dependent"}},
    {"margins": ["vg", "vg"], "copula": {"kind": "independent"}},
    {"margins": ["hem", "hem", "hem"], "copula": {"kind": "dependent"}},
]
TIE_SPECS_THOROUGH = [
    {"margins": ["hem", "hem", "hem"], "copula": {"kind": "clayton", "theta": 3.0, "eta": 1.0}},
    {"margins": ["vg", "vg", "vg"], "copula": {"kind": "independent"}},
]
# copies of a used model followed by a re-parametrisation of the copy or of the original (sub = copies)
COPY_KINDS = ("deepcopy", "dill", "pickle", "shallow")
COPY_TARGETS = [{"kind": "clayton", "theta": 3.0, "eta": 1.0}, {"kind": "independent"}]
COPY_TARGETS_THOROUGH = COPY_TARGETS + [{"kind": "clayton", "theta": 0.7, "eta": 0.0}, {"kind": "dependent"}]
# models outside mc.alphabets' quick list: margin families absent from it (Merton, the asymmetric zero-diffusion HEM) and
# Clayton copulas with extreme but legal parameters (theta = 0.1: nearly independent; theta = 6: nearly completely dependent;
# with theta = 6 every |u|^-theta of the alphabet stays finite: the smallest tail integral of the alphabet is 3.9e-31)
EXTRA_SPECS = [
    {"margins": ["merton", "hem2"], "copula": {"kind": "clayton", "theta": 0.7, "eta": 0.3}},
    {"margins": ["hem", "vg"], "copula": {"kind": "clayton", "theta": 0.1, "eta": 0.5}},
    {"margins": ["hem2", "cgmy05"], "copula": {"kind": "clayton", "theta": 6.0, "eta": 0.8}},
    {"margins": ["merton", "cgmy12"], "copula": {"kind": "clayton", "theta": 6.0, "eta": 0.8}},
    {"margins": ["hem", "vg", "cgmy05"], "copula": {"kind": "clayton", "theta": 0.1, "eta": 0.5}},
    {"margins": ["merton", "hem2", "vg"], "copula": {"kind": "clayton", "theta": 6.0, "eta": 0.8}},
]
# sub = twins: a second model that differs from the base model in EXACTLY ONE constructor argument, alive at the same time.
# value given to the one parameter that differs (none of them occurs in mc.alphabets' parameter sets or defaults)
TWIN_BUMPS = {
    "hem": {"sigma": 0.08, "p": 0.4, "eta1": 12.0, "eta2": 33.0, "intensity": 4.5},
    "merton": {"sigma": 0.08, "sigma_j": 0.08, "mu_j": 0.025, "intensity": 4.5},  # mu_j < 0 is rejected by the parameter class
    "vg": {"sigma": 0.15, "nu": 0.1, "theta": -0.05},
    "cgmy": {"c": 0.6, "g": 9.0, "m": 12.0, "y": 0.8},  # y: 1.4 when the base has y >= 1 (stays on the same side of 1)
}
TWIN_EXP_BUMPS = {"spot": 80.0, "r": 0.05, "d": 0.03}  # arguments of the exponential form of a margin
_C73 = {"kind": "clayton", "theta": 0.7, "eta": 0.3}
# (base spec, exponential form, what differs in quick: "all" = every single-argument twin; thorough = everything for every base)
TWIN_BASES = [
    ({"margins": ["hem", "vg"], "copula": _C73}, False, "all"),
    ({"margins": ["cgmy05", "merton"], "copula": _C73}, False, "all"),
    ({"margins": ["cgmy12", "hem2"], "copula": {"kind": "clayton", "theta": 3.0, "eta": 1.0}}, False, "all"),
    ({"margins": ["hem", "cgmy05"], "copula": _C73}, True, "all"),
    ({"margins": ["hem", "vg", "cgmy05"], "copula": _C73}, False, "all"),
    ({"margins": ["vg", "hem"], "copula": {"kind": "independent"}}, False, ("hem.p", "vg.nu", "copula.class", "margins.order")),
]
LRU_SWEEP = 1100  # more distinct abscissae per coordinate than the 2**10 entries of the memo of the marginal tail integral


# ----------------------------------------------------------------------------------------------------------------------
# cases
# ----------------------------------------------------------------------------------------------------------------------

def _model_list(tier):
    thorough = tier == "thorough"
    out = []
    for spec in A.copula_model_specs(tier):
        out.append((spec, False))
    if thorough:
        for spec in A.copula_model_specs(tier):
            out.append((spec, True))
    else:
        seen = set()
        for spec in A.copula_model_specs(tier):
            d = len(spec["margins"])
            if d not in seen and spec["copula"]["kind"] == "clayton":
                seen.add(d)
                out.append((spec, True))
    # simplest first: dimension 2 before dimension 3
    out.sort(key=lambda se: len(se[0]["margins"]))
    return out


def cases(tier):
    thorough = tier == "thorough"
    out = []
    models = _model_list(tier)
    for sub in ("tails", "subfamily", "partition", "history"):
        for spec, exp in models:
            out.append({"sub": sub, "model": spec, "exp": exp})
    for spec, exp in models:
        d = len(spec["margins"])
        # quick, d = 3: both numeric instances in every coordinate for the Clayton Levy models, first instances in the
        # second and third coordinate otherwise (the first coordinate always ranges over all 15 intervals)
        others = "all" if (d == 2 or thorough or (spec["copula"]["kind"] == "clayton" and not exp)) else "first"
        for i0 in range(len(INTERVALS)):
            out.append({"sub": "rect", "model": spec, "exp": exp, "i0": i0, "others": others})
    # joint density (Clayton): thorough = every Clayton model (Levy representation), quick = the first pair and first triple
    dens = [(s, e) for s, e in models if s["copula"]["kind"] == "clayton" and not e]
    if not thorough:
        keep, seen = [], set()
        for s, e in dens:
            d = len(s["margins"])
            if d not in seen:
                seen.add(d)
                keep.append((s, e))
        dens = keep
    for spec, exp in dens:
        d = len(spec["margins"])
        for pair in itertools.combinations(range(d), 2):
            for i0 in range(4):  # the four finite off-axis intervals of the first coordinate of the pair
                if not thorough and i0 not in (0, 1):
                    continue
                out.append({"sub": "density", "model": spec, "exp": exp, "pair": list(pair), "i0": i0})
    # joint density of the FULL family in dimension 2 and 3, one case per (Clayton model, orthant): the formula written here
    # and the library's own derivative of the copula. quick: every Clayton Levy model (d = 3: three rectangles per orthant);
    # thorough: all 2^d rectangles of finite alphabet intervals per orthant, + the exponential models (three per orthant)
    for spec, exp in models:
        if spec["copula"]["kind"] != "clayton":
            continue
        d = len(spec["margins"])
        for signs in itertools.product("pn", repeat=d):
            out.append({"sub": "jointdensity", "model": spec, "exp": exp, "signs": list(signs),
                        "instances": ("few" if thorough else "two") if exp else ("few" if (d == 3 and not thorough) else "all")})
    # ... and on the models reached by the other construction routes (the copula's parameters set through the setters)
    for spec, exp, route in _twin_list(tier):
        if spec["copula"]["kind"] != "clayton":
            continue
        for signs in itertools.product("pn", repeat=len(spec["margins"])):
            out.append({"sub": "jointdensity", "model": spec, "exp": exp, "signs": list(signs), "instances": "two", "route": route})
    # extra models (Merton / HEM2 margins, extreme Clayton parameters): lattice sub-checks and both density sub-checks
    for spec in EXTRA_SPECS:
        d = len(spec["margins"])
        for sub in ("tails", "subfamily", "partition"):
            out.append({"sub": sub, "model": spec, "exp": False})
        for i0 in (range(len(INTERVALS)) if (d == 2 or thorough) else FIRST):
            out.append({"sub": "rect", "model": spec, "exp": False, "i0": i0, "others": "all" if d == 2 else "first"})
        for signs in itertools.product("pn", repeat=d):
            out.append({"sub": "jointdensity", "model": spec, "exp": False, "signs": list(signs), "instances": "all" if (thorough or d == 2) else "few"})
        for pair in itertools.combinations(range(d), 2):
            for i0 in (range(4) if thorough else (0,)):
                if d == 2 or thorough or pair == (0, 2):
                    out.append({"sub": "density", "model": spec, "exp": False, "pair": list(pair), "i0": i0})
    # spellings of the end points (direct models): thorough = every Levy model + the exponential Clayton ones,
    # quick = the first model of every (dimension, copula kind)
    spell, seen = [], set()
    for spec, exp in models:
        key = (len(spec["margins"]), spec["copula"]["kind"], exp)
        if thorough or (not exp and key not in seen):
            seen.add(key)
            spell.append((spec, exp))
    for spec, exp in spell:
        out.append({"sub": "spelling", "model": spec, "exp": exp})
    # walks of ONE used model through the copulas (setters / replacement of model.copula): one case per margin tuple
    seen = set()
    for spec, exp in models:
        key = (tuple(spec["margins"]), exp)
        if key in seen or (exp and not thorough):
            continue
        seen.add(key)
        out.append({"sub": "reparam", "model": spec, "exp": exp, "targets": "thorough" if (thorough or len(spec["margins"]) == 2) else "quick"})
    # construction-route twins: every sub-check of the lattice again on the model reached by another route
    for spec, exp, route in _twin_list(tier):
        d = len(spec["margins"])
        for sub in ("tails", "subfamily", "partition", "history"):
            out.append({"sub": sub, "model": spec, "exp": exp, "route": route})
        for i0 in (range(len(INTERVALS)) if (d == 2 or thorough) else FIRST):
            out.append({"sub": "rect", "model": spec, "exp": exp, "i0": i0, "others": "all" if d == 2 else "first", "route": route})
    # identical margins: equal tail integrals on two axes at equal end points (ties in the arguments of the copula)
    for spec in TIE_SPECS + (TIE_SPECS_THOROUGH if thorough else []):
        for sub in ("tails", "subfamily", "partition"):
            out.append({"sub": sub, "model": spec, "exp": False})
        for i0 in range(len(INTERVALS)):
            out.append({"sub": "rect", "model": spec, "exp": False, "i0": i0, "others": "all" if (len(spec["margins"]) == 2 or thorough) else "first"})
    # copies of a used model, then the copy or the original re-parametrised: one case per margin tuple and kind of copy
    seen = set()
    for spec, exp in models:
        key = (tuple(spec["margins"]), exp)
        if key in seen or (exp and not thorough):
            continue
        seen.add(key)
        for kind in COPY_KINDS:
            out.append({"sub": "copies", "model": spec, "exp": exp, "kind": kind, "targets": "thorough"})
    # twins: two models alive at once that differ in exactly one constructor argument
    for base, exp, which in TWIN_BASES:
        for what, twin in _twin_specs(base, exp):
            if thorough or which == "all" or (which == "margins" and not what.startswith(("copula.", "margins.", "exp."))) or what in which:
                out.append({"sub": "twins", "model": base, "twin": twin, "exp": exp, "what": what})
    return out


def _twin_specs(base, exp):
    """(what, spec) for every model that differs from `base` in exactly one constructor argument: every parameter of every
    margin in turn (and, exponential form, spot / r / d of the last margin), each parameter of the copula, the class of the
    copula, the order of the margins."""
    out = []
    for k, name in enumerate(base["margins"]):
        ms = A.MARGINS[name]
        for param, value in TWIN_BUMPS[ms["family"]].items():
            if ms["family"] == "cgmy" and param == "y" and ms["params"]["y"] >= 1:
                value = 1.4
            margins = list(base["margins"])
            margins[k] = dict(ms, params=dict(ms["params"], **{param: value}))
            out.append((f"{ms['family']}.{param}", dict(base, margins=margins)))
    if exp:
        k = len(base["margins"]) - 1
        for arg, value in TWIN_EXP_BUMPS.items():
            margins = list(base["margins"])
            margins[k] = dict(A.MARGINS[margins[k]], **{arg: value})
            out.append((f"exp.{arg}", dict(base, margins=margins)))
    c = base["copula"]
    if c["kind"] == "clayton":
        out.append(("copula.theta", dict(base, copula=dict(c, theta=3.0 if c["theta"] != 3.0 else 0.7))))
        out.append(("copula.eta", dict(base, copula=dict(c, eta=1.0 if c["eta"] != 1.0 else 0.3))))
        out.append(("copula.class", dict(base, copula={"kind": "independent"})))
    else:
        out.append(("copula.class", dict(base, copula={"kind": "dependent" if c["kind"] == "independent" else "independent"})))
    m = list(base["margins"])
    if len(set(m)) > 1:
        out.append(("margins.order", dict(base, margins=m[1:] + m[:1])))
    return out


def _twin_list(tier):
    """(spec, exp, route): thorough = the first pair and the first triple under every copula x every route that differs from
    the direct one for that copula; quick = per dimension the first Clayton model x the three routes, and the first
    independent and the first dependent pair x (reused, swapped)."""
    thorough = tier == "thorough"
    out, seen = [], set()
    for spec in A.copula_model_specs(tier):
        d, c = len(spec["margins"]), spec["copula"]
        key = (d, tuple(sorted(c.items()))) if thorough else (d, c["kind"])
        if key in seen:
            continue
        seen.add(key)
        if not thorough and c["kind"] != "clayton" and d == 3:
            continue
        for route in TWIN_ROUTES:
            if c["kind"] != "clayton" and route == "reinit" and not thorough:
                continue  # parameter-free copula: the route only re-initialises the margins (covered by the Clayton twin)
            out.append((spec, False, route))
    out.sort(key=lambda t: len(t[0]["margins"]))
    return out


# ----------------------------------------------------------------------------------------------------------------------
# context: the real model + independently built ingredients of the reference
# ----------------------------------------------------------------------------------------------------------------------

def _margin_spec(entry, exp):
    """1-d model spec of a margin entry: a name of mc.alphabets.MARGINS, or (sub = twins) a 1-d spec written out, which may
    carry its own r / d / spot for the exponential form."""
    ms = dict(A.MARGINS[entry]) if isinstance(entry, str) else dict(entry)
    if exp:  # same transformation as alphabets.make_copula_model (exponential models have their own defaults)
        ms = dict({"r": 0.02, "d": 0.0, "spot": 100.0}, **ms)
        ms["exp"] = True
    return ms


def _margin_models(spec, exp, via=None):
    out = []
    for name in spec["margins"]:
        ms = _margin_spec(name, exp)
        if via:
            ms = dict(ms, via=via)
        out.append(A.make_model(ms))
    return out


def _warm_up(model, d):
    """A used model: masses (full and sub-family), tail integrals and an inverse have been asked with the donor copula."""
    for a, b in (((0.1,) * d, (0.7,) * d), ((-1.0,) * d, (-0.2,) * d), ((-0.4,) + (0.1,) * (d - 1), (0.25,) + (0.7,) * (d - 1)),
                 ((-INF,) * (d - 1) + (0.3,), (INF,) * d)):
        model.mass(a, b)
        nd = getattr(model, "_mass_nd", None)
        if nd is not None:
            nd(list(a), list(b))
    model.mass((0.1,), (0.7,), indices=[d - 1])
    model.tail_integrals([0.3] * d)
    if d > 2:
        model.margin_tail_integral([0, d - 1], iter([0.1, -0.2]))
    model.inverse_tail_integral(0, 0.5)


def build_model(spec, exp=False, route="direct"):
    """The model of `spec` reached by a construction route:
    direct   constructors called with the values (alphabets.make_copula_model)
    reinit   margins through alphabets' "reinit" twin (donor parameter object re-assigned + initialisation()); Clayton copula
             built with DONOR_CLAYTON and re-assigned through its public setters BEFORE the model is constructed
    reused   model constructed with the donor Clayton copula and USED (masses, tail integrals, inverse); then the copula of the
             model is re-parametrised in place through the public setters (Clayton target) or replaced by assignment of
             `model.copula` (parameter-free targets)
    swapped  model constructed with a copula of ANOTHER class and used; then `model.copula = <fresh target copula>`"""
    from rpylib.model.utils import create_levy_copula_model

    c = spec["copula"]
    d = len(spec["margins"])
    if route == "direct":
        if all(isinstance(m, str) for m in spec["margins"]):
            return A.make_copula_model(spec, exp=exp)
        return create_levy_copula_model(models=_margin_models(spec, exp), copula=A.make_copula(c))
    if route == "reinit":
        cop = A.make_copula(DONOR_CLAYTON if c["kind"] == "clayton" else c)
        if c["kind"] == "clayton":
            cop.theta = c["theta"]
            cop.eta = c["eta"]
        return create_levy_copula_model(models=_margin_models(spec, exp, via="reinit"), copula=cop)
    if route == "reused":
        model = create_levy_copula_model(models=_margin_models(spec, exp), copula=A.make_copula(DONOR_CLAYTON))
        _warm_up(model, d)
        if c["kind"] == "clayton":
            model.copula.eta = c["eta"]
            model.copula.theta = c["theta"]
        else:
            model.copula = A.make_copula(c)
        return model
    if route == "swapped":
        other = {"kind": "dependent"} if c["kind"] == "independent" else {"kind": "independent"}
        model = create_levy_copula_model(models=_margin_models(spec, exp), copula=A.make_copula(other))
        _warm_up(model, d)
        model.copula = A.make_copula(c)
        return model
    raise ValueError(route)


class Ctx:
    def __init__(self, case):
        spec = case["model"]
        self.spec = spec
        self.exp = bool(case.get("exp", False))
        self.route = case.get("route", "direct")
        self.model = build_model(spec, exp=self.exp, route=self.route)
        self.d = len(spec["margins"])
        # fresh margins and a fresh copula object for the reference (never touched by truncate_levy_measure)
        self.nus = [self._fresh_margin(name).levy_triplet.nu for name in spec["margins"]]
        self.F = A.make_copula(spec["copula"])
        self.kind = spec["copula"]["kind"]
        self.fa = [bool(nu.jump_of_finite_activity()) for nu in self.nus]
        self._u = {}
        self._margins = {}

    def _fresh_margin(self, name):
        return A.make_model(_margin_spec(name, self.exp))

    def fresh_model(self, route=None):
        return build_model(self.spec, exp=self.exp, route=route or self.route)

    def zero_allowed(self, i):
        """An end point exactly 0 in coordinate i is inside the alphabet: finite activity, or the margin's closed form gives
        nu_i((0,inf)) = nu_i((-inf,0)) = +inf (not nan)."""
        return self.fa[i] or self.margin_reports_infinite_mass_at_zero(i)

    # -- marginal tail integrals from the definition: U(x) = nu((x,inf)) for x>0, -nu((-inf,x]) for x<0 ---------------
    def U(self, i, x):
        key = (i, x)
        if key not in self._u:
            self._u[key] = O.tail_integral_1d(self.nus[i], x)
        return self._u[key]

    def U0(self, i, side):
        """U_i(0+) = nu_i((0,inf)) (side=+1), U_i(0-) = -nu_i((-inf,0)) (side=-1); infinite for infinite activity."""
        if not self.fa[i]:
            return INF if side > 0 else -INF
        key = (i, "0+" if side > 0 else "0-")
        if key not in self._u:
            self._u[key] = float(self.nus[i].integrate(0.0, INF)) if side > 0 else -float(self.nus[i].integrate(-INF, 0.0))
        return self._u[key]

    def margin_reports_infinite_mass_at_zero(self, i):
        key = (i, "div")
        if key not in self._u:
            try:
                self._u[key] = float(self.nus[i].integrate(0.0, INF)) == INF and float(self.nus[i].integrate(-INF, 0.0)) == INF
            except Exception:
                self._u[key] = False
        return self._u[key]

    # -- I-margin of the copula from the definition (Kallsen-Tankov def. 3.3 with the limit taken at -inf/+inf) -------
    def margin(self, I):
        I = tuple(I)
        if I not in self._margins:
            d, F = self.d, self.F
            Ic = [j for j in range(d) if j not in I]
            Il = list(I)

            def G(u, Ic=Ic, Il=Il):
                tot = 0.0
                for p in itertools.product((-INF, INF), repeat=len(Ic)):
                    full = np.empty(d, dtype=float)
                    full[Il] = u
                    if Ic:
                        full[Ic] = p
                    s = -1.0 if sum(1 for pj in p if pj < 0) % 2 else 1.0
                    tot += s * float(F(full))
                return tot

            self._margins[I] = G
        return self._margins[I]

    # -- image of the interval (a,b] of coordinate i in the argument space of the copula ------------------------------
    def u_pieces(self, i, a, b):
        if a < 0 < b:
            return [(-INF, self.U(i, a)), (self.U(i, b), INF)]
        if b == 0:  # (a,0] contains x_i = 0: everything except (-inf,a] and (0,inf)
            return [(-INF, self.U(i, a)), (self.U0(i, +1), INF)]
        if a == 0:  # (0,b]
            return [(self.U(i, b), self.U0(i, +1))]
        return [(self.U(i, b), self.U(i, a))]

    def ref_mass(self, I, a, b):
        """Levy mass of prod_{i in I} (a_i,b_i] under the I-margin: sum of copula volumes over the image rectangles."""
        G = self.margin(I)
        n = len(I)
        axes = [self.u_pieces(i, ai, bi) for i, ai, bi in zip(I, a, b)]
        total = 0.0
        for combo in itertools.product(*axes):
            if any(lo == hi for lo, hi in combo):
                continue
            vol = 0.0
            for corner in itertools.product((0, 1), repeat=n):
                u = [combo[k][c] for k, c in enumerate(corner)]
                sgn = -1.0 if (n - sum(corner)) % 2 else 1.0
                vol += sgn * G(u)
            total += vol
        return total

    def scale(self, I, a, b):
        s = 0.0
        for i, ai, bi in zip(I, a, b):
            if ai < 0 < bi or ai == 0 or bi == 0:
                continue
            s = max(s, abs(self.U(i, ai)), abs(self.U(i, bi)))
        return s


def _lib(model, name):
    return getattr(model, name, None)


def _straddles(a, b):
    return a < 0 < b


def _zero_class(a, b):
    if any(bi == 0 for bi in b):
        return "upper"
    if any(ai == 0 for ai in a):
        return "lower"
    return "none"


def _klass(ctx, a, b):
    ns = sum(1 for ai, bi in zip(a, b) if _straddles(ai, bi))
    return f"d={len(a)}:zero={_zero_class(a, b)}:straddle={ns}:cop={ctx.kind}"


def _close(x, y, S, atol=1e-12, rtol=1e-9):
    return core.close(x, y, rtol=rtol, atol=atol * S)


def _fmt(a, b):
    return " x ".join(f"({ai},{bi}]" for ai, bi in zip(a, b))


# ----------------------------------------------------------------------------------------------------------------------
# one rectangle through every route of the real code, against the reference
# ----------------------------------------------------------------------------------------------------------------------

def _routes(ctx, I, a, b, full):
    """Values of the mass of prod (a_i,b_i], i in I, by every route of the real model. full: I is all coordinates."""
    m = ctx.model
    out = {}
    idx = None if full else list(I)
    out["mass"] = lambda: m.mass(tuple(a), tuple(b)) if full else m.mass(tuple(a), tuple(b), indices=idx)
    fast = _lib(m, f"_mass_{ctx.d}d")
    if fast is not None:
        out[f"_mass_{ctx.d}d"] = lambda: fast(tuple(a), tuple(b)) if full else fast(tuple(a), tuple(b), indices=list(I))
    nd = _lib(m, "_mass_nd")
    if nd is not None:
        out["_mass_nd"] = lambda: nd(list(a), list(b)) if full else nd(list(a), list(b), list(I))
    return out


def _check_rectangle(sh, ctx, I, a, b, full, sub, use_oracle_ref):
    """Returns the value of model.mass (or None if it could not be obtained)."""
    kl = _klass(ctx, a, b)
    S = ctx.scale(I, a, b)
    vals = {}
    for name, fn in _routes(ctx, I, a, b, full).items():
        try:
            vals[name] = float(fn())
        except Exception as e:  # the statement covers every such rectangle: an exception is a failure
            sh.violation(f"C12:{sub}:{name}:raises-{type(e).__name__}:{kl}", f"{name}({_fmt(a, b)}, indices={list(I)}) raised {e!r}",
                         {"a": a, "b": b, "indices": list(I)})
    if "mass" not in vals:
        return None
    m = vals["mass"]
    det = {"a": a, "b": b, "indices": list(I), "values": vals, "scale": S}
    sh.count("evaluations")
    if not math.isfinite(m):
        sh.violation(f"C12:{sub}:mass:not-finite:{kl}", f"mass({_fmt(a, b)}) = {m}", det)
        return None
    sh.count("evaluations")
    if m < -1e-13 * S:
        sh.violation(f"C12:{sub}:mass:negative:{kl}", f"mass({_fmt(a, b)}) = {m} < 0 (scale {S})", det)
    for name, v in vals.items():
        if name == "mass":
            continue
        sh.count("evaluations")
        if not _close(m, v, S):
            sh.violation(f"C12:{sub}:{name}:differs-from-mass:{kl}", f"{name} = {v} but mass = {m} on {_fmt(a, b)}", det)
    ref = ctx.ref_mass(I, a, b)
    det["reference"] = ref
    sh.count("evaluations")
    if not _close(m, ref, S):
        sh.violation(f"C12:{sub}:mass:differs-from-reference:{kl}",
                     f"mass({_fmt(a, b)}, indices={list(I)}) = {m}, reference (copula volume of the tail integrals) = {ref}", det)
    if use_oracle_ref:
        G = ctx.F if full else ctx.margin(I)
        oref = O.ref_rectangle_mass(G if full else (lambda u, G=G: G(list(u))), [ctx.nus[i] for i in I], a, b)
        det["oracle_reference"] = oref
        sh.count("evaluations")
        if not _close(m, oref, S):
            sh.violation(f"C12:{sub}:mass:differs-from-oracle-reference:{kl}",
                         f"mass({_fmt(a, b)}) = {m}, mc.oracle.ref_rectangle_mass = {oref}", det)
    return m


def _with(v, k, x):
    w = list(v)
    w[k] = x
    return tuple(w)


def _check_empty(sh, ctx, a, b):
    """Exact tie a_k = b_k: the rectangle with one coordinate interval collapsed to (b_k, b_k] (to (a_k, a_k] where b_k is
    infinite) is empty: mass 0 by every route, up to the re-association of copula values bounded by |U_k(b_k)|."""
    d = ctx.d
    I = tuple(range(d))
    for k in range(d):
        s = b[k] if math.isfinite(b[k]) else a[k]
        if not math.isfinite(s):
            continue  # the whole line has no finite end point to collapse to
        ea, eb = _with(a, k, s), _with(b, k, s)
        S = ctx.scale(I, ea, eb)
        if not S > 0:
            continue
        kl = _klass(ctx, ea, eb)
        for name, fn in _routes(ctx, I, ea, eb, True).items():
            sh.count("evaluations")
            try:
                v = float(fn())
            except Exception as e:
                sh.violation(f"C12:empty-interval:{name}:raises-{type(e).__name__}:{kl}", f"{name}({_fmt(ea, eb)}) raised {e!r}", {"a": ea, "b": eb, "k": k})
                continue
            if not abs(v) <= 1e-12 * S:
                sh.violation(f"C12:empty-interval:{name}:mass-of-empty-rectangle-not-zero:{kl}",
                             f"{name}({_fmt(ea, eb)}) = {v}: the interval of coordinate {k} is empty (scale {S})",
                             {"a": ea, "b": eb, "k": k, "value": v, "scale": S})
    sh.count("empty_rectangles", d)


def _sub_rect(sh, case):
    ctx = Ctx(case)
    d = ctx.d
    iv0 = INTERVALS[case["i0"]]
    rest = range(len(INTERVALS)) if case["others"] == "all" else FIRST
    full_I = tuple(range(d))
    model = ctx.model
    model_nz = ctx.fresh_model()  # on this model an end point at zero is always written -0.0 (the mirror -g[::-1] of a grid)
    n_rect = 0
    for tail in itertools.product(rest, repeat=d - 1):
        ivs = [iv0] + [INTERVALS[j] for j in tail]
        if all(iv["t"] in STRADDLING for iv in ivs):
            continue  # contains the origin
        a = tuple(iv["a"] for iv in ivs)
        b = tuple(iv["b"] for iv in ivs)
        n_rect += 1
        sh.cls(f"d{d}:" + "|".join(iv["t"] for iv in ivs))
        m = _check_rectangle(sh, ctx, full_I, a, b, True, "rect", use_oracle_ref=True)
        if m is None:
            continue
        sh.outcome(float(m).hex())
        if n_rect % 97 == 1:
            sh.sample({"model": case["model"], "a": a, "b": b, "mass": m})
        S = ctx.scale(full_I, a, b)
        if all(iv["k"] == 0 for iv in ivs):
            _check_empty(sh, ctx, a, b)
        # ---- additivity under a split of any coordinate at any alphabet point
        for k in range(d):
            for s in POINTS:
                if not (a[k] < s < b[k]):
                    continue
                try:
                    m1 = float(model.mass(a, _with(b, k, s)))
                    m2 = float(model.mass(_with(a, k, s), b))
                except Exception as e:
                    sh.violation(f"C12:additivity:mass:raises-{type(e).__name__}:{_klass(ctx, a, b)}:split=nonzero",
                                 f"mass raised {e!r} on a piece of {_fmt(a, b)} split at x_{k}={s}", {"a": a, "b": b, "k": k, "s": s})
                    continue
                sh.count("evaluations")
                if not _close(m, m1 + m2, S):
                    sh.violation(f"C12:additivity:mass:not-additive:{_klass(ctx, a, b)}:split=nonzero",
                                 f"mass({_fmt(a, b)}) = {m} but split at x_{k}={s} gives {m1} + {m2} = {m1 + m2}",
                                 {"a": a, "b": b, "k": k, "s": s, "whole": m, "left": m1, "right": m2, "scale": S})
            if _straddles(a[k], b[k]) and (ctx.fa[k] or ZERO_SPLIT_INFINITE_ACTIVITY):
                act = "finite" if ctx.fa[k] else "infinite"
                if not ctx.fa[k] and not ctx.margin_reports_infinite_mass_at_zero(k):
                    # U_k(0) needs the divergent integral nu_k((0,inf)); a margin whose closed form returns nan there
                    # (CGMY, y >= 1) is outside the alphabet: divergent marginal integrals are not specified (C09)
                    sh.count("zero_split_skipped_margin_integral_not_inf")
                    continue
                sh.cls(f"zero-split:activity={act}")
                bl, ar = _with(b, k, 0.0), _with(a, k, 0.0)
                # the pieces are rectangles of the space themselves (closure away from the origin in another coordinate)
                use_o = not ctx.fa[k]  # mc.oracle's reference takes U(0+-) = +-inf: right only for infinite activity
                m1 = _check_rectangle(sh, ctx, full_I, a, bl, True, "zero-piece", use_oracle_ref=use_o)
                m2 = _check_rectangle(sh, ctx, full_I, ar, b, True, "zero-piece", use_oracle_ref=use_o)
                if m1 is None or m2 is None:
                    continue
                sh.count("evaluations")
                if not _close(m, m1 + m2, S):
                    sh.violation(f"C12:additivity:mass:not-additive:{_klass(ctx, a, b)}:split=zero:activity={act}",
                                 f"mass({_fmt(a, b)}) = {m} but split at x_{k}=0 gives {m1} + {m2} = {m1 + m2}",
                                 {"a": a, "b": b, "k": k, "s": 0.0, "whole": m, "left": m1, "right": m2, "scale": S})
                # -0.0 == 0.0: the same two rectangles with the zero written as the IEEE negative zero
                for piece, (pa, pb), mref in (("upper", (a, _with(b, k, -0.0)), m1), ("lower", (_with(a, k, -0.0), b), m2)):
                    for name in ("mass", "_mass_nd"):
                        fn = _lib(model_nz, name)
                        if fn is None:
                            continue
                        sh.count("evaluations")
                        try:
                            v = float(fn(pa, pb) if name == "mass" else fn(list(pa), list(pb)))
                        except Exception as e:
                            sh.violation(f"C12:zero-piece:{name}:raises-{type(e).__name__}:negative-zero:zero={piece}:activity={act}",
                                         f"{name}({_fmt(pa, pb)}) raised {e!r}", {"a": pa, "b": pb})
                            continue
                        if not _close(v, mref, S):
                            sh.violation(f"C12:zero-piece:{name}:negative-zero-differs-from-positive-zero:d={d}:zero={piece}:activity={act}:cop={ctx.kind}",
                                         f"{name}({_fmt(pa, pb)}) = {v} but with the end point written 0.0 the mass is {mref}",
                                         {"a": pa, "b": pb, "k": k, "negative_zero": v, "positive_zero": mref, "scale": S})
    sh.count("rectangles", n_rect)
    if n_rect:
        sh.nontriv()


# ----------------------------------------------------------------------------------------------------------------------
# sub-families of coordinates
# ----------------------------------------------------------------------------------------------------------------------

def _sub_subfamily(sh, case):
    ctx = Ctx(case)
    d = ctx.d
    model = ctx.model
    n = 0
    for r in range(1, d):
        for I in itertools.combinations(range(d), r):
            for tup in itertools.product(range(len(INTERVALS)), repeat=r):
                ivs = [INTERVALS[j] for j in tup]
                if all(iv["t"] in STRADDLING for iv in ivs):
                    continue  # contains the origin of the sub-space
                a = tuple(iv["a"] for iv in ivs)
                b = tuple(iv["b"] for iv in ivs)
                n += 1
                sh.cls(f"I={list(I)}/d{d}:" + "|".join(iv["t"] for iv in ivs))
                m = _check_rectangle(sh, ctx, I, a, b, False, f"subfamily-{r}of{d}", use_oracle_ref=True)
                if m is None:
                    continue
                sh.outcome(float(m).hex())
                S = ctx.scale(I, a, b)
                kl = _klass(ctx, a, b) + f":I={''.join(map(str, I))}"
                # the other coordinates range over the whole line
                fa = [-INF] * d
                fb = [INF] * d
                for i, ai, bi in zip(I, a, b):
                    fa[i], fb[i] = ai, bi
                try:
                    emb = float(model.mass(tuple(fa), tuple(fb)))
                    sh.count("evaluations")
                    if not _close(m, emb, S):
                        sh.violation(f"C12:whole-line:mass:differs-from-margin-mass:{kl}",
                                     f"mass({_fmt(fa, fb)}) = {emb} but mass({_fmt(a, b)}, indices={list(I)}) = {m}",
                                     {"a": fa, "b": fb, "indices": list(I), "embedded": emb, "margin": m, "scale": S})
                except Exception as e:
                    sh.violation(f"C12:whole-line:mass:raises-{type(e).__name__}:{kl}", f"mass({_fmt(fa, fb)}) raised {e!r}", {"a": fa, "b": fb})
                    emb = None
                if r == 1:
                    nu_mass = float(ctx.nus[I[0]].integrate(a[0], b[0]))
                    for label, v in (("indices", m), ("whole-line", emb)):
                        if v is None:
                            continue
                        sh.count("evaluations")
                        if not _close(v, nu_mass, S):
                            sh.violation(f"C12:marginal-levy-mass:mass-{label}:differs-from-nu:{kl}",
                                         f"{label} mass of ({a[0]},{b[0]}] in coordinate {I[0]} = {v}, nu_{I[0]}(({a[0]},{b[0]}]) = {nu_mass}",
                                         {"a": a, "b": b, "i": I[0], "value": v, "nu": nu_mass, "scale": S})
    # a sub-family is a set: the index list in every other order, intervals permuted along (incl. the full family)
    n_perm = 0
    for I, a, b in _rect_list(ctx, types=None if d == 2 else SMALL_TYPES, zeros=0):
        r = len(I)
        if r < 2:
            continue
        try:
            base = float(model.mass(a, b) if r == d else model.mass(a, b, indices=list(I)))
        except Exception:
            continue  # reported above / by rect
        S = ctx.scale(I, a, b)
        for perm in itertools.permutations(range(r)):
            if list(perm) == sorted(perm):
                continue
            pI = [I[k] for k in perm]
            pa, pb = tuple(a[k] for k in perm), tuple(b[k] for k in perm)
            for name in ("mass", "_mass_nd"):
                fn = _lib(model, name)
                if fn is None:
                    continue
                sh.count("evaluations")
                n_perm += 1
                try:
                    v = float(fn(pa, pb, indices=list(pI)))
                except Exception as e:
                    sh.violation(f"C12:index-order:{name}:raises-{type(e).__name__}:I={r}of{d}:cop={ctx.kind}", f"{name}({_fmt(pa, pb)}, indices={pI}) raised {e!r}", {"a": pa, "b": pb, "indices": pI})
                    continue
                if not _close(v, base, S):
                    sh.violation(f"C12:index-order:{name}:differs-from-increasing-order:I={r}of{d}:cop={ctx.kind}",
                                 f"{name}({_fmt(pa, pb)}, indices={pI}) = {v} but {_fmt(a, b)} with indices={list(I)} has mass {base}",
                                 {"a": pa, "b": pb, "indices": pI, "value": v, "increasing_order": base, "scale": S})
    sh.count("permuted_index_lists", n_perm)
    sh.count("subfamily_rectangles", n)
    sh.nontriv()


def _sub_partition(sh, case):
    ctx = Ctx(case)
    d = ctx.d
    model = ctx.model
    cuts = [-INF] + POINTS + [INF]  # consecutive pieces; the piece (-0.03, 0.02] straddles zero
    pieces = list(zip(cuts[:-1], cuts[1:]))
    for k in range(d):
        for iv in INTERVALS:
            if iv["t"] in STRADDLING:
                continue
            S = max(abs(ctx.U(k, iv["a"])), abs(ctx.U(k, iv["b"])))
            terms = []
            ok = True
            for combo in itertools.product(pieces, repeat=d - 1):
                a = [c[0] for c in combo]
                b = [c[1] for c in combo]
                a.insert(k, iv["a"])
                b.insert(k, iv["b"])
                try:
                    terms.append(float(model.mass(tuple(a), tuple(b))))
                except Exception as e:
                    ok = False
                    sh.violation(f"C12:partition:mass:raises-{type(e).__name__}:d={d}:cop={ctx.kind}", f"mass({_fmt(a, b)}) raised {e!r}", {"a": a, "b": b})
                    break
            if not ok:
                continue
            tot = math.fsum(terms)
            nu_mass = float(ctx.nus[k].integrate(iv["a"], iv["b"]))
            sh.count("evaluations")
            sh.outcome(float(tot).hex())
            if not _close(tot, nu_mass, S, atol=1e-11):
                sh.violation(f"C12:partition:mass:sum-over-other-coordinates-differs-from-nu:d={d}:cop={ctx.kind}:side={'neg' if iv['b'] < 0 else 'pos'}",
                             f"sum of {len(terms)} masses over a partition of the other coordinates = {tot}, nu_{k}(({iv['a']},{iv['b']}]) = {nu_mass}",
                             {"k": k, "interval": [iv["a"], iv["b"]], "sum": tot, "nu": nu_mass, "min_term": min(terms), "scale": S})
            if min(terms) < -1e-13 * S:
                sh.violation(f"C12:partition:mass:negative:d={d}:cop={ctx.kind}", f"a piece of the partition has mass {min(terms)}", {"k": k, "interval": [iv["a"], iv["b"]]})
    sh.nontriv()


# ----------------------------------------------------------------------------------------------------------------------
# tail integrals and their inverse
# ----------------------------------------------------------------------------------------------------------------------

def _side(x):
    return "neg" if x < 0 else ("zero" if x == 0 else "pos")


def _sub_tails(sh, case):
    ctx = Ctx(case)
    d = ctx.d
    model = ctx.model
    other = ctx.fresh_model()  # asks the two zeros in the other order (the memo treats 0.0 and -0.0 as one key)
    for i in range(d):
        act = "finite" if ctx.fa[i] else "infinite"
        zeros = ctx.zero_allowed(i)  # I(0) = (0,inf): U(0) = U(-0.0) = nu((0,inf)), +inf for infinite activity
        xs = [(model, x, "positional") for x in POINTS + [-INF, INF] + ([-0.0, 0.0] if zeros else [])]
        xs += [(other, x, "positional") for x in ([0.0, -0.0] if zeros else [])]
        xs += [(other, x, "keywords") for x in POINTS_SUB + ([-0.0] if zeros else [])]
        xs += [(other, np.float64(x), "np.float64") for x in POINTS_SUB + ([-0.0] if zeros else [])]
        xs += [(other, x, "np.int64-index") for x in POINTS_SUB]
        for mdl, x, how in xs:
            ref = ctx.U0(i, +1) if x == 0 else ctx.U(i, float(x))
            zs = ("zero" if math.copysign(1.0, x) > 0 else "negative-zero") if x == 0 else _side(x)
            sh.count("evaluations")
            try:
                v = float(mdl.marginal_tail_integral(i=i, x=x) if how == "keywords" else mdl.marginal_tail_integral(np.int64(i) if how == "np.int64-index" else i, x))
            except Exception as e:
                sh.violation(f"C12:tails:marginal_tail_integral:raises-{type(e).__name__}:side={zs}:activity={act}", f"U_{i}({x!r}) ({how}) raised {e!r}", {"i": i, "x": float(x), "how": how})
                continue
            sh.outcome(float(v).hex())
            if not core.close(v, ref, rtol=1e-12, atol=0.0):
                sh.violation(f"C12:tails:marginal_tail_integral:differs-from-sign-nu-I:side={zs}:activity={act}",
                             f"U_{i}({x!r}) ({how}) = {v}, sign(x) nu(I(x)) = {ref}", {"i": i, "x": float(x), "how": how, "value": v, "reference": ref})
    # I-margins of the tail integral
    for r in range(1, d + 1):
        for I in itertools.combinations(range(d), r):
            G = ctx.margin(I)
            for xs in itertools.product(POINTS_SUB, repeat=r):
                us = [ctx.U(i, x) for i, x in zip(I, xs)]
                ref = G(us)
                S = min(abs(u) for u in us)
                signs = "".join("-" if x < 0 else "+" for x in xs)
                routes = {"margin_tail_integral": lambda: model.margin_tail_integral(list(I), iter(xs))}
                if r == d:
                    routes["tail_integrals"] = lambda: model.tail_integrals(list(xs))
                    routes["tail_integrals-keyword-ndarray"] = lambda: model.tail_integrals(x=np.array(xs))
                if r >= 2:  # the spelling of numerical.closedform.cflevycopula
                    routes["margin_tail_integral-keyword-tuple"] = lambda: model.margin_tail_integral(indices=list(I), x=tuple(xs))
                for name, fn in routes.items():
                    sh.count("evaluations")
                    try:
                        v = float(fn())
                    except Exception as e:
                        sh.violation(f"C12:tails:{name}:raises-{type(e).__name__}:I={r}of{d}:cop={ctx.kind}", f"{name}({list(I)}, {xs}) raised {e!r}", {"I": list(I), "x": xs})
                        continue
                    if not _close(v, ref, S):
                        sh.violation(f"C12:tails:{name}:differs-from-I-margin-of-copula:I={r}of{d}:signs={signs}:cop={ctx.kind}",
                                     f"{name}({list(I)}, {xs}) = {v}, I-margin of the copula at the marginal tail integrals = {ref}",
                                     {"I": list(I), "x": xs, "u": us, "value": v, "reference": ref})
    # inverse
    inv = _lib(model, "inverse_tail_integral")
    for i in range(d):
        act = "finite" if ctx.fa[i] else "infinite"
        # the alphabet points and the two ends of the bracket of the root search on each side
        for x in POINTS + [1e-20, -1e-20, 500.0, -500.0]:
            y = ctx.U(i, x)
            if y == 0.0 or not math.isfinite(y):
                continue
            sh.count("evaluations")
            try:
                xb = float(inv(i, y))
            except Exception as e:
                sh.violation(f"C12:inverse:inverse_tail_integral:raises-{type(e).__name__}:side={_side(x)}:activity={act}", f"inverse_tail_integral({i}, U({x})={y}) raised {e!r}", {"i": i, "x": x, "y": y})
                continue
            sh.outcome(float(xb).hex())
            # Where the closed form of a finite-activity margin resolves U only to a few ulps of its total mass (Merton:
            # differences of normal cdfs; U(-0.4) = -1.5 ulp), U is numerically flat and every point of the flat piece is
            # an inverse: x is accepted when it is recovered, or when U at the returned point is y up to that resolution.
            y_atol = 16 * 2.0 ** -52 * abs(ctx.U0(i, +1 if x > 0 else -1)) if ctx.fa[i] else 0.0
            if not core.close(xb, x, rtol=1e-9, atol=1e-12) and not (xb != 0 and core.close(ctx.U(i, xb), y, rtol=1e-9, atol=y_atol)):
                sh.violation(f"C12:inverse:inverse_tail_integral:inverse-of-U-differs:side={_side(x)}:activity={act}",
                             f"inverse_tail_integral({i}, U_{i}({x}) = {y}) = {xb}", {"i": i, "x": x, "y": y, "back": xb})
        ys = [(y0 * sg, "alphabet") for y0 in Y_ALPHABET for sg in (1.0, -1.0)]
        if ctx.fa[i]:  # exact tie with, and just inside / outside, the end of the attainable range (-nu(-inf,0), nu(0,inf))
            for sg in (+1, -1):
                lim = ctx.U0(i, sg)
                ys += [(lim, "range-end"), (lim * (1.0 - 1e-6), "range-end"), (lim * (1.0 + 1e-9), "range-end"), (2.0 * lim, "range-end")]
        for y, yclass in ys:
            sg = 1.0 if y > 0 else -1.0
            # U is monotone on each side of zero: |y| > |U(+-1e-12)| means that the (generalised) inverse lies in (0, 1e-12]
            # on the side of y; for a finite-activity margin this includes every y beyond the attainable range, whose
            # generalised inverse inf{x > 0: U(x) <= y} is 0 (levycopulaseries draws such y: a jump of size 0)
            beyond = abs(y) > abs(ctx.U(i, sg * 1e-12))
            sh.count("evaluations")
            try:
                xb = float(inv(i, y))
                yb = float(model.marginal_tail_integral(i, xb))
            except Exception as e:
                sh.violation(f"C12:inverse:inverse_tail_integral:raises-{type(e).__name__}:side={_side(y)}:activity={act}" + (":beyond-bracket" if beyond else ""),
                             f"inverse_tail_integral({i}, {y}) raised {e!r}", {"i": i, "y": y})
                continue
            if beyond:
                sh.count("inverse_y_beyond_the_value_at_1e-12")
                sh.cls(f"inverse:beyond:{act}")
                if not (0.0 <= sg * xb <= 1e-12):
                    sh.violation(f"C12:inverse:inverse_tail_integral:not-zero-beyond-the-range:side={_side(y)}:activity={act}",
                                 f"inverse_tail_integral({i}, {y}) = {xb}, but |y| exceeds |U_{i}({sg * 1e-12})| = {abs(ctx.U(i, sg * 1e-12))}: "
                                 f"the generalised inverse lies in [0, 1e-12] on the side of y", {"i": i, "y": y, "x": xb})
                continue
            # the form of the call in process.levycopulaseries: keywords, y a numpy scalar taken from an array
            sh.count("evaluations")
            try:
                xk = float(inv(i=i, x=np.float64(y)))
                if not core.close(xk, xb, rtol=1e-9, atol=1e-12):
                    sh.violation(f"C12:inverse:inverse_tail_integral:keyword-numpy-scalar-form-differs:side={_side(y)}:activity={act}",
                                 f"inverse_tail_integral(i={i}, x=np.float64({y})) = {xk}, inverse_tail_integral({i}, {y}) = {xb}", {"i": i, "y": y, "keywords": xk, "positional": xb})
            except Exception as e:
                sh.violation(f"C12:inverse:inverse_tail_integral:raises-{type(e).__name__}:keyword-numpy-scalar-form:activity={act}", f"inverse_tail_integral(i={i}, x=np.float64({y})) raised {e!r}", {"i": i, "y": y})
            ref_yb = ctx.U(i, xb) if xb != 0 else math.nan
            if not (core.close(yb, y, rtol=1e-9) and core.close(ref_yb, y, rtol=1e-9)):
                sh.violation(f"C12:inverse:inverse_tail_integral:U-of-inverse-differs:side={_side(y)}:activity={act}" + ("" if yclass == "alphabet" else ":" + yclass),
                             f"x = inverse_tail_integral({i}, {y}) = {xb}; U_{i}(x) = {yb} (reference U: {ref_yb})", {"i": i, "y": y, "x": xb, "U": yb, "refU": ref_yb})
    _tails_argument_integrity(sh, ctx)
    _tails_memo_sweep(sh, ctx)
    sh.nontriv()


def _tails_argument_integrity(sh, ctx):
    """The callee does not modify the caller's containers and keeps no reference to them: the array of abscissae handed to
    tail_integrals / margin_tail_integral, the index list, and the array of tail integrals handed to the copula itself are
    unchanged after the call; ONE buffer refilled in place between the calls gives what fresh tuples give."""
    d, model = ctx.d, ctx.model
    pts = list(itertools.product((-0.2, 0.1, 0.7), repeat=d))
    buf = np.empty(d, dtype=float)
    for xs in pts:
        try:
            want = float(model.tail_integrals(tuple(xs)))
        except Exception:
            continue  # reported by the I-margin loop
        buf[:] = xs
        keep = buf.copy()
        sh.count("evaluations")
        try:
            got = float(model.tail_integrals(buf))
            again = float(model.tail_integrals(x=buf))
        except Exception as e:
            sh.violation(f"C12:argument:tail_integrals:raises-{type(e).__name__}:reused-ndarray:cop={ctx.kind}", f"tail_integrals(ndarray {xs}) raised {e!r}", {"x": xs})
            continue
        if not np.array_equal(buf, keep):
            sh.violation(f"C12:argument:tail_integrals:modifies-the-callers-array:d={d}:cop={ctx.kind}",
                         f"after tail_integrals(x) the caller's array x = {keep.tolist()} reads {buf.tolist()}", {"before": keep.tolist(), "after": buf.tolist()})
            buf = np.empty(d, dtype=float)
        if not (_close(got, want, abs(want)) and _close(again, want, abs(want))):
            sh.violation(f"C12:argument:tail_integrals:reused-ndarray-differs-from-tuple:d={d}:cop={ctx.kind}",
                         f"tail_integrals of one re-used ndarray holding {xs} = {got}, then {again}; of a tuple: {want}", {"x": xs, "values": [got, again], "tuple": want})
    for r in range(1, d + 1):
        for I in itertools.combinations(range(d), r):
            idx = list(I)
            xs = [(-0.2, 0.1, 0.7)[(k + j) % 3] for j, k in enumerate(I)]
            arr = np.array(xs, dtype=float)
            sh.count("evaluations")
            try:
                want = float(model.margin_tail_integral(list(I), iter(tuple(xs))))
                got = float(model.margin_tail_integral(idx, iter(arr)))
            except Exception as e:
                sh.violation(f"C12:argument:margin_tail_integral:raises-{type(e).__name__}:I={r}of{d}:cop={ctx.kind}", f"margin_tail_integral({idx}, iter(ndarray {xs})) raised {e!r}", {"I": list(I), "x": xs})
                continue
            if idx != list(I) or not np.array_equal(arr, np.array(xs, dtype=float)):
                sh.violation(f"C12:argument:margin_tail_integral:modifies-the-callers-containers:I={r}of{d}:cop={ctx.kind}",
                             f"after margin_tail_integral(indices, iter(x)): indices {list(I)} -> {idx}, x {xs} -> {arr.tolist()}", {"I": list(I), "after": idx, "x": xs, "x_after": arr.tolist()})
            if not _close(got, want, abs(want)):
                sh.violation(f"C12:argument:margin_tail_integral:ndarray-differs-from-tuple:I={r}of{d}:cop={ctx.kind}",
                             f"margin_tail_integral({list(I)}, iter(ndarray {xs})) = {got}, with a tuple: {want}", {"I": list(I), "x": xs, "value": got, "tuple": want})
    # the copula of the model, called as the model calls it (ndarray of tail integrals, infinities for the I-margins)
    cop = getattr(model, "copula", None)
    if cop is not None:
        vals = (-INF, -3.0, -0.4, 0.2, 5.0, INF)
        us_list = [u for u in itertools.product(vals, repeat=d) if sum(1 for x in u if math.isinf(x)) < d]
        if d == 3:
            us_list = us_list[::3]
        buf = np.empty(d, dtype=float)
        for u in us_list:
            fresh = np.array(u, dtype=float)
            buf[:] = u
            sh.count("evaluations")
            try:
                want = float(cop(fresh))
                got = float(cop(buf))
                again = float(cop(buf))
            except Exception as e:
                sh.violation(f"C12:argument:copula:raises-{type(e).__name__}:cop={ctx.kind}", f"copula({u}) raised {e!r}", {"u": u})
                continue
            if not (np.array_equal(fresh, np.array(u, dtype=float)) and np.array_equal(buf, fresh)):
                sh.violation(f"C12:argument:copula:modifies-the-callers-array:d={d}:cop={ctx.kind}",
                             f"after copula(us) the caller's array us = {list(u)} reads {fresh.tolist()} / {buf.tolist()}", {"before": list(u), "after": [fresh.tolist(), buf.tolist()]})
                buf = np.empty(d, dtype=float)
            if not (got == want and again == want) and not (math.isnan(want) and math.isnan(got) and math.isnan(again)):
                sh.violation(f"C12:argument:copula:same-argument-different-value:d={d}:cop={ctx.kind}",
                             f"copula({list(u)}) = {want} on a fresh array, {got} and then {again} on a re-used array holding the same numbers", {"u": list(u), "values": [want, got, again]})


def _tails_memo_sweep(sh, ctx):
    """More distinct abscissae per coordinate than the memo of the marginal tail integral holds (2**10 entries for all
    coordinates together): the first ones, asked again after the sweep, give bit for bit what they gave before, and every tenth
    value of the sweep is the tail integral by the definition."""
    model = ctx.model
    first = {}
    for i in range(ctx.d):
        act = "finite" if ctx.fa[i] else "infinite"
        xs = [sg * 0.9 * 0.993 ** k for k in range(LRU_SWEEP // 2) for sg in (1.0, -1.0)]
        for n, x in enumerate(xs):
            try:
                v = float(model.marginal_tail_integral(i, x))
            except Exception as e:
                sh.violation(f"C12:tails:marginal_tail_integral:raises-{type(e).__name__}:memo-sweep:activity={act}", f"U_{i}({x!r}) raised {e!r}", {"i": i, "x": x})
                break
            if n < 64:
                first[(i, x)] = v
            if n % 10 == 0:
                sh.count("evaluations")
                ref = ctx.U(i, x)
                if not core.close(v, ref, rtol=1e-12, atol=0.0):
                    sh.violation(f"C12:tails:marginal_tail_integral:differs-from-sign-nu-I:memo-sweep:side={_side(x)}:activity={act}",
                                 f"U_{i}({x!r}) = {v} as abscissa number {n} of a sweep, sign(x) nu(I(x)) = {ref}", {"i": i, "x": x, "n": n, "value": v, "reference": ref})
        sh.count("memo_sweep_abscissae", len(xs))
    for (i, x), v in first.items():
        sh.count("evaluations")
        try:
            w = float(model.marginal_tail_integral(i, x))
        except Exception as e:
            sh.violation(f"C12:tails:marginal_tail_integral:raises-{type(e).__name__}:memo-sweep-asked-again", f"U_{i}({x!r}) raised {e!r} when asked again", {"i": i, "x": x})
            continue
        if w != v:
            sh.violation("C12:tails:marginal_tail_integral:changes-after-a-sweep-larger-than-the-memo",
                         f"U_{i}({x!r}) = {v} before and {w} after {LRU_SWEEP} other abscissae per coordinate", {"i": i, "x": x, "before": v, "after": w})


# ----------------------------------------------------------------------------------------------------------------------
# histories on the lru_cache
# ----------------------------------------------------------------------------------------------------------------------

def _rect_list(ctx, types=None, zeros=4):
    """Rectangles of the history / spelling alphabets: first numeric instances of the interval types (all 8, or `types`) plus,
    per coordinate where an end point 0 is inside the alphabet, the first `zeros` zero-touching intervals; at least one coordinate is
    bounded away from zero (the closure of the rectangle does not contain the origin). Zeros are written +0.0."""
    d = ctx.d
    ivs = [(INTERVALS[j]["t"], INTERVALS[j]["a"], INTERVALS[j]["b"]) for j in FIRST if types is None or INTERVALS[j]["t"] in types]
    per_axis = [ivs + ([("zero", a, b) for a, b in ZERO_INTERVALS[:int(zeros)]] if zeros and ctx.zero_allowed(i) else []) for i in range(d)]
    away = {"pos-fin", "neg-fin", "pos-inf", "neg-inf"}
    out = []
    for r in range(d, 0, -1):
        for I in itertools.combinations(range(d), r):
            for tup in itertools.product(*[per_axis[i] for i in I]):
                if not any(t in away for t, _, _ in tup):
                    continue
                out.append((I, tuple(a for _, a, _ in tup), tuple(b for _, _, b in tup)))
    return out


def _has_zero(a, b):
    return any(x == 0 for x in a) or any(x == 0 for x in b)


def _neg_zero(v):
    return tuple(-0.0 if x == 0 else x for x in v)


def _pos_zero(v):
    if isinstance(v, (tuple, list)):
        return tuple(0.0 if x == 0 else x for x in v)
    return 0.0 if (isinstance(v, float) and v == 0) else v


def _queries(ctx, small=False):
    """Forward order: every zero end point is asked as +0.0 before it is asked as -0.0 (the reverse pass does the opposite)."""
    d = ctx.d
    q = []
    if small:
        rects = _rect_list(ctx, types=SMALL_TYPES if d == 3 else None, zeros=0)
    elif d == 2:
        rects = _rect_list(ctx)
    else:  # d = 3: all 8 types without zeros, and the zero-touching intervals among the three finite types
        rects = _rect_list(ctx, zeros=0)
        rects += [r for r in _rect_list(ctx, types=CORE_TYPES, zeros=2) if _has_zero(r[1], r[2])]
    for I, a, b in rects:
        full = len(I) == d
        spell = [(a, b)] + ([(_neg_zero(a), _neg_zero(b))] if _has_zero(a, b) else [])
        for pa, pb in spell:
            q.append(("mass", pa, pb, None if full else list(I)))
            if full:
                q.append(("_mass_nd", pa, pb, None))
    for i in range(d):
        pts = POINTS_SUB if small else POINTS
        for x in pts + ([0.0, -0.0] if ctx.zero_allowed(i) else []):
            q.append(("U", i, x, None))
        if not small:
            q.append(("inv", i, 0.5, None))
            q.append(("inv", i, -0.5, None))
    if small:
        for xs in itertools.product((-0.2, 0.1), repeat=d):
            q.append(("F", xs, None, None))
    return q


def _ask(model, qu):
    kind, p, r, I = qu
    try:
        if kind == "mass":
            v = model.mass(p, r) if I is None else model.mass(p, r, indices=list(I))
        elif kind == "_mass_nd":
            fn = _lib(model, "_mass_nd")
            v = fn(list(p), list(r)) if fn is not None else 0.0
        elif kind == "U":
            v = model.marginal_tail_integral(p, r)
        elif kind == "F":
            v = model.tail_integrals(list(p))
        else:
            v = model.inverse_tail_integral(p, r)
        return float(v).hex()
    except Exception as e:
        return f"raised {type(e).__name__}"


def _qclass(q):
    """Query class for the violation keys: kind + whether a zero end point / argument is involved and how it is written."""
    vals = [x for part in q[1:3] if part is not None for x in (part if isinstance(part, (tuple, list)) else (part,))]
    z = [x for x in vals if isinstance(x, float) and x == 0]
    if not z:
        return q[0]
    return q[0] + (":negative-zero" if any(math.copysign(1.0, x) < 0 for x in z) else ":zero")


def _sub_history(sh, case):
    import copy
    import pickle

    ctx = Ctx(case)
    d = ctx.d
    Q = _queries(ctx)
    trunc = TRUNCATIONS[:d]
    m1 = ctx.fresh_model()
    r1 = [_ask(m1, q) for q in Q]
    r1b = [_ask(m1, q) for q in Q]
    m2 = ctx.fresh_model()
    r2 = [_ask(m2, q) for q in reversed(Q)][::-1]
    # the passes on copies / around another model ask the whole list in dimension 2 and, in dimension 3, the tail-integral
    # queries, the sub-family masses and the full rectangles over the three finite types and the zero-touching intervals
    if d == 2:
        sub = list(range(len(Q)))
    else:
        core_rects = {(a, b) for I, a, b in _rect_list(ctx, types=CORE_TYPES, zeros=2) if len(I) == d}
        sub = [j for j, q in enumerate(Q) if q[0] in ("U", "inv") or q[3] is not None or (_pos_zero(q[1]), _pos_zero(q[2])) in core_rects]
    Qs = [Q[j] for j in sub]
    r1s = [r1[j] for j in sub]
    # copies of the used model (what a pool of workers receives), asked for the first time
    r6 = [_ask(copy.deepcopy(m1), q) for q in Qs]
    try:
        m7 = pickle.loads(pickle.dumps(m1))
    except Exception as e:  # not every model has to be picklable with the standard pickler (the engines use dill)
        sh.note(f"history: pickle round trip of the model not possible ({type(e).__name__})")
        m7 = None
    r7 = [_ask(m7, q) for q in Qs] if m7 is not None else None
    # a second object of the same class, with other margins per coordinate and another copula, used in between
    other_spec = {"margins": list(reversed(ctx.spec["margins"])),
                  "copula": {"kind": "independent"} if ctx.kind == "clayton" else dict(DONOR_CLAYTON)}
    m8 = build_model(other_spec, exp=ctx.exp)
    for q in Qs:
        _ask(m8, q)
    r8 = [_ask(m1, q) for q in Qs]
    m9 = ctx.fresh_model()
    r9 = [_ask(m9, q) for q in Qs]
    # more copies of the used model: shallow copy, dill round trip (what the engines' pool sends to its workers)
    r6s = [_ask(copy.copy(m1), q) for q in Qs]
    m7d = _copy_of(sh, m1, "dill")
    r7d = [_ask(m7d, q) for q in Qs] if m7d is not None else None
    # the library's own route to a truncated model (MarkovChainLevyCopula): deepcopy of the (used) model, truncation of the COPY;
    # the original is not touched by it
    m10 = copy.deepcopy(m1)
    m10.truncate_levy_measure(trunc)
    r10 = [_ask(m10, q) for q in Q]
    r10o = [_ask(m1, q) for q in Qs]
    m1.truncate_levy_measure(trunc)
    r3 = [_ask(m1, q) for q in Q]
    m3 = ctx.fresh_model()
    m3.truncate_levy_measure(trunc)
    r4 = [_ask(m3, q) for q in Q]
    # copies of the truncated, used model (a coupling / a pool worker copies the chain that holds it)
    r3s = [r3[j] for j in sub]
    after = {}
    for kind in ("deepcopy", "dill", "shallow"):
        mc_ = _copy_of(sh, m1, kind)
        if mc_ is not None:
            after[kind] = [_ask(mc_, q) for q in Qs]
    # a third order: interleave tail integrals first (cache filled by direct queries before any mass)
    m5 = ctx.fresh_model()
    order = sorted(range(len(Q)), key=lambda j: (Q[j][0] not in ("U", "inv"), j))
    r5 = [None] * len(Q)
    for j in order:
        r5[j] = _ask(m5, Q[j])

    def cmp(x, y, what, key, qs=Q):
        for q, u, v in zip(qs, x, y):
            sh.count("evaluations")
            if u != v:
                sh.violation(f"C12:history:{_qclass(q)}:{key}:d={d}", f"{q[0]}{q[1:]} {what}: {u} vs {v}", {"query": q, "first": u, "second": v})

    cmp(r1, r1b, "changed when asked a second time", "second-query-differs")
    cmp(r1, r2, "differs when the queries are made in reverse order on a fresh model", "order-dependent")
    cmp(r1, r5, "differs when the tail integrals are queried before the masses on a fresh model", "order-dependent")
    cmp(r1s, r6, "differs on a deepcopy of the used model", "copy-differs", Qs)
    if r7 is not None:
        cmp(r1s, r7, "differs on a pickle round trip of the used model", "copy-differs", Qs)
    cmp(r1s, r8, "changed after another model (other margins, other copula) answered the same queries", "changed-by-another-model", Qs)
    cmp(r1s, r9, "differs on a fresh model built after another model answered the same queries", "changed-by-another-model", Qs)
    cmp(r3, r4, "after truncate_levy_measure differs between a model queried before the truncation and a fresh one", "stale-after-truncation")
    cmp(r1s, r6s, "differs on a shallow copy (copy.copy) of the used model", "copy-differs", Qs)
    if r7d is not None:
        cmp(r1s, r7d, "differs on a dill round trip of the used model", "copy-differs", Qs)
    cmp(r4, r10, "after truncate_levy_measure differs between a deepcopy of a used model truncated after the copy and a fresh model", "stale-after-truncation-of-a-copy")
    cmp(r1s, r10o, "changed after a deepcopy of the model was truncated", "changed-by-truncation-of-a-copy", Qs)
    for kind, res in after.items():
        cmp(r3s, res, f"differs on a copy ({kind}) of the used model taken after truncate_levy_measure", f"copy-after-truncation-differs:{kind}", Qs)
    # the two spellings of a zero end point denote the same rectangle / argument (in r1 +0.0 is asked first, in r2 -0.0)
    def norm(q):
        return repr((q[0], _pos_zero(q[1]), _pos_zero(q[2]), q[3]))

    twin = {norm(q): j for j, q in enumerate(Q) if _qclass(q).endswith(":zero")}
    for j, q in enumerate(Q):
        if not _qclass(q).endswith(":negative-zero") or norm(q) not in twin:
            continue
        for res, first in ((r1, "+0.0"), (r2, "-0.0")):
            sh.count("evaluations")
            u, v = res[j], res[twin[norm(q)]]
            if u != v:
                sh.violation(f"C12:history:{q[0]}:negative-zero-differs-from-positive-zero:d={d}",
                             f"{q[0]}{q[1:]} = {u} but with the zero written +0.0 it is {v} (one model, {first} asked first)",
                             {"query": q, "negative_zero": u, "positive_zero": v, "asked_first": first})
    changed = sum(1 for u, v in zip(r1, r3) if u != v)
    sh.count("truncation_changed_some_value", 1 if changed else 0)
    sh.count("history_queries", len(Q))
    sh.outcome((r1[0], r1[-1], changed))
    if any(v.startswith("raised") for v in r1):
        bad = next(q for q, v in zip(Q, r1) if v.startswith("raised"))
        sh.violation(f"C12:history:{bad[0]}:raises:d={d}", f"query {bad} raised on a fresh model", {"query": bad})
    sh.nontriv()


def _copy_of(sh, model, kind):
    """A copy of the model by copy.copy / copy.deepcopy / a pickle or dill round trip; None (with a note) when the serialiser
    is not available or refuses the object (not every model has to be picklable with the standard pickler: the engines use dill)."""
    import copy

    if kind == "shallow":
        return copy.copy(model)
    if kind == "deepcopy":
        return copy.deepcopy(model)
    try:
        if kind == "dill":
            import dill as ser
        else:
            import pickle as ser
        return ser.loads(ser.dumps(model))
    except Exception as e:
        sh.note(f"copy: {kind} round trip of the model not possible ({type(e).__name__})")
        sh.count(f"copy_not_possible:{kind}")
        return None


# ----------------------------------------------------------------------------------------------------------------------
# one used model walked through the copulas
# ----------------------------------------------------------------------------------------------------------------------

def _ckey(c):
    return c["kind"] + (f"({c['theta']},{c['eta']})" if c["kind"] == "clayton" else "")


def _sub_reparam(sh, case):
    """State = copula of ONE model object that is used in every state; transitions = the public ways to change it:
    `model.copula.theta = ..` / `.eta = ..` (only the attributes that change) between two Clayton copulas, `model.copula = ..`
    otherwise. Every ordered pair of alphabet copulas is taken once (the walk returns to the source through checked
    transitions). After each transition every query must give what a model freshly constructed with the target copula gives."""
    ctx = Ctx(case)
    d = ctx.d
    Q = _queries(ctx, small=True)
    cops = A.copula_specs(case.get("targets", "quick"))
    fresh = {}

    def expected(c):
        k = _ckey(c)
        if k not in fresh:
            m = build_model(dict(ctx.spec, copula=c), exp=ctx.exp)
            fresh[k] = [_ask(m, q) for q in Q]
        return fresh[k]

    model = ctx.fresh_model("direct")
    cur = ctx.spec["copula"]
    for q in Q:
        _ask(model, q)
    n = 0

    def step(to):
        nonlocal cur, n
        if cur["kind"] == "clayton" and to["kind"] == "clayton":
            ops = []
            if cur["theta"] != to["theta"]:
                model.copula.theta = to["theta"]
                ops.append("theta")
            if cur["eta"] != to["eta"]:
                model.copula.eta = to["eta"]
                ops.append("eta")
            op = "set-" + "-".join(ops)
        else:
            model.copula = A.make_copula(to)
            op = f"replace-{cur['kind']}-by-{to['kind']}"
        got = [_ask(model, q) for q in Q]
        sh.cls(f"reparam:{op}")
        n += 1
        for q, u, v in zip(Q, got, expected(to)):
            sh.count("evaluations")
            if u != v:
                sh.violation(f"C12:reparam:{q[0]}:differs-from-fresh-model-after-{op}:d={d}",
                             f"{q[0]}{q[1:]} on a used model after {_ckey(cur)} -> {_ckey(to)} = {u}, fresh model with the target copula: {v}",
                             {"query": q, "from": cur, "to": to, "used_model": u, "fresh_model": v})
        sh.outcome((op, got[0]))
        cur = to

    for f in cops:
        for t in cops:
            if _ckey(f) == _ckey(t):
                continue
            if _ckey(cur) != _ckey(f):
                step(f)
            step(t)
    sh.count("reparam_transitions", n)
    sh.nontriv()


# ----------------------------------------------------------------------------------------------------------------------
# copies of a used model, then one of the two re-parametrised
# ----------------------------------------------------------------------------------------------------------------------

def _reparametrise(model, cur, to):
    """The public ways to change the copula of a model: setters between two Clayton copulas, assignment otherwise."""
    if cur["kind"] == "clayton" and to["kind"] == "clayton":
        ops = []
        if cur["theta"] != to["theta"]:
            model.copula.theta = to["theta"]
            ops.append("theta")
        if cur["eta"] != to["eta"]:
            model.copula.eta = to["eta"]
            ops.append("eta")
        return "set-" + "-".join(ops)
    model.copula = A.make_copula(to)
    return f"replace-{cur['kind']}-by-{to['kind']}"


def _sub_copies(sh, case):
    """A model is USED (all its caches are populated), copied (case["kind"]: deepcopy / dill / pickle round trip / copy.copy),
    and then ONE of the two objects is re-parametrised through the public setters of its copula or by assignment of
    `.copula`. deepcopy / dill / pickle: the re-parametrised object answers like a model freshly constructed with the target
    copula, the other one still like a fresh model with the source copula (the copies share nothing that the setters reach).
    copy.copy: the two objects share the copula OBJECT by the definition of a shallow copy: after a setter on that object
    both answer like a fresh target model; an ASSIGNMENT of `.copula` on a shallow copy is recorded, not judged (on the pinned
    tree `mass` of a shallow copy is the bound method of the original: counter shallow_copy_mass_still_bound_to_the_original)."""
    ctx = Ctx(case)
    d = ctx.d
    kind = case["kind"]
    Q = _queries(ctx, small=True)
    src = ctx.spec["copula"]
    targets = [t for t in (COPY_TARGETS_THOROUGH if case.get("targets") == "thorough" else COPY_TARGETS) if _ckey(t) != _ckey(src)]
    fresh = {}

    def expected(c):
        k = _ckey(c)
        if k not in fresh:
            m = build_model(dict(ctx.spec, copula=c), exp=ctx.exp)
            fresh[k] = [_ask(m, q) for q in Q]
        return fresh[k]

    def cmp(got, c, who, touched, op):
        """who: the object asked (copy / original); touched: the object the operation was applied to."""
        what = "re-parametrised" if (who == touched or kind == "shallow") else "untouched"
        for q, u, v in zip(Q, got, expected(c)):
            sh.count("evaluations")
            if u != v:
                sh.violation(f"C12:copies:{q[0]}:{kind}:{what}-{who}-differs-from-fresh-model-after-{op}-on-the-{touched}:d={d}",
                             f"{q[0]}{q[1:]} on the {who} ({kind} of a used model; {op} applied to the {touched}) = {u}, "
                             f"fresh model with copula {_ckey(c)}: {v}", {"query": q, "kind": kind, "asked": who, "touched": touched, "op": op, "value": u, "fresh_model": v})

    n = 0
    for to in targets:
        for touched in ("copy", "original"):
            m = ctx.fresh_model("direct")
            for q in Q:
                _ask(m, q)  # every cache is populated BEFORE the copy
            c = _copy_of(sh, m, kind)
            if c is None:
                continue
            obj, other = (c, m) if touched == "copy" else (m, c)
            setters = src["kind"] == "clayton" and to["kind"] == "clayton"
            if kind == "shallow" and not setters:
                # assignment of `.copula` on one of two objects that share their attributes: recorded, not judged
                _reparametrise(obj, src, to)
                a, b = (0.1,) * d, (0.7,) * d
                nd = _lib(obj, "_mass_nd")
                try:
                    if nd is not None and float(obj.mass(a, b)) != float(nd(list(a), list(b))) and touched == "copy":
                        sh.count("shallow_copy_mass_still_bound_to_the_original")
                except Exception:
                    pass
                continue
            op = _reparametrise(obj, src, to)
            sh.cls(f"copies:{kind}:{op}:on-{touched}")
            n += 1
            got_obj = [_ask(obj, q) for q in Q]
            got_other = [_ask(other, q) for q in Q]
            cmp(got_obj, to, touched, touched, op)
            cmp(got_other, to if kind == "shallow" else src, "original" if touched == "copy" else "copy", touched, op)
            sh.outcome((kind, op, touched, got_obj[0], got_other[0]))
    sh.count("copy_then_reparametrise", n)
    sh.nontriv()


# ----------------------------------------------------------------------------------------------------------------------
# twins: two models alive at once that differ in exactly one constructor argument
# ----------------------------------------------------------------------------------------------------------------------

def _sub_twins(sh, case):
    """case["model"] and case["twin"] differ in exactly one constructor argument (case["what"]). The twin is built and asked
    first (what a fresh process would answer); then a base model and a second twin are built, both alive, and asked
    ALTERNATELY (even rectangles: base first, odd ones: twin first) for the same rectangles, abscissae and inverse targets,
    each judged against the reference built from ITS OWN values. Then bit for bit: the twin asked beside the base = the twin
    asked first; a base model built afterwards = the base; deep copies / dill copies = their originals. Hygiene: the two
    models do not compare equal and are two keys of a dict / two members of a set."""
    import copy
    import inspect

    what = case["what"]
    tcase = dict(case, model=case["twin"])
    ctxB0 = Ctx(tcase)
    d = ctxB0.d
    Q = _queries(ctxB0, small=True) + [("inv", i, y, None) for i in range(d) for y in (0.5, -0.5)]
    rB0 = [_ask(ctxB0.model, q) for q in Q]
    ctxA, ctxB = Ctx(case), Ctx(tcase)
    A_, B_ = ctxA.model, ctxB.model
    sub = f"twins:{what}"
    # the table of values covers every constructor parameter of the family that is varied
    fam = what.split(".")[0]
    if fam in TWIN_BUMPS:
        for mdl in A_.models:
            prm = getattr(getattr(mdl, "levy_model", mdl), "parameters", None)
            if prm is not None and type(prm).__name__.lower().startswith(fam):
                names = [n for n in inspect.signature(type(prm).__init__).parameters if n != "self"]
                missing = sorted(set(names) - set(TWIN_BUMPS[fam]))
                if missing:
                    sh.count("twin_constructor_parameter_without_a_twin", len(missing))
                    sh.note(f"twins: constructor parameters of {type(prm).__name__} without a twin: {missing}")
    # ---- hygiene: different models are different keys
    sh.count("evaluations", 3)
    try:
        if A_ == B_ or not (A_ != B_):
            sh.violation(f"C12:twins:{what}:equal-to-a-different-model:d={d}", f"two models that differ in {what} compare equal", {"base": case["model"], "twin": case["twin"]})
    except Exception as e:
        sh.violation(f"C12:twins:{what}:comparison-raises-{type(e).__name__}:d={d}", f"== of two models raised {e!r}", {})
    try:
        if len({A_, B_}) != 2 or {A_: "base"}.get(B_) is not None or {B_: "twin"}.get(A_) is not None:
            sh.violation(f"C12:twins:{what}:one-dictionary-key-for-two-different-models:d={d}", f"two models that differ in {what} are one key of a dict / one member of a set",
                         {"base": case["model"], "twin": case["twin"]})
    except TypeError:
        sh.count("twin_models_not_hashable")
    # ---- alternately, each against its own reference
    rects = _rect_list(ctxA, types=None if d == 2 else SMALL_TYPES, zeros=0)
    for j, (I, a, b) in enumerate(rects):
        for ctx in ((ctxA, ctxB) if j % 2 == 0 else (ctxB, ctxA)):
            m = _check_rectangle(sh, ctx, I, a, b, len(I) == d, sub, use_oracle_ref=False)
            if m is not None and ctx is ctxB:
                sh.outcome(float(m).hex())
    j = 0
    for i in range(d):
        for x in POINTS_SUB:
            j += 1
            for who, ctx in ((("base", ctxA), ("twin", ctxB)) if j % 2 == 0 else (("twin", ctxB), ("base", ctxA))):
                sh.count("evaluations")
                act = "finite" if ctx.fa[i] else "infinite"
                try:
                    v = float(ctx.model.marginal_tail_integral(i, x))
                except Exception as e:
                    sh.violation(f"C12:{sub}:marginal_tail_integral:raises-{type(e).__name__}:side={_side(x)}:activity={act}", f"U_{i}({x}) of the {who} raised {e!r}", {"i": i, "x": x})
                    continue
                ref = ctx.U(i, x)
                if not core.close(v, ref, rtol=1e-12, atol=0.0):
                    sh.violation(f"C12:{sub}:marginal_tail_integral:differs-from-sign-nu-I:side={_side(x)}:activity={act}",
                                 f"U_{i}({x}) of the {who} (two models alive that differ in {what}) = {v}, sign(x) nu(I(x)) of its own margin = {ref}",
                                 {"i": i, "x": x, "who": who, "value": v, "reference": ref})
        for y in (0.5, -0.5, 0.01, -2.0):
            j += 1
            for who, ctx in ((("base", ctxA), ("twin", ctxB)) if j % 2 == 0 else (("twin", ctxB), ("base", ctxA))):
                _twin_inverse(sh, ctx, i, y, sub, who)
    # ---- bit for bit: a model answers what it answers when it is built and asked first / alone
    rA = [_ask(A_, q) for q in Q]
    rB = [_ask(B_, q) for q in Q]
    rA1 = [_ask(ctxA.fresh_model(), q) for q in Q]

    def cmp(x, y, text, key):
        for q, u, v in zip(Q, x, y):
            sh.count("evaluations")
            if u != v:
                sh.violation(f"C12:twins:{what}:{_qclass(q)}:{key}:d={d}", f"{q[0]}{q[1:]} {text}: {u} vs {v}", {"query": q, "first": u, "second": v})

    cmp(rB0, rB, f"differs between a model built and asked first and the same model asked alternately with a model that differs in {what}", "differs-from-the-same-model-asked-first")
    cmp(rA, rA1, f"differs on a fresh model built after a model that differs in {what} was used", "differs-from-the-same-model-built-later")
    for who, mdl, res in (("base", A_, rA), ("twin", B_, rB)):
        for kind in ("deepcopy", "dill"):
            c = _copy_of(sh, mdl, kind)
            if c is not None:
                cmp(res, [_ask(c, q) for q in Q], f"differs on a {kind} of the {who}", f"copy-differs:{kind}")
    if what.startswith(("copula.", "margins.")):
        # the way a script walks through copulas / orders: a NEW model around the SAME margin objects as the used base model
        from rpylib.model.utils import create_levy_copula_model

        if what.startswith("copula."):
            shared = create_levy_copula_model(models=list(A_.models), copula=A.make_copula(case["twin"]["copula"]))
        else:
            shared = create_levy_copula_model(models=list(A_.models[1:]) + list(A_.models[:1]), copula=A.make_copula(case["twin"]["copula"]))
        cmp(rB, [_ask(shared, q) for q in Q], f"differs on a model built around the margin OBJECTS of a used model that differs in {what}", "differs-on-a-model-sharing-the-margin-objects")
        cmp(rA, [_ask(A_, q) for q in Q], f"changed after a model sharing its margin objects (differing in {what}) was used", "changed-by-a-model-sharing-the-margin-objects")
        sh.cls("twins:shared-margin-objects")
    if any(v.startswith("raised") for v in rB0):
        bad = next(q for q, v in zip(Q, rB0) if v.startswith("raised"))
        sh.violation(f"C12:twins:{what}:{bad[0]}:raises:d={d}", f"query {bad} raised on a fresh model", {"query": bad})
    sh.cls(f"twins:{what}:d={d}")
    sh.count("twin_pairs")
    sh.nontriv()


def _twin_inverse(sh, ctx, i, y, sub, who):
    """U_i(inverse_tail_integral(i, y)) = y with U_i the tail integral of the model's OWN margin (reference), or, for |y| beyond
    the value of U_i at +-1e-12, 0 <= sign(y) x <= 1e-12 (as in `tails`)."""
    act = "finite" if ctx.fa[i] else "infinite"
    sg = 1.0 if y > 0 else -1.0
    beyond = abs(y) > abs(ctx.U(i, sg * 1e-12))
    sh.count("evaluations")
    try:
        xb = float(ctx.model.inverse_tail_integral(i, y))
    except Exception as e:
        sh.violation(f"C12:{sub}:inverse_tail_integral:raises-{type(e).__name__}:side={_side(y)}:activity={act}", f"inverse_tail_integral({i}, {y}) of the {who} raised {e!r}", {"i": i, "y": y})
        return
    if beyond:
        if not (0.0 <= sg * xb <= 1e-12):
            sh.violation(f"C12:{sub}:inverse_tail_integral:not-zero-beyond-the-range:side={_side(y)}:activity={act}",
                         f"inverse_tail_integral({i}, {y}) of the {who} = {xb}, but |y| exceeds |U_{i}({sg * 1e-12})| of its own margin", {"i": i, "y": y, "x": xb, "who": who})
        return
    y_atol = 16 * 2.0 ** -52 * abs(ctx.U0(i, +1 if y > 0 else -1)) if ctx.fa[i] else 0.0
    ref_yb = ctx.U(i, xb) if xb != 0 else math.nan
    if not core.close(ref_yb, y, rtol=1e-9, atol=y_atol):
        sh.violation(f"C12:{sub}:inverse_tail_integral:U-of-inverse-differs:side={_side(y)}:activity={act}",
                     f"x = inverse_tail_integral({i}, {y}) of the {who} = {xb}; the tail integral of its own margin there is {ref_yb}", {"i": i, "y": y, "x": xb, "refU": ref_yb, "who": who})


# ----------------------------------------------------------------------------------------------------------------------
# spellings of one rectangle
# ----------------------------------------------------------------------------------------------------------------------

def _spell(how, a, b):
    if how in ("negzero", "negzero-ndarray"):
        a, b = _neg_zero(a), _neg_zero(b)
    if how == "list":
        return list(a), list(b)
    if how == "np-scalars":
        return tuple(np.float64(x) for x in a), tuple(np.float64(x) for x in b)
    if how in ("ndarray", "negzero-ndarray"):
        return np.array(a, dtype=float), np.array(b, dtype=float)
    return tuple(a), tuple(b)


def _same_container(x, y):
    """x (after the call) still holds what its copy y (taken before) holds; zeros compared with their sign."""
    if isinstance(x, np.ndarray):
        return isinstance(y, np.ndarray) and x.shape == y.shape and np.array_equal(x, y) and np.array_equal(np.signbit(x), np.signbit(y))
    return type(x) is type(y) and len(x) == len(y) and all(float(u) == float(v) and math.copysign(1.0, u) == math.copysign(1.0, v) for u, v in zip(x, y))


def _sub_spelling(sh, case):
    """The rectangle is the input, not the Python objects that carry its end points: tuples of floats (baseline), lists,
    tuples of numpy scalars (zip(*cells) of grid arrays: numerical/samplingfactory), numpy arrays (grid.middle), keyword
    arguments (a=, b=), and zero written -0.0 (mirrored grids). One fresh model per spelling, so that the spelled end points are
    the first to reach the memoised tail integral.
    reused-buffers: ONE pair of numpy arrays per size, refilled in place before every call (a caller's loop over cells): the model
    keeps no reference to them. indices-tuple / indices-np-int64: the index family as a tuple / as a list of numpy integers
    (np.flatnonzero, np.arange): where the model accepts the form (no exception) it denotes the same family.
    After every call the containers handed over (a, b, indices) hold what they held before (the callee does not modify them)."""
    ctx = Ctx(case)
    d = ctx.d
    rects = _rect_list(ctx) if d == 2 else _rect_list(ctx, types=SMALL_TYPES, zeros=2)
    base = {}
    for j, (I, a, b) in enumerate(rects):
        full = len(I) == d
        try:
            base[j] = float(ctx.model.mass(a, b) if full else ctx.model.mass(a, b, indices=list(I)))
        except Exception:
            base[j] = None  # reported by the rect / subfamily sub-checks
    for how in SPELLINGS:
        mdl = ctx.fresh_model()
        buffers = {r: (np.empty(r, dtype=float), np.empty(r, dtype=float)) for r in range(1, d + 1)}
        for j, (I, a, b) in enumerate(rects):
            if base[j] is None or (how.startswith("negzero") and not _has_zero(a, b)):
                continue
            full = len(I) == d
            if how == "reused-buffers":
                pa, pb = buffers[len(I)]
                pa[:] = a
                pb[:] = b
            else:
                pa, pb = _spell(how, a, b)
            if how == "indices-tuple":
                idx = tuple(I)
            elif how == "indices-np-int64":
                idx = [np.int64(i) for i in I]
            else:
                idx = list(I)
            explicit = how.startswith("indices-")  # the full family is then named explicitly as well
            lenient = explicit  # a form the model rejects is outside the alphabet: counted, never an alarm
            S = ctx.scale(I, a, b)
            zc = _zero_class(a, b)
            if how == "keywords":
                routes = {"mass": lambda: mdl.mass(a=pa, b=pb) if full else mdl.mass(a=pa, b=pb, indices=idx)}
            else:
                routes = {"mass": lambda: mdl.mass(pa, pb) if (full and not explicit) else mdl.mass(pa, pb, indices=idx)}
            nd = _lib(mdl, "_mass_nd")
            if nd is not None and how != "keywords":
                routes["_mass_nd"] = lambda: nd(pa, pb) if (full and not explicit) else nd(pa, pb, idx)
            for name, fn in routes.items():
                sh.count("evaluations")
                ka, kb, ki = (pa.copy(), pb.copy()) + (list(idx),) if isinstance(pa, np.ndarray) else (type(pa)(pa), type(pb)(pb), list(idx))
                try:
                    v = float(fn())
                except Exception as e:
                    if lenient:
                        sh.count(f"spelling_form_rejected:{how}")
                        continue
                    sh.violation(f"C12:spelling:{name}:raises-{type(e).__name__}:{how}:I={len(I)}of{d}:zero={zc}", f"{name}({_fmt(a, b)}, indices={list(I)}) written as {how} raised {e!r}",
                                 {"a": a, "b": b, "indices": list(I), "spelling": how})
                    continue
                if not (_close(v, base[j], S) or (math.isnan(v) and math.isnan(base[j]))):
                    sh.violation(f"C12:spelling:{name}:differs-from-tuple-of-floats:{how}:I={len(I)}of{d}:zero={zc}:cop={ctx.kind}",
                                 f"{name}({_fmt(a, b)}, indices={list(I)}) written as {how} = {v}, as tuples of Python floats = {base[j]}",
                                 {"a": a, "b": b, "indices": list(I), "spelling": how, "value": v, "baseline": base[j], "scale": S})
                sh.count("evaluations")
                if not (_same_container(pa, ka) and _same_container(pb, kb) and list(idx) == ki and len(idx) == len(I)):
                    sh.violation(f"C12:spelling:{name}:modifies-the-callers-containers:{how}:I={len(I)}of{d}:zero={zc}",
                                 f"after {name}({_fmt(a, b)}, indices={list(I)}) written as {how} the caller's containers read a={list(pa)}, b={list(pb)}, indices={list(idx)}",
                                 {"a": a, "b": b, "indices": list(I), "spelling": how, "a_after": [float(x) for x in pa], "b_after": [float(x) for x in pb], "indices_after": [int(i) for i in idx]})
                    # restore for the routes / rectangles that follow
                    if how == "reused-buffers":
                        buffers[len(I)] = (np.empty(len(I), dtype=float), np.empty(len(I), dtype=float))
                        pa, pb = buffers[len(I)]
                        pa[:] = a
                        pb[:] = b
                    else:
                        pa, pb = _spell(how, a, b)
                    idx = tuple(I) if how == "indices-tuple" else ([np.int64(i) for i in I] if how == "indices-np-int64" else list(I))
        sh.cls(f"spelling:{how}")
    sh.count("spelling_rectangles", len(rects))
    sh.outcome((len(rects), float(base[0] or 0.0).hex()))
    sh.nontriv()


# ----------------------------------------------------------------------------------------------------------------------
# joint density (Clayton)
# ----------------------------------------------------------------------------------------------------------------------

def _clayton_mixed_derivative(theta, eta, u1, u2):
    """d2F/du1du2 of F(u1,u2) = (|u1|^-theta + |u2|^-theta)^(-1/theta) (eta 1{u1u2>=0} - (1-eta) 1{u1u2<0}), u1u2 != 0.
    In every quadrant the derivative is w (1+theta) |u1 u2|^(-theta-1) (|u1|^-theta+|u2|^-theta)^(-1/theta-2) with
    w = eta (same signs) or 1-eta (opposite signs): the sign of the factor and of d|u1|/du1 d|u2|/du2 cancel."""
    a1, a2 = abs(u1), abs(u2)
    if a1 == 0.0 or a2 == 0.0 or math.isinf(a1) or math.isinf(a2):
        return 0.0
    w = eta if (u1 > 0) == (u2 > 0) else (1.0 - eta)
    if w == 0.0:
        return 0.0
    # scale-invariant form to avoid overflow for tiny tail integrals: with t = a2/a1,
    # (a1 a2)^(-th-1) (a1^-th + a2^-th)^(-1/th-2) = a1^-1 * t^(-th-1) (1 + t^-th)^(-1/th-2)  ... symmetric choice below
    if a1 >= a2:
        t = a2 / a1  # <= 1:  = a1^-1 * t^th * (t^th + 1)^(-1/th-2)
        return w * (1.0 + theta) * (t ** theta) * (1.0 + t ** theta) ** (-1.0 / theta - 2.0) / a1
    t = a1 / a2
    return w * (1.0 + theta) * (t ** theta) * (1.0 + t ** theta) ** (-1.0 / theta - 2.0) / a2


def _sub_density(sh, case):
    from scipy.integrate import quad

    ctx = Ctx(case)
    d = ctx.d
    model = ctx.model
    theta, eta = case["model"]["copula"]["theta"], case["model"]["copula"]["eta"]
    I = tuple(case["pair"])
    eta_eff = eta if d == 2 else 0.5
    # the 2-margin of the d-dimensional Clayton formula is the 2-d formula with eta_eff: confirm against the definition
    G = ctx.margin(I)
    from rpylib.distribution.levycopula import ClaytonCopula

    C2 = ClaytonCopula(theta=theta, eta=eta_eff)
    for u in itertools.product((-3.0, -0.4, 0.2, 5.0), repeat=2):
        if not core.close(G(list(u)), float(C2(np.array(u))), rtol=1e-12, atol=1e-15):
            sh.note(f"density: 2-margin of the {d}-d Clayton copula is not Clayton(theta, {eta_eff}) - density oracle skipped")
            sh.count("oracle_inconclusive")
            return
    fin = [iv for iv in INTERVALS if iv["t"] in ("pos-fin", "neg-fin")]
    i1, i2 = I
    nu1, nu2 = ctx.nus[i1], ctx.nus[i2]
    iv1 = fin[case["i0"]]
    for iv2 in fin:
        a = (iv1["a"], iv2["a"])
        b = (iv1["b"], iv2["b"])
        full = d == 2
        try:
            m = float(model.mass(a, b) if full else model.mass(a, b, indices=list(I)))
        except Exception as e:
            sh.violation(f"C12:density:mass:raises-{type(e).__name__}:d={d}", f"mass({_fmt(a, b)}) raised {e!r}", {"a": a, "b": b, "I": list(I)})
            continue
        inner_err = [0.0]

        def inner(x1):
            u1 = O.tail_integral_1d(nu1, x1)
            n1 = float(nu1(x1))
            if n1 == 0.0:
                return 0.0

            def f(x2):
                return _clayton_mixed_derivative(theta, eta_eff, u1, O.tail_integral_1d(nu2, x2)) * float(nu2(x2))

            v, e = quad(f, a[1], b[1], epsabs=0.0, epsrel=1e-11, limit=200)
            inner_err[0] = max(inner_err[0], abs(e) * n1)
            return v * n1

        v, e = quad(inner, a[0], b[0], epsabs=0.0, epsrel=1e-11, limit=200)
        err = abs(e) + inner_err[0] * (b[0] - a[0])
        quad_class = ("same" if (a[0] > 0) == (a[1] > 0) else "opposite") + "-signs"
        sh.cls(f"density:{quad_class}:d={d}")
        if not math.isfinite(v) or err > 1e-9 * max(abs(v), abs(m)) + 1e-300:
            sh.count("oracle_inconclusive")
            continue
        sh.count("evaluations")
        sh.outcome(float(m).hex())
        # the library's value is a signed sum of four copula values, each bounded by min_i max(|U_i(a_i)|, |U_i(b_i)|)
        S = min(max(abs(ctx.U(i, lo)), abs(ctx.U(i, hi))) for i, lo, hi in zip(I, a, b))
        if not core.close(m, v, rtol=1e-8, atol=1e-12 * S):
            sh.violation(f"C12:density:mass:differs-from-integral-of-joint-density:d={d}:{quad_class}",
                         f"mass({_fmt(a, b)}, indices={list(I)}) = {m}, 2-d quadrature of the implied joint density = {v} (+- {err})",
                         {"a": a, "b": b, "I": list(I), "mass": m, "quadrature": v, "error_estimate": err})
    sh.nontriv()


# ----------------------------------------------------------------------------------------------------------------------
# joint density of the FULL family, dimension 2 and 3 (Clayton): tensor Gauss-Legendre rules inside one orthant
# ----------------------------------------------------------------------------------------------------------------------

def _clayton_density_nd(theta, eta, us, negative):
    """d^dF/du_1..du_d of the d-dimensional Clayton formula F(u) = 2^(2-d) w (sum |u_i|^-theta)^(-1/theta), w = eta where the
    product of the u_i is positive and -(1-eta) where it is negative, on the tensor grid of the per-axis arrays `us` (no zero;
    `negative` = number of axes on the negative side - NOT read off the values: a far-tail integral may round to -0.0): with s = sum |u_i|^-theta,
        d^d/d|u_1|..d|u_d| s^(-1/theta) = prod_{k<d} (1 + k theta) * prod |u_i|^(-theta-1) * s^(-1/theta-d)   (> 0),
    the signs of d|u_i|/du_i multiply to the sign of the product of the u_i, which cancels the sign of w: the density is
    2^(2-d) |w| times the expression above. Written in the scale-invariant form (ratios r_i = |u_i| / min_j |u_j| >= 1):
        min|u|^(1-d) * prod r_i^(-theta-1) * (sum r_i^-theta)^(-1/theta-d)."""
    d = len(us)
    w = eta if negative % 2 == 0 else 1.0 - eta
    grids = np.meshgrid(*[np.abs(np.asarray(u, dtype=float)) for u in us], indexing="ij")
    if w == 0.0:
        return np.zeros_like(grids[0])
    amin = grids[0]
    for g in grids[1:]:
        amin = np.minimum(amin, g)
    rs = [g / amin for g in grids]
    s = sum(r ** (-theta) for r in rs)
    out = 2.0 ** (2 - d) * w * float(np.prod([1.0 + k * theta for k in range(d)])) * amin ** (1 - d) * s ** (-1.0 / theta - d)
    for r in rs:
        out = out * r ** (-theta - 1.0)
    return out


JOINT_RULES = (8, 12, 16, 20, 24, 28)  # nodes per axis n of the Gauss-Legendre rules tried in turn; rule n + JOINT_STEP is used when it
JOINT_STEP = 4                          # agrees with rule n to 1e-10 relative (|difference| = error estimate)
_GL = {}


def _gl(n, lo, hi):
    if n not in _GL:
        _GL[n] = np.polynomial.legendre.leggauss(n)
    x, w = _GL[n]
    return 0.5 * (hi - lo) * x + 0.5 * (lo + hi), 0.5 * (hi - lo) * w


def _outer(vs):
    out = np.asarray(vs[0], dtype=float)
    for v in vs[1:]:
        out = np.multiply.outer(out, np.asarray(v, dtype=float))
    return out


def _model_margin_measures(ctx):
    """The marginal Levy measures of the model under test through its public attributes (the margins of a route twin are
    the re-initialised objects); the fresh margins of the reference if the attributes are not there."""
    try:
        nus = [mm.levy_triplet.nu for mm in ctx.model.models]
        if len(nus) == ctx.d:
            return nus
    except Exception:
        pass
    return ctx.nus


# finite intervals of `jointdensity` per side of zero: the two alphabet instances and a NARROW one (for a strongly dependent
# copula the joint density is a ridge along U_i(x_i) = U_j(x_j): a tensor rule resolves it on narrow rectangles only)
JOINT_INTERVALS = {"p": [(0.1, 0.7), (0.02, 0.1), (0.02, 0.05)], "n": [(-1.0, -0.2), (-0.2, -0.03), (-0.06, -0.03)]}
JOINT_LIB_MAX_NODES = 24  # the library's density is a scalar function: at most 24^3 calls per rectangle


def _joint_instances(d, which):
    if which == "all":
        return list(itertools.product((0, 1, 2), repeat=d))
    if which == "few":  # narrow cube, the second alphabet instances, one tuple of three different lengths
        return [(2,) * d, (1,) * d, tuple((0, 2, 1)[:d])]
    return [(2,) * d, (1,) + (2,) * (d - 1)]  # "two"


def _sub_jointdensity(sh, case):
    """Mass of a finite rectangle inside ONE orthant against the integral over it of the implied joint Levy density
        nu(x) = d^dF/du_1..du_d (U_1(x_1), .., U_d(x_d)) * nu_1(x_1) .. nu_d(x_d)
    of the full d-dimensional family (d = 2 and 3), the density of the copula taken (i) from the formula written above with the
    reference tail integrals and (ii) from the library's own ClaytonCopula.x_first_derivative of the copula OF THE MODEL at the
    model's own marginal tail integrals - the convention of its only caller, markovchainsde._integral_zz: the PLAIN mixed
    derivative (open finding of C11: the docstring says 'times the product of the arguments'). The integrand is analytic on
    a rectangle that does not meet the axes: tensor Gauss-Legendre rules, see the module docstring."""
    ctx = Ctx(case)
    d = ctx.d
    model = ctx.model
    theta, eta = case["model"]["copula"]["theta"], case["model"]["copula"]["eta"]
    signs = case["signs"]  # per coordinate "p" (positive side) or "n"
    orth = "".join(signs)
    full_I = tuple(range(d))
    nus_model = _model_margin_measures(ctx)
    xfd = getattr(getattr(model, "copula", None), "x_first_derivative", None)
    fin = JOINT_INTERVALS
    # a SECOND copula of the same class, other parameters, answers first in both dimensions (the value and the density of a
    # copula are functions of its own parameters and of the argument: nothing may be kept per class / per module / per dimension)
    try:
        decoy = A.make_copula(DONOR_CLAYTON)
        for u in (np.array([0.3, -2.0]), np.array([0.3, -2.0, 1.5]), np.array([-0.4, -0.1, -7.0])):
            decoy(u.copy())
            decoy.x_first_derivative(u.copy())
    except Exception:
        sh.count("decoy_copula_raised")
    for inst in _joint_instances(d, case.get("instances", "all")):
        a = tuple(fin[s][k][0] for s, k in zip(signs, inst))
        b = tuple(fin[s][k][1] for s, k in zip(signs, inst))
        try:
            m = float(model.mass(a, b))
        except Exception as e:
            sh.violation(f"C12:jointdensity:mass:raises-{type(e).__name__}:d={d}:orthant={orth}", f"mass({_fmt(a, b)}) raised {e!r}", {"a": a, "b": b})
            continue
        S = min(max(abs(ctx.U(i, lo)), abs(ctx.U(i, hi))) for i, lo, hi in zip(full_I, a, b))
        # (i) the formula written here, reference tail integrals, densities of fresh margins: vectorised, so the number of
        # nodes per axis is raised until two consecutive rules agree
        own = {}

        def own_rule(n):
            if n not in own:
                axes = [_gl(n, lo, hi) for lo, hi in zip(a, b)]
                U_ref = [np.array([O.tail_integral_1d(ctx.nus[i], float(x)) for x in axes[i][0]]) for i in range(d)]
                if any(np.any(u == 0) or np.any((u < 0) != (s == "n")) for u, s in zip(U_ref, signs)):
                    own[n] = math.nan  # a far-tail integral underflows / cancels to (-)0.0: the density cannot be evaluated there
                else:
                    N_ref = _outer([[float(ctx.nus[i](float(x))) for x in axes[i][0]] for i in range(d)])
                    own[n] = float(np.sum(_outer([w for _, w in axes]) * N_ref * _clayton_density_nd(theta, eta, U_ref, orth.count("n"))))
            return own[n]

        n_used = None
        for n in JOINT_RULES:
            lo_v, hi_v = own_rule(n), own_rule(n + JOINT_STEP)
            if math.isfinite(hi_v) and abs(hi_v - lo_v) <= 1e-10 * max(abs(hi_v), abs(m)) + 1e-300:
                n_used = n + JOINT_STEP
                break
        if n_used is None:
            sh.count("oracle_inconclusive")
            sh.count("jointdensity_tail_integral_rounds_to_zero" if any(math.isnan(v) for v in own.values()) else "jointdensity_rules_did_not_converge")
            continue
        v_own, err_own = own[n_used], abs(own[n_used] - own[n_used - JOINT_STEP])
        sh.count(f"jointdensity_nodes_per_axis_{n_used}")
        # (ii) the library's density of the copula of the model, at the model's own tail integrals and margin densities, by
        # the rule that was accurate for (i) (if the library's density is the density, it is the same integrand)
        lib_state = "absent" if xfd is None else ("ok" if n_used <= JOINT_LIB_MAX_NODES else "too-many-nodes")
        v_lib = None
        if lib_state == "ok":
            n = n_used
            axes = [_gl(n, lo, hi) for lo, hi in zip(a, b)]
            W = _outer([w for _, w in axes])
            try:
                U_lib = [[float(model.marginal_tail_integral(i, float(x))) for x in axes[i][0]] for i in range(d)]
                N_lib = _outer([[float(nus_model[i](float(x))) for x in axes[i][0]] for i in range(d)])
                D = np.empty(W.shape)
                for idx in itertools.product(range(n), repeat=d):
                    u = np.array([U_lib[k][j] for k, j in enumerate(idx)])
                    keep = u.copy()
                    D[idx] = float(xfd(u))
                    if not np.array_equal(u, keep):
                        lib_state = "modifies"
                        sh.violation(f"C12:jointdensity:x_first_derivative:modifies-its-argument:d={d}",
                                     f"x_first_derivative changed its argument array {keep.tolist()} into {u.tolist()}", {"u": keep.tolist(), "after": u.tolist()})
                        break
                if lib_state == "ok":
                    v_lib = float(np.sum(W * N_lib * D))
            except NotImplementedError:
                lib_state = "absent"
            except Exception as e:
                lib_state = "raised"
                sh.violation(f"C12:jointdensity:x_first_derivative:raises-{type(e).__name__}:d={d}:orthant={orth}",
                             f"the joint density of the model (x_first_derivative at the marginal tail integrals) raised {e!r} inside {_fmt(a, b)}", {"a": a, "b": b})
        sh.cls(f"jointdensity:d={d}:orthant={orth}:{'zero-weight' if (eta if orth.count('n') % 2 == 0 else 1.0 - eta) == 0.0 else 'positive-weight'}")
        det = {"a": a, "b": b, "mass": m, "own_formula": v_own, "own_formula_error_estimate": err_own, "library_density": v_lib,
               "nodes_per_axis": n_used, "scale": S}
        # ---- mass against the integral of the density written here
        sh.count("evaluations")
        sh.outcome(float(m).hex())
        if not core.close(m, v_own, rtol=1e-8, atol=1e-12 * S):
            sh.violation(f"C12:jointdensity:mass:differs-from-integral-of-joint-density:d={d}:orthant={orth}",
                         f"mass({_fmt(a, b)}) = {m}, tensor Gauss-Legendre integral of the implied joint density (Clayton formula written in the check) = {v_own} (+- {err_own})", det)
        # ---- mass against the integral of the density built from the library's own derivative of the copula
        if lib_state == "absent":
            sh.count("library_density_not_available")
        elif lib_state == "too-many-nodes":
            sh.count("library_density_skipped_rule_too_large")
        elif lib_state == "ok":
            if not math.isfinite(v_lib):
                sh.count("library_density_not_finite")  # overflow of |prod u|^(-theta-1) in far tails: C11's subject
                sh.count("oracle_inconclusive")
            else:
                sh.count("evaluations")
                if not core.close(m, v_lib, rtol=1e-8, atol=1e-12 * S):
                    sh.violation(f"C12:jointdensity:x_first_derivative:integral-of-the-models-joint-density-differs-from-mass:d={d}:orthant={orth}",
                                 f"mass({_fmt(a, b)}) = {m}, but the integral of copula.x_first_derivative(U(x)) * prod nu_i(x_i) over the rectangle = {v_lib} "
                                 f"(ratio {v_lib / m if m else float('nan')}; the same rule on the formula written in the check gives {v_own})", det)
    sh.nontriv()


# ----------------------------------------------------------------------------------------------------------------------

def check_case(sh, case):
    with warnings.catch_warnings():
        warnings.simplefilter("ignore")
        with np.errstate(all="ignore"):
            globals()["_sub_" + case["sub"]](sh, case)
