"""C12 - rectangle mass of a Levy-copula model is a measure consistent with its margins.

Mode: lattice sweep (complete finite products), plus a short history part for the lru_cache of the marginal tail integral.

Alphabet
  models     mc.alphabets.copula_model_specs(tier) (pairs and triples of HEM / VG / CGMY 0.5 / CGMY 1.2 / Merton margins under
             Clayton(theta, eta), independent and completely dependent copulas), as Levy models and as exponential models
  intervals  per coordinate the 8 interval types with two numeric instances each (the whole line has one): 15 intervals
             pos-fin (0.1,0.7] (0.02,0.1]     neg-fin (-1,-0.2] (-0.2,-0.03]    pos-inf (0.3,inf) (0.02,inf)
             neg-inf (-inf,-0.5] (-inf,-0.03] str-fin (-0.4,0.25] (-0.03,0.7]   str-left (-inf,0.3] (-inf,0.02]
             str-right (-0.2,inf) (-1,inf)    whole (-inf,inf)
             End points are Python floats.  A rectangle is in the space iff at least one coordinate interval is not a
             straddling type (= it does not contain the origin): 8^d - 4^d type patterns (48 / 448), 15^d - 7^d rectangles
             (176 / 3032) per model.
  splits     every finite end point of the alphabet {-1,-0.5,-0.4,-0.2,-0.03,0.02,0.1,0.25,0.3,0.7} strictly inside the
             interval of the coordinate being split, and 0 for straddling coordinates (the two pieces (a,0] and (0,b] then
             have an end point exactly at zero; they are checked like every other rectangle, against a reference that knows
             U(0+) = nu(0,inf) and U(0-) = -nu(-inf,0), finite for finite-activity margins and infinite otherwise, and that
             (a,0] contains the hyperplane x_k = 0 while (0,b] does not; this reference was validated against the 2-d
             quadrature of the joint density on (eps,b] x B, eps -> 0, plus the mass of {0} x B).
             mc.oracle.ref_rectangle_mass takes U(0+-) = +-inf: exact for infinite-activity margins, wrong for
             finite-activity ones at an end point 0 (it splits the mass of the hyperplane between the two pieces), so it
             is consulted on zero pieces only when the split coordinate has infinite activity.
             Zero splits of an infinite-activity coordinate need nu_k((0,inf)) = +inf from the margin: where the margin's
             closed form returns nan on that divergent integral (CGMY with y >= 1) the split is outside the alphabet
             (counter zero_split_skipped_margin_integral_not_inf).
  tiers      thorough = every model (Levy and exponential) x all rectangles; quick = the quick model list, d = 2 all
             rectangles, d = 3 all rectangles for the Clayton Levy models and, for the others, all 15 intervals in the
             first coordinate x first numeric instances in the second and third
  subsets    all non-empty proper index subsets I, all |I|-tuples of intervals that are not all straddling

Sub-checks (sub = ...)
  rect       per rectangle: finite; mass >= -slack; fast path (model.mass, _mass_2d/_mass_3d) = _mass_nd; = reference mass
             (mc.oracle.ref_rectangle_mass and the zero-aware reference of this module); additivity under every split
  subfamily  per (I, rectangle in the I-subspace): mass(.., indices=I) = _mass_nd(.., I) = reference mass built from the
             I-margin of the copula (written here from the definition: signed sum over the other arguments at -inf/+inf)
             composed with the marginal tail integrals = mass of the full rectangle with the whole line in the other
             coordinates; for |I| = 1 also = the margin's own Levy mass nu_i((a,b])
  partition  the whole line of every other coordinate is cut at all alphabet points (11 pieces, one of them straddling
             zero); the sum of the masses over all products of pieces = nu_k((a_k,b_k]) for every non-straddling interval
  tails      marginal_tail_integral(i,x) = sign(x) nu_i(I(x)) on the alphabet (x = 0 only for finite activity, where the
             value is finite: I(0) = (0,inf)); margin_tail_integral(I, x) and tail_integrals(x) = I-margin of the copula at
             the marginal tail integrals, all subsets, all point tuples of a 6-letter sub-alphabet;
             inverse_tail_integral(i, U_i(x)) = x and U_i(inverse_tail_integral(i, y)) = y for y inside the range of U_i
  history    one list of queries (masses, tail integrals, inverses) is evaluated on a fresh model twice (second pass hits
             the cache), on another fresh model in reverse order, then again after truncate_levy_measure on the used model
             and on a fresh model truncated before its first query. Asserted: pass 2 = pass 1, reverse = forward (bit
             for bit: the memoised function is pure) and warm-after-truncation = cold-after-truncation (the answer to a
             query is a function of the model, not of what was asked before). Whether truncation changes the masses at
             all is NOT asserted (DESIGN section 9 item 20: it does not reach `mass` on the pinned tree); it is recorded
             in the counter `truncation_changed_some_value`.
  density    (Clayton) mass of an off-axis finite rectangle = 2-d quadrature of the implied joint density
             d2F/du1du2 (U_1(x_1), U_2(x_2)) nu_1(x_1) nu_2(x_2) with the mixed derivative of the Clayton formula written
             here; for triples through the 2-margins (which are Clayton with eta = 1/2: verified against the
             definition-based margin before use, otherwise skipped and noted). Compared only when the quadrature's own
             error estimate is below 1e-9 relative, else counted as oracle_inconclusive.

Outside the alphabet (statement silent): a > b; rectangles containing the origin (all coordinates straddling, or closure
touching the origin in every coordinate); 1-d sub-family intervals containing 0; Python ints as end points (sign() dispatches
on float); y outside the range of a finite-activity tail integral for the inverse; the value of the masses after
truncate_levy_measure; closed-form marginal integrals against the density (C09) and copula axioms (C11).

Tolerances: every compared quantity is a signed sum of at most ~30 copula values, each bounded in modulus by
S = max over the non-straddling coordinates of max(|U(a_i)|, |U(b_i)|) (a Levy copula is bounded by each argument), so
re-association differences are a few ulps of S: |x-y| <= 1e-12 S + 1e-9 max(|x|,|y|); non-negativity slack 1e-13 S;
partition sums (up to 121 terms) 1e-11 S.
Density: rtol 1e-8 (nested quadrature) + 1e-12 min_i max(|U_i(a_i)|,|U_i(b_i)|) (the four copula values of an off-axis
rectangle are bounded by every argument; far-tail rectangles of a strongly dependent copula are pure cancellation).
Inverse: |x' - x| <= 1e-12 + 1e-9 |x|, or U(x') = y to 1e-9 relative + 16 ulps of the margin's total mass (finite activity).
"""
from __future__ import annotations

import itertools
import math
import warnings

import numpy as np

from mc import alphabets as A
from mc import core
from mc import oracle as O

PID = "C12"
LEVEL = "exploration"
RULE = (
    "complete product of copula models x d-tuples of the 15 alphabet intervals per coordinate minus the tuples that "
    "contain the origin, x all alphabet split points per coordinate, x all index subsets; a case is non-trivial when at "
    "least one mass of the real model was compared with the reference or with another route of the real code; "
    "distinct = distinct case dict (model, fixed first interval / sub-check)"
)
ASSUMPTIONS = [
    "interval end points, split points and tail-integral arguments are restricted to the stated alphabet of Python floats",
    "the reference mass shares the copula function (C11) and the margins' closed-form integrate (C09) with the library; "
    "everything else (I-margins, straddle decomposition, tail integrals at zero, signed volume) is re-derived here",
    "values of the masses after truncate_levy_measure are not asserted, only their independence of the query history",
    "joint-density quadrature (Clayton only) uses scipy nested adaptive quadrature and is compared only when its own error "
    "estimate is below 1e-9 relative",
]
CHUNK = 1

INF = math.inf

# the infinite-activity zero-splits are finite whenever another coordinate is bounded away from zero; the same reference
# applies (U(0+) = +inf, U(0-) = -inf). Kept behind a switch because DESIGN.md section 6 planned them for finite activity only.
ZERO_SPLIT_INFINITE_ACTIVITY = True

TYPES = [
    ("pos-fin", [(0.1, 0.7), (0.02, 0.1)]),
    ("neg-fin", [(-1.0, -0.2), (-0.2, -0.03)]),
    ("pos-inf", [(0.3, INF), (0.02, INF)]),
    ("neg-inf", [(-INF, -0.5), (-INF, -0.03)]),
    ("str-fin", [(-0.4, 0.25), (-0.03, 0.7)]),
    ("str-left", [(-INF, 0.3), (-INF, 0.02)]),
    ("str-right", [(-0.2, INF), (-1.0, INF)]),
    ("whole", [(-INF, INF)]),
]
STRADDLING = {"str-fin", "str-left", "str-right", "whole"}
# simplest first: first instances of every type, then second instances
INTERVALS = [{"t": t, "k": 0, "a": inst[0][0], "b": inst[0][1]} for t, inst in TYPES] + [
    {"t": t, "k": 1, "a": inst[1][0], "b": inst[1][1]} for t, inst in TYPES if len(inst) > 1
]
FIRST = [i for i, iv in enumerate(INTERVALS) if iv["k"] == 0]
POINTS = sorted({x for iv in INTERVALS for x in (iv["a"], iv["b"]) if math.isfinite(x)})
POINTS_SUB = [-1.0, -0.2, -0.03, 0.02, 0.1, 0.7]
Y_ALPHABET = [0.01, 0.5, 2.0, 50.0]
TRUNCATIONS = [(-0.5, 0.7), (-0.25, 0.15), (-1.5, 0.3)]


# ----------------------------------------------------------------------------------------------------------------------
# cases
# ----------------------------------------------------------------------------------------------------------------------

def _model_list(tier):
    thorough = tier == "thorough"
    out = []
    for spec in A.copula_model_specs(tier):
        out.append((spec, False))
    if thorough:
        for spec in A.copula_model_specs(tier):
            out.append((spec, True))
    else:
        seen = set()
        for spec in A.copula_model_specs(tier):
            d = len(spec["margins"])
            if d not in seen and spec["copula"]["kind"] == "clayton":
                seen.add(d)
                out.append((spec, True))
    # simplest first: dimension 2 before dimension 3
    out.sort(key=lambda se: len(se[0]["margins"]))
    return out


def cases(tier):
    thorough = tier == "thorough"
    out = []
    models = _model_list(tier)
    for sub in ("tails", "subfamily", "partition", "history"):
        for spec, exp in models:
            out.append({"sub": sub, "model": spec, "exp": exp})
    for spec, exp in models:
        d = len(spec["margins"])
        # quick, d = 3: both numeric instances in every coordinate for the Clayton Levy models, first instances in the
        # second and third coordinate otherwise (the first coordinate always ranges over all 15 intervals)
        others = "all" if (d == 2 or thorough or (spec["copula"]["kind"] == "clayton" and not exp)) else "first"
        for i0 in range(len(INTERVALS)):
            out.append({"sub": "rect", "model": spec, "exp": exp, "i0": i0, "others": others})
    # joint density (Clayton): thorough = every Clayton model (Levy representation), quick = the first pair and first triple
    dens = [(s, e) for s, e in models if s["copula"]["kind"] == "clayton" and not e]
    if not thorough:
        keep, seen = [], set()
        for s, e in dens:
            d = len(s["margins"])
            if d not in seen:
                seen.add(d)
                keep.append((s, e))
        dens = keep
    for spec, exp in dens:
        d = len(spec["margins"])
        for pair in itertools.combinations(range(d), 2):
            for i0 in range(4):  # the four finite off-axis intervals of the first coordinate of the pair
                if not thorough and i0 not in (0, 1):
                    continue
                out.append({"sub": "density", "model": spec, "exp": exp, "pair": list(pair), "i0": i0})
    return out


# ----------------------------------------------------------------------------------------------------------------------
# context: the real model + independently built ingredients of the reference
# ----------------------------------------------------------------------------------------------------------------------

class Ctx:
    def __init__(self, case):
        spec = case["model"]
        self.spec = spec
        self.exp = bool(case.get("exp", False))
        self.model = A.make_copula_model(spec, exp=self.exp)
        self.d = len(spec["margins"])
        # fresh margins and a fresh copula object for the reference (never touched by truncate_levy_measure)
        self.nus = [self._fresh_margin(name).levy_triplet.nu for name in spec["margins"]]
        self.F = A.make_copula(spec["copula"])
        self.kind = spec["copula"]["kind"]
        self.fa = [bool(nu.jump_of_finite_activity()) for nu in self.nus]
        self._u = {}
        self._margins = {}

    def _fresh_margin(self, name):
        ms = dict(A.MARGINS[name])
        if self.exp:  # same transformation as alphabets.make_copula_model (exponential models have their own defaults)
            ms = dict(ms, exp=True, r=0.02, d=0.0, spot=100.0)
        return A.make_model(ms)

    def fresh_model(self):
        return A.make_copula_model(self.spec, exp=self.exp)

    # -- marginal tail integrals from the definition: U(x) = nu((x,inf)) for x>0, -nu((-inf,x]) for x<0 ---------------
    def U(self, i, x):
        key = (i, x)
        if key not in self._u:
            self._u[key] = O.tail_integral_1d(self.nus[i], x)
        return self._u[key]

    def U0(self, i, side):
        """U_i(0+) = nu_i((0,inf)) (side=+1), U_i(0-) = -nu_i((-inf,0)) (side=-1); infinite for infinite activity."""
        if not self.fa[i]:
            return INF if side > 0 else -INF
        key = (i, "0+" if side > 0 else "0-")
        if key not in self._u:
            self._u[key] = float(self.nus[i].integrate(0.0, INF)) if side > 0 else -float(self.nus[i].integrate(-INF, 0.0))
        return self._u[key]

    def margin_reports_infinite_mass_at_zero(self, i):
        key = (i, "div")
        if key not in self._u:
            try:
                self._u[key] = float(self.nus[i].integrate(0.0, INF)) == INF and float(self.nus[i].integrate(-INF, 0.0)) == INF
            except Exception:
                self._u[key] = False
        return self._u[key]

    # -- I-margin of the copula from the definition (Kallsen-Tankov def. 3.3 with the limit taken at -inf/+inf) -------
    def margin(self, I):
        I = tuple(I)
        if I not in self._margins:
            d, F = self.d, self.F
            Ic = [j for j in range(d) if j not in I]
            Il = list(I)

            def G(u, Ic=Ic, Il=Il):
                tot = 0.0
                for p in itertools.product((-INF, INF), repeat=len(Ic)):
                    full = np.empty(d, dtype=float)
                    full[Il] = u
                    if Ic:
                        full[Ic] = p
                    s = -1.0 if sum(1 for pj in p if pj < 0) % 2 else 1.0
                    tot += s * float(F(full))
                return tot

            self._margins[I] = G
        return self._margins[I]

    # -- image of the interval (a,b] of coordinate i in the argument space of the copula ------------------------------
    def u_pieces(self, i, a, b):
        if a < 0 < b:
            return [(-INF, self.U(i, a)), (self.U(i, b), INF)]
        if b == 0:  # (a,0] contains x_i = 0: everything except (-inf,a] and (0,inf)
            return [(-INF, self.U(i, a)), (self.U0(i, +1), INF)]
        if a == 0:  # (0,b]
            return [(self.U(i, b), self.U0(i, +1))]
        return [(self.U(i, b), self.U(i, a))]

    def ref_mass(self, I, a, b):
        """Levy mass of prod_{i in I} (a_i,b_i] under the I-margin: sum of copula volumes over the image rectangles."""
        G = self.margin(I)
        n = len(I)
        axes = [self.u_pieces(i, ai, bi) for i, ai, bi in zip(I, a, b)]
        total = 0.0
        for combo in itertools.product(*axes):
            if any(lo == hi for lo, hi in combo):
                continue
            vol = 0.0
            for corner in itertools.product((0, 1), repeat=n):
                u = [combo[k][c] for k, c in enumerate(corner)]
                sgn = -1.0 if (n - sum(corner)) % 2 else 1.0
                vol += sgn * G(u)
            total += vol
        return total

    def scale(self, I, a, b):
        s = 0.0
        for i, ai, bi in zip(I, a, b):
            if ai < 0 < bi or ai == 0 or bi == 0:
                continue
            s = max(s, abs(self.U(i, ai)), abs(self.U(i, bi)))
        return s


def _lib(model, name):
    return getattr(model, name, None)


def _straddles(a, b):
    return a < 0 < b


def _zero_class(a, b):
    if any(bi == 0 for bi in b):
        return "upper"
    if any(ai == 0 for ai in a):
        return "lower"
    return "none"


def _klass(ctx, a, b):
    ns = sum(1 for ai, bi in zip(a, b) if _straddles(ai, bi))
    return f"d={len(a)}:zero={_zero_class(a, b)}:straddle={ns}:cop={ctx.kind}"


def _close(x, y, S, atol=1e-12, rtol=1e-9):
    return core.close(x, y, rtol=rtol, atol=atol * S)


def _fmt(a, b):
    return " x ".join(f"({ai},{bi}]" for ai, bi in zip(a, b))


# ----------------------------------------------------------------------------------------------------------------------
# one rectangle through every route of the real code, against the reference
# ----------------------------------------------------------------------------------------------------------------------

def _routes(ctx, I, a, b, full):
    """Values of the mass of prod (a_i,b_i], i in I, by every route of the real model. full: I is all coordinates."""
    m = ctx.model
    out = {}
    idx = None if full else list(I)
    out["mass"] = lambda: m.mass(tuple(a), tuple(b)) if full else m.mass(tuple(a), tuple(b), indices=idx)
    fast = _lib(m, f"_mass_{ctx.d}d")
    if fast is not None:
        out[f"_mass_{ctx.d}d"] = lambda: fast(tuple(a), tuple(b)) if full else fast(tuple(a), tuple(b), indices=list(I))
    nd = _lib(m, "_mass_nd")
    if nd is not None:
        out["_mass_nd"] = lambda: nd(list(a), list(b)) if full else nd(list(a), list(b), list(I))
    return out


def _check_rectangle(sh, ctx, I, a, b, full, sub, use_oracle_ref):
    """Returns the value of model.mass (or None if it could not be obtained)."""
    kl = _klass(ctx, a, b)
    S = ctx.scale(I, a, b)
    vals = {}
    for name, fn in _routes(ctx, I, a, b, full).items():
        try:
            vals[name] = float(fn())
        except Exception as e:  # the statement covers every such rectangle: an exception is a failure
            sh.violation(f"C12:{sub}:{name}:raises-{type(e).__name__}:{kl}", f"{name}({_fmt(a, b)}, indices={list(I)}) raised {e!r}",
                         {"a": a, "b": b, "indices": list(I)})
    if "mass" not in vals:
        return None
    m = vals["mass"]
    det = {"a": a, "b": b, "indices": list(I), "values": vals, "scale": S}
    sh.count("evaluations")
    if not math.isfinite(m):
        sh.violation(f"C12:{sub}:mass:not-finite:{kl}", f"mass({_fmt(a, b)}) = {m}", det)
        return None
    sh.count("evaluations")
    if m < -1e-13 * S:
        sh.violation(f"C12:{sub}:mass:negative:{kl}", f"mass({_fmt(a, b)}) = {m} < 0 (scale {S})", det)
    for name, v in vals.items():
        if name == "mass":
            continue
        sh.count("evaluations")
        if not _close(m, v, S):
            sh.violation(f"C12:{sub}:{name}:differs-from-mass:{kl}", f"{name} = {v} but mass = {m} on {_fmt(a, b)}", det)
    ref = ctx.ref_mass(I, a, b)
    det["reference"] = ref
    sh.count("evaluations")
    if not _close(m, ref, S):
        sh.violation(f"C12:{sub}:mass:differs-from-reference:{kl}",
                     f"mass({_fmt(a, b)}, indices={list(I)}) = {m}, reference (copula volume of the tail integrals) = {ref}", det)
    if use_oracle_ref:
        G = ctx.F if full else ctx.margin(I)
        oref = O.ref_rectangle_mass(G if full else (lambda u, G=G: G(list(u))), [ctx.nus[i] for i in I], a, b)
        det["oracle_reference"] = oref
        sh.count("evaluations")
        if not _close(m, oref, S):
            sh.violation(f"C12:{sub}:mass:differs-from-oracle-reference:{kl}",
                         f"mass({_fmt(a, b)}) = {m}, mc.oracle.ref_rectangle_mass = {oref}", det)
    return m


def _with(v, k, x):
    w = list(v)
    w[k] = x
    return tuple(w)


def _sub_rect(sh, case):
    ctx = Ctx(case)
    d = ctx.d
    iv0 = INTERVALS[case["i0"]]
    rest = range(len(INTERVALS)) if case["others"] == "all" else FIRST
    full_I = tuple(range(d))
    model = ctx.model
    n_rect = 0
    for tail in itertools.product(rest, repeat=d - 1):
        ivs = [iv0] + [INTERVALS[j] for j in tail]
        if all(iv["t"] in STRADDLING for iv in ivs):
            continue  # contains the origin
        a = tuple(iv["a"] for iv in ivs)
        b = tuple(iv["b"] for iv in ivs)
        n_rect += 1
        sh.cls(f"d{d}:" + "|".join(iv["t"] for iv in ivs))
        m = _check_rectangle(sh, ctx, full_I, a, b, True, "rect", use_oracle_ref=True)
        if m is None:
            continue
        sh.outcome(float(m).hex())
        if n_rect % 97 == 1:
            sh.sample({"model": case["model"], "a": a, "b": b, "mass": m})
        S = ctx.scale(full_I, a, b)
        # ---- additivity under a split of any coordinate at any alphabet point
        for k in range(d):
            for s in POINTS:
                if not (a[k] < s < b[k]):
                    continue
                try:
                    m1 = float(model.mass(a, _with(b, k, s)))
                    m2 = float(model.mass(_with(a, k, s), b))
                except Exception as e:
                    sh.violation(f"C12:additivity:mass:raises-{type(e).__name__}:{_klass(ctx, a, b)}:split=nonzero",
                                 f"mass raised {e!r} on a piece of {_fmt(a, b)} split at x_{k}={s}", {"a": a, "b": b, "k": k, "s": s})
                    continue
                sh.count("evaluations")
                if not _close(m, m1 + m2, S):
                    sh.violation(f"C12:additivity:mass:not-additive:{_klass(ctx, a, b)}:split=nonzero",
                                 f"mass({_fmt(a, b)}) = {m} but split at x_{k}={s} gives {m1} + {m2} = {m1 + m2}",
                                 {"a": a, "b": b, "k": k, "s": s, "whole": m, "left": m1, "right": m2, "scale": S})
            if _straddles(a[k], b[k]) and (ctx.fa[k] or ZERO_SPLIT_INFINITE_ACTIVITY):
                act = "finite" if ctx.fa[k] else "infinite"
                if not ctx.fa[k] and not ctx.margin_reports_infinite_mass_at_zero(k):
                    # U_k(0) needs the divergent integral nu_k((0,inf)); a margin whose closed form returns nan there
                    # (CGMY, y >= 1) is outside the alphabet: divergent marginal integrals are not specified (C09)
                    sh.count("zero_split_skipped_margin_integral_not_inf")
                    continue
                sh.cls(f"zero-split:activity={act}")
                bl, ar = _with(b, k, 0.0), _with(a, k, 0.0)
                # the pieces are rectangles of the space themselves (closure away from the origin in another coordinate)
                use_o = not ctx.fa[k]  # mc.oracle's reference takes U(0+-) = +-inf: right only for infinite activity
                m1 = _check_rectangle(sh, ctx, full_I, a, bl, True, "zero-piece", use_oracle_ref=use_o)
                m2 = _check_rectangle(sh, ctx, full_I, ar, b, True, "zero-piece", use_oracle_ref=use_o)
                if m1 is None or m2 is None:
                    continue
                sh.count("evaluations")
                if not _close(m, m1 + m2, S):
                    sh.violation(f"C12:additivity:mass:not-additive:{_klass(ctx, a, b)}:split=zero:activity={act}",
                                 f"mass({_fmt(a, b)}) = {m} but split at x_{k}=0 gives {m1} + {m2} = {m1 + m2}",
                                 {"a": a, "b": b, "k": k, "s": 0.0, "whole": m, "left": m1, "right": m2, "scale": S})
    sh.count("rectangles", n_rect)
    if n_rect:
        sh.nontriv()


# ----------------------------------------------------------------------------------------------------------------------
# sub-families of coordinates
# ----------------------------------------------------------------------------------------------------------------------

def _sub_subfamily(sh, case):
    ctx = Ctx(case)
    d = ctx.d
    model = ctx.model
    n = 0
    for r in range(1, d):
        for I in itertools.combinations(range(d), r):
            for tup in itertools.product(range(len(INTERVALS)), repeat=r):
                ivs = [INTERVALS[j] for j in tup]
                if all(iv["t"] in STRADDLING for iv in ivs):
                    continue  # contains the origin of the sub-space
                a = tuple(iv["a"] for iv in ivs)
                b = tuple(iv["b"] for iv in ivs)
                n += 1
                sh.cls(f"I={list(I)}/d{d}:" + "|".join(iv["t"] for iv in ivs))
                m = _check_rectangle(sh, ctx, I, a, b, False, f"subfamily-{r}of{d}", use_oracle_ref=True)
                if m is None:
                    continue
                sh.outcome(float(m).hex())
                S = ctx.scale(I, a, b)
                kl = _klass(ctx, a, b) + f":I={''.join(map(str, I))}"
                # the other coordinates range over the whole line
                fa = [-INF] * d
                fb = [INF] * d
                for i, ai, bi in zip(I, a, b):
                    fa[i], fb[i] = ai, bi
                try:
                    emb = float(model.mass(tuple(fa), tuple(fb)))
                    sh.count("evaluations")
                    if not _close(m, emb, S):
                        sh.violation(f"C12:whole-line:mass:differs-from-margin-mass:{kl}",
                                     f"mass({_fmt(fa, fb)}) = {emb} but mass({_fmt(a, b)}, indices={list(I)}) = {m}",
                                     {"a": fa, "b": fb, "indices": list(I), "embedded": emb, "margin": m, "scale": S})
                except Exception as e:
                    sh.violation(f"C12:whole-line:mass:raises-{type(e).__name__}:{kl}", f"mass({_fmt(fa, fb)}) raised {e!r}", {"a": fa, "b": fb})
                    emb = None
                if r == 1:
                    nu_mass = float(ctx.nus[I[0]].integrate(a[0], b[0]))
                    for label, v in (("indices", m), ("whole-line", emb)):
                        if v is None:
                            continue
                        sh.count("evaluations")
                        if not _close(v, nu_mass, S):
                            sh.violation(f"C12:marginal-levy-mass:mass-{label}:differs-from-nu:{kl}",
                                         f"{label} mass of ({a[0]},{b[0]}] in coordinate {I[0]} = {v}, nu_{I[0]}(({a[0]},{b[0]}]) = {nu_mass}",
                                         {"a": a, "b": b, "i": I[0], "value": v, "nu": nu_mass, "scale": S})
    sh.count("subfamily_rectangles", n)
    sh.nontriv()


def _sub_partition(sh, case):
    ctx = Ctx(case)
    d = ctx.d
    model = ctx.model
    cuts = [-INF] + POINTS + [INF]  # consecutive pieces; the piece (-0.03, 0.02] straddles zero
    pieces = list(zip(cuts[:-1], cuts[1:]))
    for k in range(d):
        for iv in INTERVALS:
            if iv["t"] in STRADDLING:
                continue
            S = max(abs(ctx.U(k, iv["a"])), abs(ctx.U(k, iv["b"])))
            terms = []
            ok = True
            for combo in itertools.product(pieces, repeat=d - 1):
                a = [c[0] for c in combo]
                b = [c[1] for c in combo]
                a.insert(k, iv["a"])
                b.insert(k, iv["b"])
                try:
                    terms.append(float(model.mass(tuple(a), tuple(b))))
                except Exception as e:
                    ok = False
                    sh.violation(f"C12:partition:mass:raises-{type(e).__name__}:d={d}:cop={ctx.kind}", f"mass({_fmt(a, b)}) raised {e!r}", {"a": a, "b": b})
                    break
            if not ok:
                continue
            tot = math.fsum(terms)
            nu_mass = float(ctx.nus[k].integrate(iv["a"], iv["b"]))
            sh.count("evaluations")
            sh.outcome(float(tot).hex())
            if not _close(tot, nu_mass, S, atol=1e-11):
                sh.violation(f"C12:partition:mass:sum-over-other-coordinates-differs-from-nu:d={d}:cop={ctx.kind}:side={'neg' if iv['b'] < 0 else 'pos'}",
                             f"sum of {len(terms)} masses over a partition of the other coordinates = {tot}, nu_{k}(({iv['a']},{iv['b']}]) = {nu_mass}",
                             {"k": k, "interval": [iv["a"], iv["b"]], "sum": tot, "nu": nu_mass, "min_term": min(terms), "scale": S})
            if min(terms) < -1e-13 * S:
                sh.violation(f"C12:partition:mass:negative:d={d}:cop={ctx.kind}", f"a piece of the partition has mass {min(terms)}", {"k": k, "interval": [iv["a"], iv["b"]]})
    sh.nontriv()


# ----------------------------------------------------------------------------------------------------------------------
# tail integrals and their inverse
# ----------------------------------------------------------------------------------------------------------------------

def _side(x):
    return "neg" if x < 0 else ("zero" if x == 0 else "pos")


def _sub_tails(sh, case):
    ctx = Ctx(case)
    d = ctx.d
    model = ctx.model
    for i in range(d):
        act = "finite" if ctx.fa[i] else "infinite"
        xs = POINTS + [-INF, INF] + ([0.0] if ctx.fa[i] else [])
        for x in xs:
            ref = ctx.U0(i, +1) if x == 0 else ctx.U(i, x)
            sh.count("evaluations")
            try:
                v = float(model.marginal_tail_integral(i, x))
            except Exception as e:
                sh.violation(f"C12:tails:marginal_tail_integral:raises-{type(e).__name__}:side={_side(x)}:activity={act}", f"U_{i}({x}) raised {e!r}", {"i": i, "x": x})
                continue
            sh.outcome(float(v).hex())
            if not core.close(v, ref, rtol=1e-12, atol=0.0):
                sh.violation(f"C12:tails:marginal_tail_integral:differs-from-sign-nu-I:side={_side(x)}:activity={act}",
                             f"U_{i}({x}) = {v}, sign(x) nu(I(x)) = {ref}", {"i": i, "x": x, "value": v, "reference": ref})
    # I-margins of the tail integral
    for r in range(1, d + 1):
        for I in itertools.combinations(range(d), r):
            G = ctx.margin(I)
            for xs in itertools.product(POINTS_SUB, repeat=r):
                us = [ctx.U(i, x) for i, x in zip(I, xs)]
                ref = G(us)
                S = min(abs(u) for u in us)
                signs = "".join("-" if x < 0 else "+" for x in xs)
                routes = {"margin_tail_integral": lambda: model.margin_tail_integral(list(I), iter(xs))}
                if r == d:
                    routes["tail_integrals"] = lambda: model.tail_integrals(list(xs))
                for name, fn in routes.items():
                    sh.count("evaluations")
                    try:
                        v = float(fn())
                    except Exception as e:
                        sh.violation(f"C12:tails:{name}:raises-{type(e).__name__}:I={r}of{d}:cop={ctx.kind}", f"{name}({list(I)}, {xs}) raised {e!r}", {"I": list(I), "x": xs})
                        continue
                    if not _close(v, ref, S):
                        sh.violation(f"C12:tails:{name}:differs-from-I-margin-of-copula:I={r}of{d}:signs={signs}:cop={ctx.kind}",
                                     f"{name}({list(I)}, {xs}) = {v}, I-margin of the copula at the marginal tail integrals = {ref}",
                                     {"I": list(I), "x": xs, "u": us, "value": v, "reference": ref})
    # inverse
    inv = _lib(model, "inverse_tail_integral")
    for i in range(d):
        act = "finite" if ctx.fa[i] else "infinite"
        for x in POINTS:
            y = ctx.U(i, x)
            if y == 0.0 or not math.isfinite(y):
                continue
            sh.count("evaluations")
            try:
                xb = float(inv(i, y))
            except Exception as e:
                sh.violation(f"C12:inverse:inverse_tail_integral:raises-{type(e).__name__}:side={_side(x)}:activity={act}", f"inverse_tail_integral({i}, U({x})={y}) raised {e!r}", {"i": i, "x": x, "y": y})
                continue
            sh.outcome(float(xb).hex())
            # Where the closed form of a finite-activity margin resolves U only to a few ulps of its total mass (Merton:
            # differences of normal cdfs; U(-0.4) = -1.5 ulp), U is numerically flat and every point of the flat piece is
            # an inverse: x is accepted when it is recovered, or when U at the returned point is y up to that resolution.
            y_atol = 16 * 2.0 ** -52 * abs(ctx.U0(i, +1 if x > 0 else -1)) if ctx.fa[i] else 0.0
            if not core.close(xb, x, rtol=1e-9, atol=1e-12) and not (xb != 0 and core.close(ctx.U(i, xb), y, rtol=1e-9, atol=y_atol)):
                sh.violation(f"C12:inverse:inverse_tail_integral:inverse-of-U-differs:side={_side(x)}:activity={act}",
                             f"inverse_tail_integral({i}, U_{i}({x}) = {y}) = {xb}", {"i": i, "x": x, "y": y, "back": xb})
        for y0 in Y_ALPHABET:
            for y in (y0, -y0):
                lim = ctx.U0(i, +1 if y > 0 else -1)
                if abs(y) >= 0.99 * abs(lim):
                    sh.count("inverse_y_outside_range_of_U")
                    continue  # outside the range of a finite-activity tail integral: no inverse exists
                sh.count("evaluations")
                try:
                    xb = float(inv(i, y))
                    yb = float(model.marginal_tail_integral(i, xb))
                except Exception as e:
                    sh.violation(f"C12:inverse:inverse_tail_integral:raises-{type(e).__name__}:side={_side(y)}:activity={act}", f"inverse_tail_integral({i}, {y}) raised {e!r}", {"i": i, "y": y})
                    continue
                ref_yb = ctx.U(i, xb) if xb != 0 else math.nan
                if not (core.close(yb, y, rtol=1e-9) and core.close(ref_yb, y, rtol=1e-9)):
                    sh.violation(f"C12:inverse:inverse_tail_integral:U-of-inverse-differs:side={_side(y)}:activity={act}",
                                 f"x = inverse_tail_integral({i}, {y}) = {xb}; U_{i}(x) = {yb} (reference U: {ref_yb})", {"i": i, "y": y, "x": xb, "U": yb, "refU": ref_yb})
    sh.nontriv()


# ----------------------------------------------------------------------------------------------------------------------
# histories on the lru_cache
# ----------------------------------------------------------------------------------------------------------------------

def _queries(d):
    q = []
    ivs = [INTERVALS[j] for j in FIRST]
    for tup in itertools.product(ivs, repeat=d):
        if all(iv["t"] in STRADDLING for iv in tup):
            continue
        a = tuple(iv["a"] for iv in tup)
        b = tuple(iv["b"] for iv in tup)
        q.append(("mass", a, b, None))
        q.append(("_mass_nd", a, b, None))
    for r in range(1, d):
        for I in itertools.combinations(range(d), r):
            for tup in itertools.product(ivs, repeat=r):
                if all(iv["t"] in STRADDLING for iv in tup):
                    continue
                q.append(("mass", tuple(iv["a"] for iv in tup), tuple(iv["b"] for iv in tup), list(I)))
    for i in range(d):
        for x in POINTS:
            q.append(("U", i, x, None))
        q.append(("inv", i, 0.5, None))
        q.append(("inv", i, -0.5, None))
    return q


def _ask(model, qu):
    kind, p, r, I = qu
    try:
        if kind == "mass":
            v = model.mass(p, r) if I is None else model.mass(p, r, indices=list(I))
        elif kind == "_mass_nd":
            fn = _lib(model, "_mass_nd")
            v = fn(list(p), list(r)) if fn is not None else 0.0
        elif kind == "U":
            v = model.marginal_tail_integral(p, r)
        else:
            v = model.inverse_tail_integral(p, r)
        return float(v).hex()
    except Exception as e:
        return f"raised {type(e).__name__}"


def _sub_history(sh, case):
    ctx = Ctx(case)
    d = ctx.d
    Q = _queries(d)
    trunc = TRUNCATIONS[:d]
    m1 = ctx.fresh_model()
    r1 = [_ask(m1, q) for q in Q]
    r1b = [_ask(m1, q) for q in Q]
    m2 = ctx.fresh_model()
    r2 = [_ask(m2, q) for q in reversed(Q)][::-1]
    m1.truncate_levy_measure(trunc)
    r3 = [_ask(m1, q) for q in Q]
    m3 = ctx.fresh_model()
    m3.truncate_levy_measure(trunc)
    r4 = [_ask(m3, q) for q in Q]
    # a third order: interleave tail integrals first (cache filled by direct queries before any mass)
    m5 = ctx.fresh_model()
    order = sorted(range(len(Q)), key=lambda j: (Q[j][0] not in ("U", "inv"), j))
    r5 = [None] * len(Q)
    for j in order:
        r5[j] = _ask(m5, Q[j])

    def cmp(x, y, what, key):
        for q, u, v in zip(Q, x, y):
            sh.count("evaluations")
            if u != v:
                sh.violation(f"C12:history:{q[0]}:{key}:d={d}", f"{q[0]}{q[1:]} {what}: {u} vs {v}", {"query": q, "first": u, "second": v})

    cmp(r1, r1b, "changed when asked a second time", "second-query-differs")
    cmp(r1, r2, "differs when the queries are made in reverse order on a fresh model", "order-dependent")
    cmp(r1, r5, "differs when the tail integrals are queried before the masses on a fresh model", "order-dependent")
    cmp(r3, r4, "after truncate_levy_measure differs between a model queried before the truncation and a fresh one", "stale-after-truncation")
    changed = sum(1 for u, v in zip(r1, r3) if u != v)
    sh.count("truncation_changed_some_value", 1 if changed else 0)
    sh.count("history_queries", len(Q))
    sh.outcome((r1[0], r1[-1], changed))
    if any(v.startswith("raised") for v in r1):
        bad = next(q for q, v in zip(Q, r1) if v.startswith("raised"))
        sh.violation(f"C12:history:{bad[0]}:raises:d={d}", f"query {bad} raised on a fresh model", {"query": bad})
    sh.nontriv()


# ----------------------------------------------------------------------------------------------------------------------
# joint density (Clayton)
# ----------------------------------------------------------------------------------------------------------------------

def _clayton_mixed_derivative(theta, eta, u1, u2):
    """d2F/du1du2 of F(u1,u2) = (|u1|^-theta + |u2|^-theta)^(-1/theta) (eta 1{u1u2>=0} - (1-eta) 1{u1u2<0}), u1u2 != 0.
    In every quadrant the derivative is w (1+theta) |u1 u2|^(-theta-1) (|u1|^-theta+|u2|^-theta)^(-1/theta-2) with
    w = eta (same signs) or 1-eta (opposite signs): the sign of the factor and of d|u1|/du1 d|u2|/du2 cancel."""
    a1, a2 = abs(u1), abs(u2)
    if a1 == 0.0 or a2 == 0.0 or math.isinf(a1) or math.isinf(a2):
        return 0.0
    w = eta if (u1 > 0) == (u2 > 0) else (1.0 - eta)
    if w == 0.0:
        return 0.0
    # scale-invariant form to avoid overflow for tiny tail integrals: with t = a2/a1,
    # (a1 a2)^(-th-1) (a1^-th + a2^-th)^(-1/th-2) = a1^-1 * t^(-th-1) (1 + t^-th)^(-1/th-2)  ... symmetric choice below
    if a1 >= a2:
        t = a2 / a1  # <= 1:  = a1^-1 * t^th * (t^th + 1)^(-1/th-2)
        return w * (1.0 + theta) * (t ** theta) * (1.0 + t ** theta) ** (-1.0 / theta - 2.0) / a1
    t = a1 / a2
    return w * (1.0 + theta) * (t ** theta) * (1.0 + t ** theta) ** (-1.0 / theta - 2.0) / a2


def _sub_density(sh, case):
    from scipy.integrate import quad

    ctx = Ctx(case)
    d = ctx.d
    model = ctx.model
    theta, eta = case["model"]["copula"]["theta"], case["model"]["copula"]["eta"]
    I = tuple(case["pair"])
    eta_eff = eta if d == 2 else 0.5
    # the 2-margin of the d-dimensional Clayton formula is the 2-d formula with eta_eff: confirm against the definition
    G = ctx.margin(I)
    from rpylib.distribution.levycopula import ClaytonCopula

    C2 = ClaytonCopula(theta=theta, eta=eta_eff)
    for u in itertools.product((-3.0, -0.4, 0.2, 5.0), repeat=2):
        if not core.close(G(list(u)), float(C2(np.array(u))), rtol=1e-12, atol=1e-15):
            sh.note(f"density: 2-margin of the {d}-d Clayton copula is not Clayton(theta, {eta_eff}) - density oracle skipped")
            sh.count("oracle_inconclusive")
            return
    fin = [iv for iv in INTERVALS if iv["t"] in ("pos-fin", "neg-fin")]
    i1, i2 = I
    nu1, nu2 = ctx.nus[i1], ctx.nus[i2]
    iv1 = fin[case["i0"]]
    for iv2 in fin:
        a = (iv1["a"], iv2["a"])
        b = (iv1["b"], iv2["b"])
        full = d == 2
        try:
            m = float(model.mass(a, b) if full else model.mass(a, b, indices=list(I)))
        except Exception as e:
            sh.violation(f"C12:density:mass:raises-{type(e).__name__}:d={d}", f"mass({_fmt(a, b)}) raised {e!r}", {"a": a, "b": b, "I": list(I)})
            continue
        inner_err = [0.0]

        def inner(x1):
            u1 = O.tail_integral_1d(nu1, x1)
            n1 = float(nu1(x1))
            if n1 == 0.0:
                return 0.0

            def f(x2):
                return _clayton_mixed_derivative(theta, eta_eff, u1, O.tail_integral_1d(nu2, x2)) * float(nu2(x2))

            v, e = quad(f, a[1], b[1], epsabs=0.0, epsrel=1e-11, limit=200)
            inner_err[0] = max(inner_err[0], abs(e) * n1)
            return v * n1

        v, e = quad(inner, a[0], b[0], epsabs=0.0, epsrel=1e-11, limit=200)
        err = abs(e) + inner_err[0] * (b[0] - a[0])
        quad_class = ("same" if (a[0] > 0) == (a[1] > 0) else "opposite") + "-signs"
        sh.cls(f"density:{quad_class}:d={d}")
        if not math.isfinite(v) or err > 1e-9 * max(abs(v), abs(m)) + 1e-300:
            sh.count("oracle_inconclusive")
            continue
        sh.count("evaluations")
        sh.outcome(float(m).hex())
        # the library's value is a signed sum of four copula values, each bounded by min_i max(|U_i(a_i)|, |U_i(b_i)|)
        S = min(max(abs(ctx.U(i, lo)), abs(ctx.U(i, hi))) for i, lo, hi in zip(I, a, b))
        if not core.close(m, v, rtol=1e-8, atol=1e-12 * S):
            sh.violation(f"C12:density:mass:differs-from-integral-of-joint-density:d={d}:{quad_class}",
                         f"mass({_fmt(a, b)}, indices={list(I)}) = {m}, 2-d quadrature of the implied joint density = {v} (+- {err})",
                         {"a": a, "b": b, "I": list(I), "mass": m, "quadrature": v, "error_estimate": err})
    sh.nontriv()


# ----------------------------------------------------------------------------------------------------------------------

def check_case(sh, case):
    with warnings.catch_warnings():
        warnings.simplefilter("ignore")
        with np.errstate(all="ignore"):
            globals()["_sub_" + case["sub"]](sh, case)
