"""C17 - payoffs and underlyings are pure functions of the path obeying static identities.

Every value is observed the way the engines obtain it: a real ``MCPath`` / ``MLMCPath`` path manager is given a
``StochasticJumpPath`` and ``process(product, NoControlVariates())`` is called, i.e. ``Product.update(representation)``
once, then ``Product.underlying_value(times, path, jump_path)`` followed by ``Product(value)`` (for the multilevel manager:
underlying_value(fine), underlying_value(coarse), product(fine), product(coarse) - the order of ``MLMCPath.process``).
In the LOG representation the path handed over is the logarithm of the spot path and the jump path the cumulative
log-jumps; in the identity representation the spot path itself and, for the default-time underlyings (which take
``log(jump_path)``), the exponential of the cumulative log-jumps.

Alphabets (5 letters each)
    path values V = {80, 95, 100, 105, 125}: all sequences of length 2..4 (thorough: 2..5) as spot paths and as log paths
    strikes     K = {80, 90, 100, 110, 120}   (ties with V at 80 and 100, strictly between otherwise)
    barriers    B = {80, 90, 100, 110, 125}   (strictly crossed / only touched / never reached all occur)
    notionals     = {0, 0.5, 1, 2, -3}
    thresholds  A = {-0.05, -0.09, -0.2, -0.39, -0.5}, jump letters {0, -0.1, -0.4, +0.2} per step (1 name);
                {-0.05, -0.2, -0.5}^names and letters {0, -0.1, -0.4} for 2 and 3 names.  No threshold equals a letter.
    time grids  the library's uniform TimeGrid(0, 1, n) and the non-uniform (0, 0.1, 0.4, 0.55, 0.7)[:n-1] + (1,)

Sub-checks (lattice sweeps, one fresh product per evaluation)
    terminal  call - put = forward (scalar, list and array strikes); call spread = C(K1)-C(K2) and >= 0; butterfly =
              C(K1)-2C(K2)+C(K3), and >= 0 whenever K2-K1 >= K3-K2 (for other strike triples the call combination is itself
              negative above K3: non-negativity is then not an identity and is not asserted); digital call + digital put = 1
              and digital call = 1{S > K} (class docstring: "1 if the underlying is greater than the strike, 0 otherwise");
              notional linear.
    barrier   knock-in + knock-out = vanilla for the four barrier types, calls and puts; knock status against the class
              docstring (up: some monitored value above the barrier, down: below) on paths that strictly cross or stay
              strictly inside; paths that only touch the barrier are compared for in/out parity only (the statement does
              not fix the tie rule).  In the LOG representation the same spot path must give the same status.
    average   Asian (1-d path of shape (n,) as produced by the Levy / chain processes, and shape (1,n) as produced by the
              SDE process) lies between min and max of the spot path; Mean lies between min and max of the terminal spots.
    default   DefaultTime / _DefaultTimes / DefaultTimeNthUnderlying / NthDefaultTimes = reference "first time the jump of
              the name is below its threshold, inf if none"; n-th-to-default = n-th smallest, non-decreasing in n;
              identity and log representation agree.
    repr      every Underlying subclass: identity representation on the spot path == log representation on the log path.
              Indicators thresholds avoid ties with V (a tie would compare exp/log roundings, not the library).
    cvroute   (adjacent to the statement) a product used as control variate gets, through ControlVariates.initialisation /
              process, the value it has when evaluated on its own.
              Also Asian on the library's OWN averaging grids (Product.times_grid() = Asian.compute_times_grid for the four
              Discretisation values, maturities 1 and 2 (thorough: 0.5 too); 2 .. 731 fixings; four path patterns): between
              the path's extremes and equal to the time-weighted mean of the fixings (math.fsum, rtol 1e-11).
              DefaultTime with a threshold EQUAL to a jump letter (-0.1, -0.4), log representation: the jumps are the float
              increments of the log-jump path handed over, a jump equal to the threshold is not below it.
    factory   Payoff.create(OptionType, ...) (positional and keyword arguments; Forward, Vanilla call/put, Barrier of the 4
              types, 5 strikes, 2 barriers) builds the class and values the 6 one-asset paths as the constructor's object.
Configuration menu (shared by purity, inputs, manager): every payoff class except LookBack and every public underlying
    class, 52 (payoff, underlying) configurations of 6 kinds with their own path menus: one asset (6 paths), two assets (5),
    three assets (5; terminal spots in the orders high-low-mid, increasing, mid-high-low, decreasing), Libor rates (4),
    one-name (5) and three-name (4) cumulative log-jump paths.  Rainbow (call and put) on Spot and on Performances with
    2 and 3 assets, NthSpot of every index, Swaption payer and receiver, Digital call and put.
Inputs are not modified, later consumers see the same values (per configuration x representation x path of its menu)
    inputs    at the observation point of the property (Product.update, Product.underlying_value(times, path, jump_path),
              Product(value)) on arrays formed as MCPath.process forms them: the times / path / jump-path arrays are
              bit-identical after underlying_value and after Product(value) (dtype, shape, bytes); the underlying value
              handed to Product(value) is bit-identical afterwards (it is what the control variates receive, and for Spot /
              Libors in the identity representation a VIEW of the path); a second Product(value) on the same underlying
              value gives the same value; the direct value equals MCPath.process; notional c in the notional alphabet
              gives c times the value of notional 1 (finite values).  Then EVERY configuration of the same kind (a second
              object of the same configuration included) is (a) valued on the arrays as the first product left them and
              (b) valued as ControlVariates does: implied(times, path, jump_path, underlying value of the first product)
              with implied = imply_from_payoff_underlying(type of the first underlying), Payoff.process(times, path),
              product(value); both must equal the consumer's value on its own copy of the path (twins: see below).
    manager   the engines' sequences with everything switched on: path manager with activate_spot_underlying=True and
              update(representation), ControlVariates(...).initialisation(type of the main underlying); MCPath.process and
              MLMCPath.process_l0 on every path, MLMCPath.process on every ordered pair (fine, coarse) of paths of equal
              length.  Per path: a run without control, a run with each control of the kind alone (key carries the
              control's payoff / underlying class; twins alone too, see below), a run with all usable controls together (for the multilevel route one
              run per shape of underlying value, as process_mlmc stacks them) and the same run after the SAME path manager
              and ControlVariates object served another product (other underlying class) - the last two reported only when
              the single runs are silent.  Oracle: payoff and every control-variate value equal the value of that product
              on its own copy of the path (rtol 1e-12), the spot statistic (path_manager.spot_underlying, read after
              process as MCStatistics.add does) equals the terminal spots of the path (rtol 1e-9), the arrays handed to
              the StochasticJumpPath are bit-identical afterwards.
Argument forms and the caller's own containers
    terms     one array-like term per configuration (31: Vanilla strikes; Indicators thresholds; Performances /
              MaximumOfPerformances spots; Rainbow weights; Bond / Cap / Swaption today's rates and accruals; Ratchet
              accruals; default levels of NthDefaultTimes / DefaultTimeNthUnderlying (every index) / _DefaultTimes; with 2, 3
              and ONE element - one asset / one name handed over as a path of shape (1, n)) x representation x form of the
              container: list, tuple, list of numpy floats, float ndarray and, for integral values, list / tuple of ints and
              int64 ndarray.  Per form: the constructor and the evaluations leave the caller's container bit-identical; the
              values on the path menu of the kind equal those of the product built from a list of floats (rtol 1e-12) and the
              plain-Python reference of the class docstrings where there is one (performance = S_T / S_0 of the
              construction, rainbow weights from the best to the worst, indicator of all spots above their thresholds,
              vector call / put); copy.copy, copy.deepcopy and a dill round trip are valued like the original; then the
              caller writes OTHER values into its container in place (bump and re-use; tuples stay) and the product, its
              deep and dill copies are valued EXACTLY as before, and after update(other representation) the product is
              valued like a fresh product of that representation.  Failure classes: value-follows-the-callers-container
              (equals the product built with the new values), value-mixes-the-terms-at-construction-with-the-callers-later-
              values, representations-disagree-after-the-caller-went-on-with-its-container (one representation reads the
              caller's container, the other a snapshot), valued-differently-from-the-list-of-floats, constructor- /
              evaluation-modifies-the-callers-container, <copy>-valued-differently-from-the-original.
    scalars   every scalar term (27: strikes of Forward / Vanilla / Digital / CallSpread / Butterfly / Barrier / Rainbow / Cap /
              Swaption, the four barrier levels, coupon, notional (scalar and vector payoff), default level, Ratchet and CDS
              terms, the indices of NthSpot / NthDefaultTimes / DefaultTimeNthUnderlying) as Python int (integral values),
              numpy.float64, numpy.int64 / int32, 0-d array: values on the path menu equal those of the usual form (Python
              float; int for indices).  Setter route for the terms kept under a public attribute: product built with another
              value, valued, attribute re-assigned, update(representation) (as Engine.initialisation does), valued: equals
              the constructed product.
    inputs (below) also hands the times over as list / tuple / ndarray / list with Python ints at integral times (must give
              the value obtained with the library's TimeGrid or ndarray, and stay unmodified) and the one-asset paths as
              arrays of shape (1, n) (every one-asset configuration except Barrier, which rejects that shape).
Explicit-state search
    purity    one Product object per configuration of the menu; events =
              evaluate path p_j through MCPath.process (the menu of the kind, e.g. one asset: inside / crossing up /
              crossing down / out of the money / crossing both / other length), evaluate an ordered pair (fine p_i, coarse
              p_j) through MLMCPath.process, update(LOG), update(IDENDITY), replace the product by copy.deepcopy of itself
              and value p_0 / p_1 (what worker processes receive), by a dill round trip of itself and value p_0 (what the
              pathos pools really send), by copy.copy of itself and value p_1, let a SECOND object of the same configuration switched
              to LOG / to identity value p_1 and then value p_0 with the product under test (leaks through class
              attributes, module-level caches, shared defaults); depth 3 (quick) / 4.  Invariant: every observed value
              equals the value of a
              freshly constructed product updated once to the current representation and given that path alone (MCPath;
              MLMCPath.process_l0 is checked to agree with it for scalar payoffs).
              Canonical state = snapshot of every instance attribute of product, payoff, underlying (recursively; bound
              methods by name) + the representation last requested: two histories with the same snapshot hold equal
              objects, so their futures agree.
              Stored bound methods are part of the snapshot together with whether they are bound to their holder.
              Failure classes (in the key): identity value after an earlier update(LOG) (component = underlying class);
              value depends on earlier paths; deep copy valued differently / value depends on another object of the
              configuration (when the same history with a plain evaluation in the place of the last event is right); for
              pairs whose wrong result is reproduced by a fresh product: fine value depends on the coarse path / coarse
              value depends on the fine path (order of MLMCPath.process).

Forms rejected by the unchanged tree's constructors (counted, never judged): today's rates of Bond / Cap as anything but an
ndarray (they read .size); a 0-d array as Vanilla / Barrier strike (len() of it is taken); float indices; containers of shape
(1, n) for spots / weights (Rainbow then compares an array with 0.0); empty containers (the statement promises nothing);
numpy.float32 terms (Python-float underlying values would be rounded to single precision: outside).
Not re-assigned in the setter route: terms with derived state that only the constructor computes (Performances.spots /
log_spots, Indicators.thresholds / log_thresholds, Vanilla.payoff_type / _call_put, Barrier.barrier_type, deltas / _factor):
the statement quantifies over evaluations of a constructed product, not over re-parametrised ones.
Not covered / outside the alphabet: LookBack (its process() raises ValueError by construction: "it depends on the process
representation"); call spread / butterfly with unordered strikes (constructor rejects them); ties between jump sizes and
default thresholds; barrier tie rule; the digital tie rule in the LOG representation (exp(log(100.)) != 100.);
antithetic paths; values outside the alphabets.
Controls: every configuration of the kind with a scalar payoff, Barrier products included (ControlVariates.process /
process_mlmc call Payoff.process(times, path) before product(value); inputs(b) does the same); controls with vector payoffs
are outside the alphabet (the statistics rows are scalar per control).
Twins (enumerated deliberately, reported under their own key): a control whose underlying is an instance of the main
underlying's class with OTHER parameters - every parametrised public underlying class has two parameter values in some
kind (Performances, MaximumOfPerformances, Indicators with other spots / thresholds, NthSpot 1/2 and 1/2/3,
DefaultTime -0.35/-0.05, NthDefaultTimes 1/2, DefaultTimeNthUnderlying 1/3, Asian DAILY/WEEKLY whose parameter does not
enter the value and must agree).  inputs(b) and one manager run per twin control and route.  When the control's value
differs from its own value AND equals exactly its payoff applied to the MAIN underlying value, the key is
C17:controls:<underlying class>:control-of-the-same-underlying-class-with-other-parameters-gets-the-main-underlying-value
(imply_from_payoff_underlying tests isinstance only: an open finding); any other mismatch keeps the ordinary key.
A main product that raises on a path (none on the unchanged tree) is classified by purity and skipped by inputs / manager.
"""
from __future__ import annotations

import copy
import itertools
import math

import numpy as np

from mc import core

PID = "C17"
LEVEL = "model_checking"
RULE = (
    "complete products of the 5-letter alphabets (path values, strikes, barriers, thresholds, notionals) with all paths "
    "of the stated lengths, as spot and as log paths, each evaluated on a fresh product through the real MCPath/MLMCPath; "
    "BFS over histories of evaluations / representation switches / deep, dill and shallow copies / a second object of the "
    "configuration on one Product with full-snapshot canonical states; every array-like term in every legal container form "
    "with the caller overwriting its container afterwards, every scalar term in every legal scalar form and through its "
    "public attribute; for every configuration x representation x path: bit-exact comparison "
    "of all inputs before / after evaluation and every configuration of the kind as later consumer (same arrays, implied "
    "control) and as control variate in the real path managers with spot statistics; a "
    "case is non-trivial when it compared at least one identity or one history value against the fresh-product reference; "
    "distinct = distinct case dict"
)
ASSUMPTIONS = [
    "paths are handed to the products through rpylib.montecarlo.path.MCPath / MLMCPath with a zero deterministic part; "
    "log paths are numpy.log of the spot path (identities are compared with rtol 1e-9)",
    "barrier knock status and the digital tie rule are taken from the class docstrings; paths that only touch a barrier are "
    "checked for in/out parity only",
    "purity search merges histories whose complete instance-attribute snapshots (product, payoff, underlying, nested "
    "objects) and current representation agree",
]
CHUNK = 1

V = [80.0, 95.0, 100.0, 105.0, 125.0]
STRIKES = [80.0, 90.0, 100.0, 110.0, 120.0]
BARRIERS = [80.0, 90.0, 100.0, 110.0, 125.0]
NOTIONALS = [0.0, 0.5, 1.0, 2.0, -3.0]
THRESH1 = [-0.05, -0.09, -0.2, -0.39, -0.5]
DROPS1 = [0.0, -0.1, -0.4, 0.2]
THRESH_TIE = [-0.1, -0.4]  # equal to a jump letter: judged in the log representation only
THRESHM = [-0.05, -0.2, -0.5]
DROPSM = [0.0, -0.1, -0.4]
IND_THR = [70.0, 90.0, 102.5, 110.0, 130.0]
RTOL = 1e-9
REPS = ("id", "log")


# ----------------------------------------------------------------------------------------------------------------------
# case lists
# ----------------------------------------------------------------------------------------------------------------------

def cases(tier):
    thorough = tier == "thorough"
    out = []
    lengths = [2, 3, 4, 5] if thorough else [2, 3, 4]
    for L in lengths:
        for first in V:
            for rep in REPS:
                out.append({"sub": "terminal", "L": L, "first": first, "rep": rep})
    for L in lengths:
        for first in V:
            for rep in REPS:
                for b in BARRIERS:
                    out.append({"sub": "barrier", "L": L, "first": first, "rep": rep, "barrier": b})
    for L in lengths:
        for first in V:
            out.append({"sub": "average", "kind": "asian", "L": L, "first": first})
    for dim, L in ([(2, 2), (2, 3), (3, 2)] if thorough else [(2, 2), (3, 2)]):
        for first in V:
            out.append({"sub": "average", "kind": "mean", "dim": dim, "L": L, "first": first})
    # default times: steps = number of jump increments (path length = steps + 1)
    for steps in ([1, 2, 3, 4] if thorough else [1, 2, 3]):
        out.append({"sub": "default", "names": 1, "steps": steps})
    multi = [(2, 1), (2, 2), (2, 3), (3, 1), (3, 2)] if thorough else [(2, 1), (2, 2), (3, 1)]
    for names, steps in multi:
        for lv in itertools.product(range(len(THRESHM)), repeat=names):
            out.append({"sub": "default", "names": names, "steps": steps, "levels": [THRESHM[i] for i in lv]})
    # representation: 1-d classes on all paths, multi-d classes on 2 (3) underlyings
    for L in lengths:
        for first in V:
            out.append({"sub": "repr", "dim": 1, "L": L, "first": first})
    for dim, L in ([(2, 2), (2, 3), (3, 2)] if thorough else [(2, 2), (3, 2)]):
        for first in V:
            out.append({"sub": "repr", "dim": dim, "L": L, "first": first})
    for name in sorted(_purity_configs()):
        out.append({"sub": "purity", "config": name, "depth": 4 if thorough else 3})
    for name in sorted(_cv_configs()):
        for rep in REPS:
            out.append({"sub": "cvroute", "config": name, "rep": rep})
    out.append({"sub": "factory"})
    # every (payoff, underlying) configuration of the purity menu, in both representations: evaluating it must leave its
    # inputs alone and every later consumer of the same path / underlying value must see the values it sees on its own
    for name in sorted(_purity_configs()):
        for rep in REPS:
            out.append({"sub": "inputs", "config": name, "rep": rep})
            out.append({"sub": "manager", "config": name, "rep": rep})
    # array-like terms in every legal form, the caller going on with its own container; scalar terms in every legal form
    # and through the setter route; long averaging grids of the library's own making.  Appended AFTER the recheck marks of
    # the cases above so that their marks do not move.
    extra = []
    for name in sorted(_term_configs()):
        for rep in REPS:
            extra.append({"sub": "terms", "config": name, "rep": rep})
    for rep in REPS:
        extra.append({"sub": "scalars", "rep": rep})
    for disc in ("YEARLY", "MONTHLY", "WEEKLY", "DAILY"):
        for maturity in ([1.0, 2.0, 0.5] if thorough else [1.0, 2.0]):
            extra.append({"sub": "average", "kind": "asian-grid", "disc": disc, "maturity": maturity})
    for i, c in enumerate(out):
        if i % 8 == 0:
            c["recheck"] = True  # determinism self-check: executed twice on fresh objects, observations compared
    for i, c in enumerate(extra):
        if i % 8 == 0:
            c["recheck"] = True
    return out + extra


def check_case(sh, case):
    fn = globals()["_sub_" + case["sub"]]
    tmp = core.Shard()
    tmp.case = case
    fn(tmp, case)
    if case.get("recheck"):
        again = core.Shard()
        again.case = case
        fn(again, case)
        if (dict(tmp.viol_counts), dict(tmp.counters), tmp.outcomes) != (dict(again.viol_counts), dict(again.counters), again.outcomes):
            raise core.NonDeterminism(f"case {case} gave different observations when executed twice")
        tmp.count("rechecked_cases")
    sh.merge(tmp)


# ----------------------------------------------------------------------------------------------------------------------
# driving the real code
# ----------------------------------------------------------------------------------------------------------------------

def _lib():
    import rpylib.product.payoff as PO
    import rpylib.product.underlying as UN
    from rpylib.grid.time import TimeGrid
    from rpylib.montecarlo.path import MCPath, MLMCPath, StochasticJumpPath
    from rpylib.process.process import ProcessRepresentation as PR
    from rpylib.product.product import ControlVariates, NoControlVariates, Product

    return {
        "PO": PO, "UN": UN, "TimeGrid": TimeGrid, "MCPath": MCPath, "MLMCPath": MLMCPath, "SJP": StochasticJumpPath,
        "PR": PR, "Product": Product, "CV": ControlVariates, "NoCV": NoControlVariates,
    }


_L = {}


def L():
    if not _L:
        _L.update(_lib())
    return _L


def _rep(rep):
    PR = L()["PR"]
    return PR.LOG if rep == "log" else getattr(PR, "IDENDITY", None) or getattr(PR, "IDENTITY")


def _zero_det(times):
    return 0.0


def times_for(n, grid="uniform"):
    """uniform: the library's own TimeGrid(0,1,n) (what SimulationFixedTimes hands over); nonuniform: an ndarray such as
    the jump-time simulations hand over."""
    if grid == "uniform":
        return L()["TimeGrid"](start=0.0, end=1.0, num=n)
    if grid == "late-start":
        # a legal time grid whose first fixing is after time 0 (seasoned / forward-starting averaging)
        return np.array([0.25, 0.45, 0.6, 0.8, 0.9][: n - 1] + [1.0])
    base = [0.0, 0.1, 0.4, 0.55, 0.7][: n - 1] + [1.0]
    return np.array(base)


def grids_for(n):
    return ["uniform"] if n == 2 else ["uniform", "nonuniform"]


def enc(rep, spot_path):
    a = np.asarray(spot_path, dtype=float)
    return np.log(a) if rep == "log" else a


def mc_eval(product, times, diffusion, jumps, cv=None):
    """The standard engine's per-path sequence (MCPath.process)."""
    lib = L()
    pm = lib["MCPath"](deterministic_path=_zero_det, activate_spot_underlying=False)
    pm.set_to_path(lib["SJP"](times, diffusion, jumps))
    pm.process(product, cv if cv is not None else lib["NoCV"]())
    return pm.payoff if cv is None else (pm.payoff, pm.payoff_control_variates)


def mlmc_eval(product, times, diffusion2, jumps2):
    """The multilevel engine's per-sample sequence for level > 0 (MLMCPath.process): index 0 fine, 1 coarse."""
    lib = L()
    pm = lib["MLMCPath"](deterministic_path=_zero_det, activate_spot_underlying=False)
    pm.set_to_path(lib["SJP"](times, diffusion2, jumps2))
    pm.process(product, lib["NoCV"]())
    # the path manager stores the fine/coarse values on the LAST axis (one row per payoff component, the layout of the
    # statistics rows); bring that axis to the front
    return np.moveaxis(np.asarray(pm.payoff), -1, 0)


def l0_eval(product, times, diffusion, jumps):
    lib = L()
    pm = lib["MLMCPath"](deterministic_path=_zero_det, activate_spot_underlying=False)
    pm.set_to_path(lib["SJP"](times, diffusion, jumps))
    pm.process_l0(product, lib["NoCV"]())
    return np.moveaxis(np.asarray(pm.payoff), -1, 0)


def spot_eval(rep, underlying, payoff, spot_path, notional=1.0, grid="uniform"):
    """Fresh product on a spot path (no jumps) in representation rep, through MCPath."""
    lib = L()
    p = lib["Product"](payoff_underlying=underlying, payoff=payoff, maturity=1.0, notional=notional)
    p.update(_rep(rep))
    path = enc(rep, spot_path)
    return mc_eval(p, times_for(path.shape[-1], grid), path, np.zeros_like(path))


def safe(fn):
    try:
        with np.errstate(all="ignore"):
            return ("ok", fn())
    except Exception as e:  # the library raising is an observation, classified by the caller
        return ("raise", type(e).__name__, str(e)[:160])


def same_obs(a, b, rtol=1e-12):
    if a[0] != b[0]:
        return False
    if a[0] == "raise":
        return a[1] == b[1]
    x, y = np.asarray(a[1], dtype=float), np.asarray(b[1], dtype=float)
    if x.shape != y.shape:
        return False
    with np.errstate(all="ignore"):
        return bool(np.all((x == y) | (np.isnan(x) & np.isnan(y)) | (np.abs(x - y) <= rtol * np.maximum(np.abs(x), np.abs(y)))))


def arr_close(x, y, rtol=RTOL, scale=None):
    x, y = np.asarray(x, dtype=float), np.asarray(y, dtype=float)
    if x.shape != y.shape:
        try:
            x, y = np.broadcast_arrays(x, y)
        except ValueError:
            return False
    for a, b in zip(x.ravel().tolist(), y.ravel().tolist()):
        if not core.close(a, b, rtol=rtol, atol=1e-12 * (scale or 0.0), scale=scale):
            return False
    return True


def paths_of(Lh, first, letters=V):
    for tail in itertools.product(letters, repeat=Lh - 1):
        yield (first,) + tail


# ----------------------------------------------------------------------------------------------------------------------
# terminal-value payoffs
# ----------------------------------------------------------------------------------------------------------------------

def _sub_terminal(sh, case):
    PO, UN = L()["PO"], L()["UN"]
    rep = case["rep"]
    call_t, put_t = PO.PayoffType.CALL, PO.PayoffType.PUT
    nev = 0
    for path in paths_of(case["L"], case["first"]):
        s = path[-1]
        scale = 130.0

        def ev(payoff, notional=1.0):
            nonlocal nev
            nev += 1
            return spot_eval(rep, UN.Spot(), payoff, path, notional)

        calls = {}
        for k in STRIKES:
            c, p, f = ev(PO.Vanilla(k, call_t)), ev(PO.Vanilla(k, put_t)), ev(PO.Forward(k))
            calls[k] = float(c)
            if not core.close(c - p, f, RTOL, 1e-12 * scale, scale):
                sh.violation(f"C17:static:Vanilla:call-minus-put-differs-from-forward:{rep}",
                             f"path {path} K={k} rep={rep}: call {c} - put {p} != forward {f}", {"path": path, "K": k})
            if not core.close(f, s - k, RTOL, 1e-12 * scale, scale):
                sh.violation(f"C17:static:Forward:not-underlying-minus-strike:{rep}",
                             f"path {path} K={k} rep={rep}: forward {f} but terminal spot - K = {s - k}", {"path": path, "K": k})
            if c < 0 or p < 0:
                sh.violation(f"C17:static:Vanilla:negative-value:{rep}", f"path {path} K={k}: call {c}, put {p}", None)
            dc, dp = ev(PO.Digital(k, call_t)), ev(PO.Digital(k, put_t))
            if dc + dp != 1:
                sh.violation(f"C17:static:Digital:call-plus-put-not-one:{rep}", f"path {path} K={k}: {dc} + {dp}", None)
            tie = "tie" if s == k else "no-tie"
            if tie == "tie" and rep == "log":
                # exp(log(100.)) = 100.00000000000004: at a tie the log representation compares a rounding error with
                # the strike; the statement is silent about that, only the parity above is asserted
                sh.count("digital_tie_in_log_representation_parity_only")
            elif dc != (1.0 if s > k else 0.0):
                sh.violation(f"C17:static:Digital:call-not-indicator-of-spot-above-strike:{rep}:{tie}",
                             f"path {path} K={k} rep={rep}: digital call = {dc}, terminal spot {s}", {"path": path, "K": k})
            sh.cls(f"digital-{tie}")
        # vector strikes (list and ndarray): element-wise parity
        for tag, ks in (("list", list(STRIKES)), ("ndarray", np.array(STRIKES))):
            r = safe(lambda: (ev(PO.Vanilla(ks, call_t)), ev(PO.Vanilla(ks, put_t))))
            if r[0] == "raise":
                sh.violation(f"C17:static:Vanilla:raises:{r[1]}:{tag}-strikes:{rep}", f"path {path}: {r[2]}", None)
                continue
            cv_, pv_ = r[1]
            if not arr_close(np.asarray(cv_) - np.asarray(pv_), s - np.array(STRIKES), RTOL, scale):
                sh.violation(f"C17:static:Vanilla:call-minus-put-differs-from-forward:{tag}-strikes:{rep}",
                             f"path {path}: calls {cv_} puts {pv_}", None)
            if not arr_close(cv_, [calls[k] for k in STRIKES], RTOL, scale):
                sh.violation(f"C17:static:Vanilla:vector-strike-differs-from-scalar-strikes:{tag}-strikes:{rep}",
                             f"path {path}: {cv_} vs {[calls[k] for k in STRIKES]}", None)
        for k1, k2 in itertools.combinations(STRIKES, 2):
            v = ev(PO.CallSpread(k1, k2))
            ref = calls[k1] - calls[k2]
            if not core.close(v, ref, RTOL, 1e-12 * scale, scale):
                sh.violation(f"C17:static:CallSpread:differs-from-call-combination:{rep}",
                             f"path {path} K=({k1},{k2}) rep={rep}: {v} vs C(K1)-C(K2) = {ref}", {"path": path, "K": [k1, k2]})
            if v < -1e-12 * scale:
                sh.violation(f"C17:static:CallSpread:negative:{rep}", f"path {path} K=({k1},{k2}): {v}", None)
            sh.cls("callspread-" + ("above-K2" if s > k2 else "tie-K2" if s == k2 else "below-K2"))
        for k1, k2, k3 in itertools.combinations(STRIKES, 3):
            v = ev(PO.Butterfly(k1, k2, k3))
            ref = calls[k1] - 2 * calls[k2] + calls[k3]
            if not core.close(v, ref, RTOL, 1e-12 * scale, scale):
                sh.violation(f"C17:static:Butterfly:differs-from-call-combination:{rep}",
                             f"path {path} K=({k1},{k2},{k3}) rep={rep}: {v} vs {ref}", {"path": path, "K": [k1, k2, k3]})
            if k2 - k1 >= k3 - k2:
                if v < -1e-9 * scale:
                    sh.violation(f"C17:static:Butterfly:negative:{rep}", f"path {path} K=({k1},{k2},{k3}): {v}", None)
            else:
                sh.count("butterfly_nonnegativity_not_asserted_lower_wing_shorter")
        # notional
        for k in (STRIKES[1], STRIKES[3]):
            for payoff_f, nm in ((lambda: PO.Vanilla(k, call_t), "Vanilla"), (lambda: PO.Forward(k), "Forward"),
                                 (lambda: PO.Digital(k, put_t), "Digital")):
                unit = ev(payoff_f(), 1.0)
                vals = {c: ev(payoff_f(), c) for c in NOTIONALS}
                for c in NOTIONALS:
                    if not core.close(vals[c], c * unit, 1e-12, 1e-12 * scale, scale):
                        sh.violation(f"C17:static:Product:notional-not-linear:{nm}:{rep}",
                                     f"path {path} K={k} notional {c}: {vals[c]} vs {c}*{unit}", None)
                if not core.close(vals[0.5] + vals[2.0], 2.5 * unit, 1e-12, 1e-12 * scale, scale):
                    sh.violation(f"C17:static:Product:notional-not-additive:{nm}:{rep}", f"path {path} K={k}", None)
        sh.outcome((rep, path, round(calls[STRIKES[0]], 9), round(calls[STRIKES[2]], 9)))
    sh.count("evaluations", nev)
    sh.nontriv()
    if case["L"] == 3 and case["first"] == 100.0:
        sh.sample({"sub": "terminal", "rep": rep, "paths": 5 ** (case["L"] - 1), "product_evaluations": nev})


# ----------------------------------------------------------------------------------------------------------------------
# barriers
# ----------------------------------------------------------------------------------------------------------------------

def _sub_barrier(sh, case):
    PO, UN = L()["PO"], L()["UN"]
    rep, b = case["rep"], case["barrier"]
    BT = PO.BarrierType
    pairs = (("up", BT.UP_AND_IN, BT.UP_AND_OUT), ("down", BT.DOWN_AND_IN, BT.DOWN_AND_OUT))
    nev = 0
    for path in paths_of(case["L"], case["first"]):
        s = path[-1]
        for direction, t_in, t_out in pairs:
            beyond = any(v > b for v in path) if direction == "up" else any(v < b for v in path)
            touch = any(v == b for v in path)
            status = "crossed" if beyond else ("touched-only" if touch else "inside")
            sh.cls(f"barrier-{direction}-{status}")
            for pt in (PO.PayoffType.CALL, PO.PayoffType.PUT):
                for k in STRIKES:
                    vin = float(spot_eval(rep, UN.Spot(), PO.Barrier(k, pt, t_in, b), path))
                    vout = float(spot_eval(rep, UN.Spot(), PO.Barrier(k, pt, t_out, b), path))
                    van = float(spot_eval(rep, UN.Spot(), PO.Vanilla(k, pt), path))
                    nev += 3
                    if not core.close(vin + vout, van, RTOL, 1e-10, 130.0):
                        sh.violation(f"C17:static:Barrier:{direction}:in-plus-out-differs-from-vanilla:{rep}",
                                     f"path {path} B={b} K={k} {pt.name}: in {vin} + out {vout} != vanilla {van}",
                                     {"path": path, "B": b, "K": k})
                    if status == "touched-only":
                        sh.count("barrier_touched_only_parity_only")
                        continue
                    exp_in = van if beyond else 0.0
                    if van != 0.0 and not core.close(vin, exp_in, RTOL, 1e-10, 130.0):
                        sh.violation(f"C17:static:Barrier:{direction}:knock-status-differs-from-spot-path:{rep}:{status}",
                                     f"spot path {path} B={b} K={k} {pt.name} rep={rep}: the path is {status} "
                                     f"({'strictly beyond' if beyond else 'strictly inside'} the barrier) but knock-in pays "
                                     f"{vin} and knock-out {vout} (vanilla {van})", {"path": path, "B": b, "K": k})
                    elif van != 0.0:
                        sh.count("knock_status_compared")
        sh.outcome((rep, b, path))
    sh.count("evaluations", nev)
    sh.nontriv()


# ----------------------------------------------------------------------------------------------------------------------
# averages
# ----------------------------------------------------------------------------------------------------------------------

def _sub_average(sh, case):
    PO, UN, Product = L()["PO"], L()["UN"], L()["Product"]
    nev = 0
    if case["kind"] == "asian-grid":
        # accumulation over many fixings: the library's own averaging grid (Product.times_grid -> Asian.compute_times_grid)
        # for each Discretisation; reference = time-weighted mean with math.fsum (the weights are the grid's own steps)
        disc, maturity = getattr(UN.Discretisation, case["disc"]), case["maturity"]
        patterns = {"cycle": lambda i: V[(3 * i) % len(V)], "ramp-up": lambda i: 80.0 + 0.1 * i,
                    "spike-last": lambda i: 100.0, "saw": lambda i: 125.0 if i % 2 else 80.0}
        for rep in REPS:
            for pname in sorted(patterns):
                p = Product(payoff_underlying=UN.Asian(disc), payoff=PO.Forward(0.0), maturity=maturity)
                made = safe(lambda: p.times_grid())
                if made[0] == "raise":
                    # a maturity shorter than one averaging period is rejected by the constructor of the grid
                    sh.count("asian_grid_rejected_by_the_library")
                    sh.outcome(("asian-grid", case["disc"], maturity, "rejected"))
                    continue
                times = made[1]
                n = len(times)
                tl = [float(times[i]) for i in range(n)]
                path = [patterns[pname](i) for i in range(n)]
                if pname == "spike-last":
                    path[-1] = 125.0
                p.update(_rep(rep))
                a = enc(rep, path)
                r = safe(lambda: mc_eval(p, times, a, np.zeros_like(a)))
                nev += 1
                comp = f"Asian:library-grid-{case['disc']}:{rep}"
                if r[0] == "raise":
                    sh.violation(f"C17:static:{comp}:raises:{r[1]}", f"Asian({case['disc']}) maturity {maturity}, {n} fixings, pattern {pname}: {r[2]}", None)
                    continue
                v = float(np.asarray(r[1], dtype=float).ravel()[0])
                lo, hi = min(path), max(path)
                ref = math.fsum(x * (t1 - t0) for x, t0, t1 in zip(path, [0.0] + tl[:-1], tl)) / tl[-1]
                if not (lo * (1 - RTOL) <= v <= hi * (1 + RTOL)):
                    sh.violation(f"C17:static:{comp}:average-not-between-path-extremes",
                                 f"Asian({case['disc']}) maturity {maturity}, {n} fixings, pattern {pname}: {v}, path extremes [{lo}, {hi}]", None)
                elif not core.close(v, ref, 1e-11):
                    sh.violation(f"C17:static:{comp}:not-the-time-weighted-mean-of-the-fixings",
                                 f"Asian({case['disc']}) maturity {maturity}, {n} fixings, pattern {pname}: {v}, time-weighted mean {ref}", None)
                sh.cls("asian-grid-" + ("long" if n > 50 else "short"))
                sh.outcome(("asian-grid", case["disc"], maturity, rep, pname, n, round(v, 9)))
        sh.count("evaluations", nev)
        sh.nontriv()
        return
    if case["kind"] == "asian":
        n = case["L"]
        for path in paths_of(n, case["first"]):
            lo, hi = min(path), max(path)
            for rep in REPS:
                for shape in ("1d", "row"):
                    for grid in grids_for(n) + ["late-start"]:
                        sp = np.array(path) if shape == "1d" else np.array([path])
                        p = Product(payoff_underlying=UN.Asian(), payoff=PO.Forward(0.0), maturity=1.0)
                        p.update(_rep(rep))
                        a = enc(rep, sp)
                        r = safe(lambda: mc_eval(p, times_for(n, grid), a, np.zeros_like(a)))
                        nev += 1
                        comp = f"Asian:{shape}-path:{rep}"
                        if r[0] == "raise":
                            sh.violation(f"C17:static:{comp}:raises:{r[1]}", f"Asian on spot path {path} ({shape}, {grid} grid, rep {rep}) raises {r[1]}: {r[2]}",
                                         {"path": path})
                            sh.outcome(("asian", "raise", r[1]))
                            continue
                        v = np.asarray(r[1], dtype=float)
                        ok = v.size == 1 and bool(np.all(np.isfinite(v))) and lo * (1 - RTOL) <= float(v.ravel()[0]) <= hi * (1 + RTOL)
                        if not ok:
                            sh.violation(f"C17:static:{comp}:average-not-between-path-extremes",
                                         f"Asian on spot path {path} ({shape}, {grid} grid, rep {rep}) = {v.tolist()}, path extremes [{lo}, {hi}]",
                                         {"path": path})
                        sh.outcome(("asian", path, grid, np.round(v, 9).tolist()))
    else:
        dim, n = case["dim"], case["L"]
        heads = [[V[(V.index(case["first"]) + j) % len(V)]] * (n - 1) for j in range(dim)]  # non-terminal columns: fixed
        for last in itertools.product(V, repeat=dim):
            sp = np.array([heads[j] + [last[j]] for j in range(dim)])
            lo, hi = min(last), max(last)
            for rep in REPS:
                p = Product(payoff_underlying=UN.Mean(), payoff=PO.Forward(0.0), maturity=1.0)
                p.update(_rep(rep))
                a = enc(rep, sp)
                r = safe(lambda: mc_eval(p, times_for(n), a, np.zeros_like(a)))
                nev += 1
                if r[0] == "raise":
                    sh.violation(f"C17:static:Mean:{rep}:raises:{r[1]}", f"Mean on {sp.tolist()} raises: {r[2]}", None)
                    continue
                v = float(r[1])
                if not (lo * (1 - RTOL) <= v <= hi * (1 + RTOL)):
                    sh.violation(f"C17:static:Mean:{rep}:average-not-between-terminal-extremes",
                                 f"Mean on terminal spots {last} (rep {rep}) = {v}", {"path": sp.tolist()})
                if not core.close(v, sum(last) / dim, RTOL):
                    sh.violation(f"C17:static:Mean:{rep}:not-arithmetic-mean-of-terminal-spots",
                                 f"Mean on terminal spots {last} (rep {rep}) = {v}", {"path": sp.tolist()})
                sh.outcome(("mean", last, round(v, 9)))
    sh.count("evaluations", nev)
    sh.nontriv()


# ----------------------------------------------------------------------------------------------------------------------
# default times
# ----------------------------------------------------------------------------------------------------------------------

def _ref_default(times, incs, a):
    """first time a jump (increment of the log jump path) is below the threshold; inf if none."""
    for i, d in enumerate(incs):
        if d < a:
            return float(times[i + 1])
    return math.inf


def _cum(incs):
    out, s = [0.0], 0.0
    for d in incs:
        s = s + d
        out.append(s)
    return out


def _uval(rep, underlying, times, path, jumps):
    """Product.update + Product.underlying_value, the observation point named in the property."""
    PO, Product = L()["PO"], L()["Product"]
    p = Product(payoff_underlying=underlying, payoff=PO.Forward(0.0), maturity=1.0)
    p.update(_rep(rep))
    return p.underlying_value(times, path, jumps)


def _sub_default(sh, case):
    UN = L()["UN"]
    names, steps = case["names"], case["steps"]
    n = steps + 1
    nev = 0
    if names == 1:
        for incs in itertools.product(DROPS1, repeat=steps):
            cum = np.array(_cum(incs))
            for grid in grids_for(n):
                times = times_for(n, grid)
                tl = [float(times[i]) for i in range(n)]
                # thresholds EQUAL to a jump letter (log representation only: the jump is the increment of the log-jump path
                # as handed over, cum[i+1] - cum[i] in floats; "falls below" is strict; in the identity representation
                # log(exp(.)) roundings decide a tie, not the library: counted, not judged)
                diffs = [float(cum[i + 1]) - float(cum[i]) for i in range(steps)]
                for a in THRESH_TIE:
                    ref = _ref_default(tl, diffs, a)
                    tie = any(d == a for d in diffs)
                    r = safe(lambda: _uval("log", UN.DefaultTime(a), times, cum, cum))
                    nev += 1
                    sh.cls("default-threshold-" + ("tie" if tie else "letter-without-exact-tie"))
                    sh.count("default_tie_identity_representation_not_judged")
                    if r[0] == "raise":
                        sh.violation(f"C17:static:DefaultTime:log:raises:{r[1]}:tie", f"jumps {incs} a={a}: {r[2]}", None)
                    elif not core.close(r[1], ref, 1e-12):
                        sh.violation(f"C17:static:DefaultTime:log:not-first-time-jump-below-threshold:{'tie' if tie else 'near-tie'}",
                                     f"log-jump path {cum.tolist()} (increments {diffs}) at times {tl}, threshold {a} equal to a jump size: "
                                     f"default time {r[1]}, expected {ref} (a jump equal to the threshold is not below it)",
                                     {"increments": diffs, "times": tl, "a": a})
                for a in THRESH1:
                    ref = _ref_default(tl, incs, a)
                    got = {}
                    for rep in REPS:
                        jp = np.exp(cum) if rep == "id" else cum
                        r = safe(lambda: _uval(rep, UN.DefaultTime(a), times, jp, jp))
                        nev += 1
                        got[rep] = r
                        cls = "no-default" if math.isinf(ref) else ("first-jump" if ref == tl[1] else "later-jump")
                        sh.cls(f"default-{cls}")
                        if r[0] == "raise":
                            sh.violation(f"C17:static:DefaultTime:{rep}:raises:{r[1]}", f"jumps {incs} a={a}: {r[2]}", None)
                        elif not core.close(r[1], ref, 1e-12):
                            sh.violation(f"C17:static:DefaultTime:{rep}:not-first-time-jump-below-threshold:{cls}",
                                         f"log-jump increments {incs} at times {tl[1:]}, threshold {a} (rep {rep}): default time {r[1]}, expected {ref}",
                                         {"increments": incs, "times": tl, "a": a})
                    sh.outcome((incs, grid, a, ref))
        sh.count("evaluations", nev)
        sh.nontriv()
        return
    levels = list(case["levels"])
    for incs in itertools.product(itertools.product(DROPSM, repeat=steps), repeat=names):
        cum = np.array([_cum(i) for i in incs])
        for grid in grids_for(n):
            times = times_for(n, grid)
            tl = [float(times[i]) for i in range(n)]
            ref = [_ref_default(tl, incs[j], levels[j]) for j in range(names)]
            sref = sorted(ref)
            for rep in REPS:
                jp = np.exp(cum) if rep == "id" else cum
                base_cls = getattr(UN, "_DefaultTimes", None)  # private base class: checked when it exists
                if base_cls is not None:
                    r = safe(lambda: _uval(rep, base_cls(levels), times, jp, jp))
                    nev += 1
                    if r[0] == "raise" or not arr_close(r[1], ref, 1e-12):
                        sh.violation(f"C17:static:_DefaultTimes:{rep}:names{names}:not-first-time-jump-below-threshold",
                                     f"increments {incs} levels {levels} times {tl}: {r[1:]} expected {ref}", None)
                prev = -math.inf
                for k in range(1, names + 1):
                    r = safe(lambda: _uval(rep, UN.NthDefaultTimes(levels, k), times, jp, jp))
                    nev += 1
                    if r[0] == "raise":
                        sh.violation(f"C17:static:NthDefaultTimes:{rep}:raises:{r[1]}", f"increments {incs} levels {levels} n={k}: {r[2]}", None)
                        continue
                    v = float(r[1])
                    if not core.close(v, sref[k - 1], 1e-12):
                        sh.violation(f"C17:static:NthDefaultTimes:{rep}:names{names}:not-nth-smallest-default-time",
                                     f"increments {incs} levels {levels} times {tl}: {k}-th default = {v}, individual default times {ref}",
                                     {"increments": incs, "levels": levels, "n": k})
                    if v < prev:
                        sh.violation(f"C17:static:NthDefaultTimes:{rep}:names{names}:decreasing-in-n",
                                     f"increments {incs} levels {levels}: {k}-th default {v} < {k - 1}-th default {prev}", None)
                    prev = v
                    r = safe(lambda: _uval(rep, UN.DefaultTimeNthUnderlying(levels, k), times, jp, jp))
                    nev += 1
                    if r[0] == "raise" or not core.close(r[1], ref[k - 1], 1e-12):
                        sh.violation(f"C17:static:DefaultTimeNthUnderlying:{rep}:names{names}:not-default-time-of-that-name",
                                     f"increments {incs} levels {levels} name {k}: {r[1:]} expected {ref[k - 1]}", None)
            sh.outcome((incs, grid, tuple(ref)))
            sh.cls("nth-default-" + ("none" if all(math.isinf(x) for x in ref) else "all" if not any(math.isinf(x) for x in ref) else "some"))
    sh.count("evaluations", nev)
    sh.nontriv()


# ----------------------------------------------------------------------------------------------------------------------
# identity vs log representation for every Underlying subclass
# ----------------------------------------------------------------------------------------------------------------------

def _underlying_builders(dim):
    """label -> factory, for paths of shape (n,) (dim 1) or (dim, n)."""
    UN = L()["UN"]
    if dim == 1:
        return {
            "Spot": UN.Spot, "Libors": UN.Libors, "LogSpot": UN.LogSpot, "Asian": UN.Asian,
        }
    spots_a = [100.0, 80.0, 125.0][:dim]
    out = {
        "Spot": UN.Spot, "Libors": UN.Libors, "LogSpot": UN.LogSpot, "Mean": UN.Mean,
        "Performances": lambda: UN.Performances(spots_a),
        "MaximumOfPerformances": lambda: UN.MaximumOfPerformances(spots_a),
    }
    for k in range(1, dim + 1):
        out[f"NthSpot[{k}]"] = (lambda k=k: UN.NthSpot(k))
    for j, thr in enumerate(itertools.product([IND_THR[1], IND_THR[2], IND_THR[3]], repeat=dim)):
        if j % 4 == 0:
            out[f"Indicators[{j}]"] = (lambda thr=thr: UN.Indicators(list(thr)))
    out["Indicators[lo]"] = lambda: UN.Indicators([IND_THR[0]] * dim)
    out["Indicators[hi]"] = lambda: UN.Indicators([IND_THR[4]] * dim)
    return out


def _all_underlying_subclasses():
    UN = L()["UN"]
    seen, todo = [], [UN.Underlying]
    while todo:
        c = todo.pop()
        for s in c.__subclasses__():
            if s not in seen and s.__module__ == UN.__name__:
                seen.append(s)
                todo.append(s)
    return sorted(s.__name__ for s in seen)


COVERED_UNDERLYINGS = {"Spot", "Libors", "LogSpot", "Asian", "Mean", "Performances", "MaximumOfPerformances", "NthSpot",
                       "Indicators", "DefaultTime", "_DefaultTimes", "DefaultTimeNthUnderlying", "NthDefaultTimes"}


def _sub_repr(sh, case):
    dim, n = case["dim"], case["L"]
    for name in _all_underlying_subclasses():
        if name not in COVERED_UNDERLYINGS:
            sh.note(f"Underlying subclass {name} has no builder in C17: not covered")
            sh.count("underlying_subclasses_without_builder")
    builders = _underlying_builders(dim)
    nev = 0
    if dim == 1:
        spot_paths = [np.array(p) for p in paths_of(n, case["first"])]
    else:
        heads = [[V[(V.index(case["first"]) + j) % len(V)]] + [V[(j + 2) % len(V)]] * (n - 2) for j in range(dim)]
        spot_paths = [np.array([heads[j] + [last[j]] for j in range(dim)]) for last in itertools.product(V, repeat=dim)]
    for sp in spot_paths:
        for label, make in builders.items():
            cls = label.split("[")[0]
            times = times_for(n)
            z = np.zeros_like(sp)
            rid = safe(lambda: _uval("id", make(), times, sp, z))
            rlog = safe(lambda: _uval("log", make(), times, np.log(sp), z))
            nev += 2
            if rid[0] == "raise" or rlog[0] == "raise":
                which = [r for r in (rid, rlog) if r[0] == "raise"][0]
                both = "both-representations" if rid[0] == rlog[0] else ("identity-only" if rid[0] == "raise" else "log-only")
                sh.violation(f"C17:repr:{cls}:dim{dim}:raises:{which[1]}:{both}",
                             f"{label} on spot path {sp.tolist()}: identity -> {rid[:2]}, log -> {rlog[:2]}: {which[2]}", {"path": sp.tolist()})
                sh.outcome((label, "raise"))
                continue
            if not arr_close(rid[1], rlog[1], RTOL, None):
                sh.violation(f"C17:repr:{cls}:dim{dim}:identity-and-log-representation-differ",
                             f"{label} on spot path {sp.tolist()}: identity {np.asarray(rid[1]).tolist()} vs log {np.asarray(rlog[1]).tolist()}",
                             {"path": sp.tolist()})
            sh.outcome((label, np.round(np.asarray(rid[1], dtype=float), 9).tolist()))
    sh.count("evaluations", nev)
    sh.nontriv()


# ----------------------------------------------------------------------------------------------------------------------
# purity: explicit-state search over histories on one Product
# ----------------------------------------------------------------------------------------------------------------------

P1D = [[100.0, 105.0, 108.0], [100.0, 125.0, 108.0], [100.0, 80.0, 104.0], [100.0, 101.0, 95.0],
       [100.0, 125.0, 80.0, 104.0], [104.0, 104.0]]
P2D = [[[100.0, 105.0, 108.0], [80.0, 85.0, 90.0]], [[100.0, 90.0, 70.0], [80.0, 120.0, 125.0]],
       [[100.0, 100.0, 100.0], [80.0, 80.0, 80.0]], [[100.0, 130.0, 131.0], [80.0, 60.0, 50.0]], [[95.0, 104.0], [104.0, 95.0]]]
# three assets: terminal spots in the orders (high, low, mid), increasing, (mid, high, low), decreasing; other length
P3D = [[[100.0, 110.0, 130.0], [100.0, 95.0, 80.0], [100.0, 102.0, 105.0]],
       [[100.0, 90.0, 85.0], [100.0, 101.0, 104.0], [100.0, 120.0, 125.0]],
       [[100.0, 99.0, 101.0], [100.0, 140.0, 128.0], [100.0, 70.0, 75.0]],
       [[100.0, 115.0, 122.0], [100.0, 100.0, 100.0], [100.0, 97.0, 81.0]],
       [[104.0, 95.0], [80.0, 125.0], [100.0, 99.0]]]
PRATES = [[[0.02, 0.03], [0.025, 0.01], [0.03, 0.035]], [[0.02, 0.01], [0.025, 0.04], [0.03, 0.02]],
          [[0.02, 0.02], [0.025, 0.025], [0.03, 0.03]], [[0.02, 0.05], [0.025, 0.06], [0.03, 0.001]]]
# cumulative log-jump paths, one name / three names
J1 = [_cum(i) for i in ([0.0, 0.0], [-0.4, 0.0], [0.0, -0.4], [-0.1, -0.1], [0.2, -0.4, 0.0])]
J3 = [[_cum(a), _cum(b), _cum(c)] for a, b, c in (
    ([0.0, 0.0], [0.0, 0.0], [0.0, 0.0]), ([-0.4, 0.0], [0.0, 0.0], [0.0, -0.4]), ([0.0, -0.4], [-0.4, 0.0], [-0.1, -0.1]),
    ([-0.4, -0.4], [-0.4, 0.0], [-0.4, 0.0]))]


def _purity_configs():
    """name -> (kind, factory(lib) -> (underlying, payoff)).  kind selects the path menu and the encoding."""
    def barrier(pt, bt, level):
        return lambda PO, UN: (UN.Spot(), PO.Barrier(100.0, getattr(PO.PayoffType, pt), getattr(PO.BarrierType, bt), level))

    cfg = {}
    for pt in ("CALL", "PUT"):
        for bt, level in (("UP_AND_IN", 110.0), ("UP_AND_OUT", 110.0), ("DOWN_AND_IN", 90.0), ("DOWN_AND_OUT", 90.0)):
            cfg[f"Barrier[{bt},{pt}]:Spot"] = ("spot1", barrier(pt, bt, level))
    cfg["Vanilla[CALL]:Spot"] = ("spot1", lambda PO, UN: (UN.Spot(), PO.Vanilla(100.0, PO.PayoffType.CALL)))
    cfg["Vanilla[PUT,vector]:Spot"] = ("spot1", lambda PO, UN: (UN.Spot(), PO.Vanilla([90.0, 100.0, 110.0], PO.PayoffType.PUT)))
    cfg["Forward:Libors"] = ("spot1", lambda PO, UN: (UN.Libors(), PO.Forward(100.0)))
    cfg["Forward:LogSpot"] = ("spot1", lambda PO, UN: (UN.LogSpot(), PO.Forward(4.6)))
    cfg["Forward:Asian"] = ("spot1", lambda PO, UN: (UN.Asian(), PO.Forward(100.0)))
    cfg["Digital[CALL]:Spot"] = ("spot1", lambda PO, UN: (UN.Spot(), PO.Digital(104.0, PO.PayoffType.CALL)))
    cfg["CallSpread:Spot"] = ("spot1", lambda PO, UN: (UN.Spot(), PO.CallSpread(90.0, 106.0)))
    cfg["Butterfly:Spot"] = ("spot1", lambda PO, UN: (UN.Spot(), PO.Butterfly(90.0, 100.0, 110.0)))
    cfg["FixedCoupon:Spot"] = ("spot1", lambda PO, UN: (UN.Spot(), PO.FixedCoupon(3.0)))
    cfg["PayoffOnTheFly[square]:Spot"] = ("spot1", lambda PO, UN: (UN.Spot(), PO.PayoffOnTheFly(_square)))
    cfg["Forward:Mean"] = ("spot2", lambda PO, UN: (UN.Mean(), PO.Forward(90.0)))
    cfg["Rainbow[CALL]:Performances"] = ("spot2", lambda PO, UN: (UN.Performances([100.0, 80.0]), PO.Rainbow([0.7, 0.3], 1.0, PO.PayoffType.CALL)))
    cfg["Vanilla[CALL]:MaximumOfPerformances"] = ("spot2", lambda PO, UN: (UN.MaximumOfPerformances([100.0, 80.0]), PO.Vanilla(1.0, PO.PayoffType.CALL)))
    cfg["Forward:NthSpot[2]"] = ("spot2", lambda PO, UN: (UN.NthSpot(2), PO.Forward(80.0)))
    cfg["PayoffOnTheFly[sum]:Indicators"] = ("spot2", lambda PO, UN: (UN.Indicators([95.0, 85.0]), PO.PayoffOnTheFly(_total)))
    cfg["PayoffOnTheFly[sum]:Spot[2d]"] = ("spot2", lambda PO, UN: (UN.Spot(), PO.PayoffOnTheFly(_total)))
    cfg["Rainbow[PUT]:Spot[2d]"] = ("spot2", lambda PO, UN: (UN.Spot(), PO.Rainbow([0.6, 0.4], 101.0, PO.PayoffType.PUT)))
    cfg["Digital[PUT]:Spot"] = ("spot1", lambda PO, UN: (UN.Spot(), PO.Digital(104.0, PO.PayoffType.PUT)))
    s3 = [100.0, 80.0, 125.0]
    cfg["Rainbow[CALL]:Spot[3d]"] = ("spot3", lambda PO, UN: (UN.Spot(), PO.Rainbow([0.5, 0.3, 0.2], 100.0, PO.PayoffType.CALL)))
    cfg["Rainbow[PUT]:Performances[3d]"] = ("spot3", lambda PO, UN: (UN.Performances(s3), PO.Rainbow([0.5, 0.3, 0.2], 1.3, PO.PayoffType.PUT)))
    cfg["Vanilla[CALL]:MaximumOfPerformances[3d]"] = ("spot3", lambda PO, UN: (UN.MaximumOfPerformances(s3), PO.Vanilla(1.0, PO.PayoffType.CALL)))
    cfg["Forward:Mean[3d]"] = ("spot3", lambda PO, UN: (UN.Mean(), PO.Forward(90.0)))
    cfg["PayoffOnTheFly[sum]:Spot[3d]"] = ("spot3", lambda PO, UN: (UN.Spot(), PO.PayoffOnTheFly(_total)))
    cfg["PayoffOnTheFly[sum]:Indicators[3d]"] = ("spot3", lambda PO, UN: (UN.Indicators([95.0, 85.0, 90.0]), PO.PayoffOnTheFly(_total)))
    for k in (1, 2, 3):
        cfg[f"Vanilla[CALL]:NthSpot[{k}of3]"] = ("spot3", lambda PO, UN, k=k: (UN.NthSpot(k), PO.Vanilla(100.0, PO.PayoffType.CALL)))
    r0, dl = np.array([0.02, 0.025, 0.03]), np.array([0.5, 0.5, 0.5])
    cfg["Bond:Libors"] = ("rates", lambda PO, UN: (UN.Libors(), PO.Bond(r0, dl)))
    cfg["Cap:Libors"] = ("rates", lambda PO, UN: (UN.Libors(), PO.Cap(r0, dl, 0.02)))
    cfg["Ratchet:Libors"] = ("rates", lambda PO, UN: (UN.Libors(), PO.Ratchet(dl, 1.0, 0.001, 0.002, 0.001, 0.01)))
    # twins: the same underlying class with OTHER parameters (every parametrised public underlying class has two parameter
    # values in some kind; Asian's discretisation does not enter its value: a pair that must agree)
    cfg["Rainbow[CALL]:Performances[other]"] = ("spot2", lambda PO, UN: (UN.Performances([90.0, 100.0]), PO.Rainbow([0.7, 0.3], 1.0, PO.PayoffType.CALL)))
    cfg["Vanilla[CALL]:MaximumOfPerformances[other]"] = ("spot2", lambda PO, UN: (UN.MaximumOfPerformances([90.0, 100.0]), PO.Vanilla(1.0, PO.PayoffType.CALL)))
    cfg["Forward:NthSpot[1]"] = ("spot2", lambda PO, UN: (UN.NthSpot(1), PO.Forward(80.0)))
    cfg["PayoffOnTheFly[sum]:Indicators[other]"] = ("spot2", lambda PO, UN: (UN.Indicators([105.0, 60.0]), PO.PayoffOnTheFly(_total)))
    cfg["Forward:Asian[WEEKLY]"] = ("spot1", lambda PO, UN: (UN.Asian(UN.Discretisation.WEEKLY), PO.Forward(100.0)))
    cfg["Forward:DefaultTime[other]"] = ("jump1", lambda PO, UN: (UN.DefaultTime(-0.05), PO.Forward(0.0)))
    cfg["Forward:DefaultTimeNthUnderlying[1]"] = ("jump3", lambda PO, UN: (UN.DefaultTimeNthUnderlying([-0.05, -0.05, -0.35], 1), PO.Forward(0.0)))
    cfg["Swaption[PAYER]:Libors"] = ("rates", lambda PO, UN: (UN.Libors(), PO.Swaption(r0, dl, 0.02, PO.SwaptionType.PAYER)))
    cfg["Swaption[RECEIVER]:Libors"] = ("rates", lambda PO, UN: (UN.Libors(), PO.Swaption(r0, dl, 0.03, PO.SwaptionType.RECEIVER)))
    cfg["CDS:DefaultTime"] = ("jump1", lambda PO, UN: (UN.DefaultTime(-0.35), PO.CDS(0.4, 0.01, 1.0, _df)))
    cfg["Forward:DefaultTime"] = ("jump1", lambda PO, UN: (UN.DefaultTime(-0.35), PO.Forward(0.0)))
    cfg["Forward:NthDefaultTimes[1]"] = ("jump3", lambda PO, UN: (UN.NthDefaultTimes([-0.35, -0.35, -0.05], 1), PO.Forward(0.0)))
    cfg["Forward:NthDefaultTimes[2]"] = ("jump3", lambda PO, UN: (UN.NthDefaultTimes([-0.35, -0.35, -0.05], 2), PO.Forward(0.0)))
    cfg["Forward:DefaultTimeNthUnderlying[3]"] = ("jump3", lambda PO, UN: (UN.DefaultTimeNthUnderlying([-0.05, -0.05, -0.35], 3), PO.Forward(0.0)))
    return cfg


def _square(x):
    return x * x


def _total(x):
    return float(np.sum(x))


def _df(t):
    return math.exp(-0.03 * t)


PATH_MENUS = {"spot1": P1D, "spot2": P2D, "spot3": P3D, "rates": PRATES, "jump1": J1, "jump3": J3}


def _encode(kind, rep, raw):
    """-> (times, diffusion, jumps) as the processes would produce them for this spot / rate / jump path."""
    a = np.asarray(raw, dtype=float)
    n = a.shape[-1]
    if kind.startswith("jump"):
        j = np.exp(a) if rep == "id" else a
        return times_for(n, "nonuniform" if n > 2 else "uniform"), np.zeros_like(j), j
    return times_for(n), (np.log(a) if rep == "log" else a), np.zeros_like(a)


def _snap(o, depth=0, owner=None):
    """Hashable snapshot of all instance state (the only state these objects have).  A bound method stored on an instance
    is recorded with its function name and whether it is bound to the instance holding it (a copy whose stored methods
    still point to the original object is another state)."""
    import enum
    import types

    if isinstance(o, enum.Enum):
        return ("enum", o.name)
    if isinstance(o, (bool, int, float, str, type(None))):
        return repr(o)
    if isinstance(o, np.ndarray):
        return ("nd", tuple(np.asarray(o, dtype=float).ravel().tolist()))
    if isinstance(o, np.generic):
        return repr(o.item())
    if isinstance(o, (list, tuple)):
        return tuple(_snap(x, depth + 1) for x in o)
    if isinstance(o, types.MethodType):
        bound = "own" if (owner is None or o.__self__ is owner) else "other:" + type(o.__self__).__name__
        return ("method", getattr(o.__func__, "__name__", "?"), bound)
    if callable(o) and not hasattr(o, "__dict__"):
        return ("callable", getattr(o, "__qualname__", type(o).__name__))
    if isinstance(o, types.FunctionType):
        return ("function", o.__qualname__)
    d = getattr(o, "__dict__", None)
    if d is None or depth > 4:
        return ("obj", type(o).__name__)
    return (type(o).__name__,) + tuple((k, _snap(v, depth + 1, o)) for k, v in sorted(d.items()))


def _payoff_label(name):
    """'Barrier[UP_AND_IN,CALL]:Spot' -> 'Barrier[UP_AND_IN]' (calls and puts share the code under test)."""
    head = name.split(":")[0]
    return head.replace(",CALL", "").replace(",PUT", "").replace("[CALL]", "").replace("[PUT]", "")


def _sub_purity(sh, case):
    lib = L()
    PO, UN, Product = lib["PO"], lib["UN"], lib["Product"]
    name = case["config"]
    kind, factory = _purity_configs()[name]
    paths = PATH_MENUS[kind]
    same_len = [i for i in range(len(paths)) if np.asarray(paths[i]).shape == np.asarray(paths[0]).shape]
    events = [["eval", j] for j in range(len(paths))]
    events += [["pair", i, j] for i in same_len for j in same_len if i != j]
    events += [["update", "log"], ["update", "id"]]
    # the product is replaced by a deep copy of itself (what the worker processes of the engines receive), then values a path
    events += [["copy", j] for j in range(min(2, len(paths)))]
    # ... by a dill round trip of itself (what the pool branches of the engines really send: pathos pickles with dill), by
    # copy.copy of itself (shares payoff and underlying with the original)
    events += [["dillcopy", 0], ["shallowcopy", min(1, len(paths) - 1)]]
    # a SECOND product object of the same configuration, switched to representation r, values path 1 in between; then the
    # product under test values path 0 (state shared through class attributes, module-level caches, default arguments)
    events += [["other", r, min(1, len(paths) - 1), 0] for r in REPS]

    def fresh():
        u, p = factory(PO, UN)
        return Product(payoff_underlying=u, payoff=p, maturity=1.0, notional=2.0)

    ucls = type(fresh().payoff_underlying).__name__
    plabel = _payoff_label(name)
    key_underlying = f"C17:purity:underlying:{ucls}:identity-value-after-log-update-differs-from-fresh-product"
    key_payoff = f"C17:purity:payoff:{plabel}:{ucls}"

    def run_event(prod, rep, ev):
        if ev[0] == "eval":
            t, d, j = _encode(kind, rep, paths[ev[1]])
            return safe(lambda: mc_eval(prod, t, d, j))
        t, df_, jf = _encode(kind, rep, paths[ev[1]])
        _, dc, jc = _encode(kind, rep, paths[ev[2]])
        return safe(lambda: mlmc_eval(prod, t, np.stack([df_, dc]), np.stack([jf, jc])))

    ref_cache = {}

    def updated_fresh(rep):
        p = fresh()
        p.update(_rep(rep))  # as Engine.initialisation does, once
        return p

    def reference(rep, j):
        """fresh product, updated once to rep, this path alone, through the standard engine's path manager"""
        if (rep, j) not in ref_cache:
            t, d, jj = _encode(kind, rep, paths[j])
            r = safe(lambda: mc_eval(updated_fresh(rep), t, d, jj))
            ref_cache[(rep, j)] = r
            # level 0 of the multilevel engine (MLMCPath.process_l0) must see the same value; it stores [payoff, 0.0],
            # which exists for scalar payoffs only
            if r[0] == "ok" and np.ndim(r[1]) == 0:
                r0 = safe(lambda: l0_eval(updated_fresh(rep), t, d, jj))
                r0 = ("ok", np.asarray(r0[1])[0]) if r0[0] == "ok" else r0
                sh.count("evaluations")
                if not same_obs(r, r0):
                    sh.violation(f"{key_payoff}:level0-manager-differs-from-standard-manager:{rep}",
                                 f"{name} path {paths[j]}: MCPath.process -> {_obs_show(r)}, MLMCPath.process_l0 -> {_obs_show(r0)}", None)
        return ref_cache[(rep, j)]

    def pair_on_fresh(rep, i, j):
        if (rep, i, j) not in ref_cache:
            ref_cache[(rep, i, j)] = run_event(updated_fresh(rep), rep, ["pair", i, j])
        return ref_cache[(rep, i, j)]

    def build(hist):
        prod, rep, obs = fresh(), "id", []
        for ev in hist:
            if ev[0] == "update":
                prod.update(_rep(ev[1]))
                rep = ev[1]
                obs.append(None)
            elif ev[0] in ("copy", "dillcopy", "shallowcopy"):
                prod = _COPIERS[ev[0]](prod)
                obs.append(run_event(prod, rep, ["eval", ev[1]]))
            elif ev[0] == "other":
                second = fresh()
                second.update(_rep(ev[1]))
                run_event(second, ev[1], ["eval", ev[2]])
                obs.append(run_event(prod, rep, ["eval", ev[3]]))
            else:
                obs.append(run_event(prod, rep, ev))
        return prod, rep, obs

    def menu(state, hist):
        return events

    def canon(state, hist):
        prod, rep, obs = state
        return (rep, _snap(prod))

    def history_class(hist, rep):
        upd = [e[1] for e in hist if e[0] == "update"]
        if rep == "id" and "log" in upd:
            return "identity-after-log-update"
        if any(e[0] != "update" for e in hist[:-1]):
            return "after-earlier-paths"
        return "first-evaluation"

    def invariant(state, hist, ev):
        prod, rep, obs = state
        if ev is None or ev[0] == "update":
            return None
        sh.count("evaluations")
        got = obs[-1]
        hc = history_class(hist, rep)
        sh.cls(f"purity-history-{hc}")
        if ev[0] in ("eval", "copy", "dillcopy", "shallowcopy", "other"):
            idx = ev[3] if ev[0] == "other" else ev[1]
            ref = reference(rep, idx)
            sh.outcome((name, rep, idx, _obs_key(ref)))
            if same_obs(got, ref):
                return None
            what = (f"{name}: after history {hist[:-1]} (current representation {rep}) path {paths[idx]} is valued "
                    f"{_obs_show(got)}{' by ' + _EVENT_WORDS[ev[0]] if ev[0] != 'eval' else ''}; a fresh product updated "
                    f"once to {rep} gives {_obs_show(ref)}")
            detail = {"history": hist, "observed": _obs_show(got), "fresh": _obs_show(ref)}
            if ev[0] != "eval":
                # the same history with a plain evaluation in the place of the last event: right there => the copy / the
                # other object is the cause
                plain = build(hist[:-1] + [["eval", idx]])[2][-1]
                if same_obs(plain, ref):
                    which = {"copy": "deep-copy-valued-differently", "dillcopy": "dill-round-trip-valued-differently",
                             "shallowcopy": "shallow-copy-valued-differently"}.get(ev[0], "value-depends-on-another-object-of-the-configuration")
                    return (f"{key_payoff}:{which}", what, detail)
            if hc == "identity-after-log-update":
                return (key_underlying, what, detail)
            if hc == "after-earlier-paths":
                return (f"{key_payoff}:value-depends-on-earlier-paths", what, detail)
            return (f"{key_payoff}:first-evaluation-differs-from-fresh-product:{rep}", what, detail)
        rf, rc = reference(rep, ev[1]), reference(rep, ev[2])
        what = (f"{name}: after history {hist[:-1]} (representation {rep}) MLMCPath.process on fine {paths[ev[1]]} / coarse "
                f"{paths[ev[2]]} gives {_obs_show(got)}; fresh single evaluations give fine {_obs_show(rf)}, coarse {_obs_show(rc)}")
        detail = {"history": hist, "observed": _obs_show(got), "fresh": [_obs_show(rf), _obs_show(rc)]}
        if got[0] == "raise" or rf[0] == "raise" or rc[0] == "raise":
            if got[0] == rf[0] == rc[0]:
                return None
            which = "raises-unlike-single-evaluations"
        else:
            g = np.asarray(got[1], dtype=float)
            fine_ok, coarse_ok = same_obs(("ok", g[0]), rf), same_obs(("ok", g[1]), rc)
            if fine_ok and coarse_ok:
                return None
            which = "fine-value-depends-on-coarse-path" if coarse_ok else (
                "coarse-value-depends-on-fine-path" if fine_ok else "both-values-differ-from-single-evaluations")
        if hc == "identity-after-log-update":
            return (key_underlying, what, detail)
        if hc == "after-earlier-paths" and not same_obs(got, pair_on_fresh(rep, ev[1], ev[2])):
            return (f"{key_payoff}:value-depends-on-earlier-paths", what, detail)
        # a fresh product shows the same pair result: the defect is in the order of the multilevel path manager
        return (f"{key_payoff}:mlmc-pair:{which}", what, detail)

    s, t, d = core.bfs(sh, build, menu, canon, invariant, case["depth"])
    sh.traces += t
    sh.nontriv()
    sh.cls(f"purity-{kind}")
    sh.sample({"sub": "purity", "config": name, "states": s, "transitions": t, "max_depth": d, "menu": len(events)})


_EVENT_WORDS = {"copy": "a deep copy of the product", "dillcopy": "a dill round trip of the product", "shallowcopy": "copy.copy of the product",
                "other": "the product after a second object of the configuration valued a path"}


def _dill_round_trip(obj):
    import dill

    return dill.loads(dill.dumps(obj))


_COPIERS = {"copy": copy.deepcopy, "dillcopy": _dill_round_trip, "shallowcopy": copy.copy}


def _obs_key(o):
    if o[0] == "raise":
        return ("raise", o[1])
    return ("ok", np.round(np.asarray(o[1], dtype=float), 9).tolist())


def _obs_show(o):
    if o[0] == "raise":
        return f"raises {o[1]}"
    return np.asarray(o[1], dtype=float).tolist()


# ----------------------------------------------------------------------------------------------------------------------
# control-variate route
# ----------------------------------------------------------------------------------------------------------------------

def _cv_configs():
    """name -> (kind, main factory, [cv factories])"""
    return {
        "main=Spot:cvs=Spot,LogSpot": ("spot1", lambda PO, UN: (UN.Spot(), PO.Vanilla(100.0, PO.PayoffType.CALL)),
                                       [lambda PO, UN: (UN.Spot(), PO.Forward(90.0)), lambda PO, UN: (UN.LogSpot(), PO.Forward(0.0))]),
        "main=MaximumOfPerformances:cvs=NthSpot": ("spot2", lambda PO, UN: (UN.MaximumOfPerformances([100.0, 80.0]), PO.Vanilla(1.0, PO.PayoffType.CALL)),
                                                   [lambda PO, UN: (UN.NthSpot(1), PO.Vanilla(100.0, PO.PayoffType.CALL)),
                                                    lambda PO, UN: (UN.NthSpot(2), PO.Vanilla(80.0, PO.PayoffType.PUT))]),
        "main=Spot[2d]:cvs=NthSpot": ("spot2", lambda PO, UN: (UN.Spot(), PO.PayoffOnTheFly(_total)),
                                      [lambda PO, UN: (UN.NthSpot(1), PO.Forward(100.0)), lambda PO, UN: (UN.NthSpot(2), PO.Forward(80.0))]),
    }


def _sub_cvroute(sh, case):
    lib = L()
    PO, UN, Product, CV = lib["PO"], lib["UN"], lib["Product"], lib["CV"]
    name, rep = case["config"], case["rep"]
    kind, main_f, cv_fs = _cv_configs()[name]

    def mk(f):
        u, p = f(PO, UN)
        pr = Product(payoff_underlying=u, payoff=p, maturity=1.0)
        pr.update(_rep(rep))
        return pr

    for raw in PATH_MENUS[kind]:
        t, d, j = _encode(kind, rep, raw)
        main = mk(main_f)
        cvp = [mk(f) for f in cv_fs]
        cv = CV(products=cvp, prices=[0.0] * len(cvp))
        cv.initialisation(type(main.payoff_underlying))  # Configuration.initialisation(product) does exactly this
        r = safe(lambda: mc_eval(main, t, d, j, cv))
        direct = [safe(lambda f=f: mc_eval(mk(f), t, d, j)) for f in cv_fs]
        sh.count("evaluations", 1 + len(cv_fs))
        if r[0] == "raise":
            sh.violation(f"C17:cvroute:{name}:raises:{r[1]}",
                         f"{name} rep {rep} path {raw}: ControlVariates.process raises {r[1]}: {r[2]}; the products alone give {[_obs_show(x) for x in direct]}", None)
            sh.outcome((name, "raise"))
            continue
        got = np.asarray(r[1][1], dtype=float).ravel()
        exp = np.array([float(np.asarray(x[1]).ravel()[0]) if x[0] == "ok" else math.nan for x in direct])
        if got.shape != exp.shape or not arr_close(got, exp, 1e-12):
            sh.violation(f"C17:cvroute:{name}:control-variate-value-differs-from-own-evaluation:{rep}",
                         f"path {raw}: through ControlVariates {got.tolist()}, alone {exp.tolist()}", None)
        sh.outcome((name, rep, np.round(got, 9).tolist()))
    sh.nontriv()


# ----------------------------------------------------------------------------------------------------------------------
# the factory is a second construction route to the same payoffs
# ----------------------------------------------------------------------------------------------------------------------

def _sub_factory(sh, case):
    PO, UN = L()["PO"], L()["UN"]
    OT, PT_, BT = PO.OptionType, PO.PayoffType, PO.BarrierType
    routes = []
    for k in STRIKES:
        routes.append(("Forward", (OT.FORWARD, (k,), {}), lambda k=k: PO.Forward(k)))
        routes.append(("Forward", (OT.FORWARD, (), {"strike": k}), lambda k=k: PO.Forward(k)))
        for pt in (PT_.CALL, PT_.PUT):
            routes.append(("Vanilla", (OT.VANILLA, (k, pt), {}), lambda k=k, pt=pt: PO.Vanilla(k, pt)))
            routes.append(("Vanilla", (OT.VANILLA, (), {"strike": k, "payoff_type": pt}), lambda k=k, pt=pt: PO.Vanilla(k, pt)))
            for bt in BT:
                for b in (BARRIERS[1], BARRIERS[3]):
                    routes.append(("Barrier", (OT.BARRIER, (k, pt, bt, b), {}), lambda k=k, pt=pt, bt=bt, b=b: PO.Barrier(k, pt, bt, b)))
    nev = 0
    for cname, (ot, a, kw), direct in routes:
        made = safe(lambda: PO.Payoff.create(ot, *a, **kw))
        if made[0] == "raise" or type(made[1]) is not type(direct()):
            sh.violation(f"C17:factory:{cname}:create-does-not-build-the-class",
                         f"Payoff.create({ot.name}, {a}, {kw}) -> {made[1] if made[0] == 'raise' else type(made[1]).__name__}", None)
            continue
        for rep in REPS:
            for path in P1D:
                got = safe(lambda: spot_eval(rep, UN.Spot(), PO.Payoff.create(ot, *a, **kw), path))
                exp = safe(lambda: spot_eval(rep, UN.Spot(), direct(), path))
                nev += 2
                if not same_obs(got, exp):
                    sh.violation(f"C17:factory:{cname}:created-payoff-valued-differently-from-constructed:{rep}",
                                 f"Payoff.create({ot.name}, {a}, {kw}) on spot path {path} (rep {rep}): {_obs_show(got)}; "
                                 f"the constructor's object gives {_obs_show(exp)}", {"path": path})
                sh.outcome((cname, rep, tuple(path), _obs_key(exp)))
    sh.count("evaluations", nev)
    sh.nontriv()


# ----------------------------------------------------------------------------------------------------------------------
# evaluating a product does not modify what it is given; later consumers of the same path see the same values
# ----------------------------------------------------------------------------------------------------------------------

def _freeze(x):
    """Bit-exact picture of an input or intermediate value (arrays and views: dtype, shape, bytes; time grids and
    sequences: their elements)."""
    if isinstance(x, np.ndarray):
        return ("nd", str(x.dtype), x.shape, x.tobytes())
    if isinstance(x, np.generic):
        return ("sc", repr(x.item()))
    if isinstance(x, (bool, int, float, str, type(None))):
        return ("sc", repr(x))
    try:
        return ("seq", tuple(_freeze(v) for v in x))
    except TypeError:
        return ("obj", type(x).__name__)


def _int_ended(tvals):
    """the same times with the integral ones as Python ints (times = [0, 0.5, 1]: what a user types)"""
    return [int(t) if float(t) == int(t) else t for t in tvals]


def _changed(before, arrays):
    """names of the inputs (times, path, jump-path) that no longer have the content they had"""
    return [n for n, b, a in zip(("times", "path", "jump-path"), before, arrays) if _freeze(a) != b]


def _kind_peers(kind):
    return sorted(n for n, (k, _) in _purity_configs().items() if k == kind)


def _mk(name, rep, notional=2.0):
    lib = L()
    u, p = _purity_configs()[name][1](lib["PO"], lib["UN"])
    pr = lib["Product"](payoff_underlying=u, payoff=p, maturity=1.0, notional=notional)
    pr.update(_rep(rep))
    return pr


def _arrays(kind, rep, raw):
    """(times, path, jump path) as MCPath.process forms them (zero deterministic part); new arrays at every call"""
    t, d, j = _encode(kind, rep, raw)
    return t, 0.0 + (d + j), j


def _direct(prod, t, path, j):
    """the observation point of the property: Product.underlying_value then Product(value)"""
    return prod(prod.underlying_value(t, path, j))


TWIN_KEY = "C17:controls:{ucls}:control-of-the-same-underlying-class-with-other-parameters-gets-the-main-underlying-value"


def _is_twin(main, ctrl):
    """the control's underlying is an instance of the main underlying's class but has other parameters:
    Underlying.imply_from_payoff_underlying looks at the type only and hands the control the MAIN underlying value"""
    mu, cu = main.payoff_underlying, ctrl.payoff_underlying
    return isinstance(cu, type(mu)) and _snap(cu) != _snap(mu)


def _usable_as_control(main, ctrl):
    """Controls of the ordinary alphabet: every configuration of the kind except the twins (enumerated on their own, see
    _is_twin) and LookBack (not constructible in a usable state)."""
    return not isinstance(ctrl.payoff, L()["PO"].LookBack) and not _is_twin(main, ctrl)


def _terminal_spots(kind, raw):
    a = np.asarray(raw, dtype=float)
    return np.exp(a[..., -1]) if kind.startswith("jump") else a[..., -1]


def _finite(o):
    return o[0] == "ok" and bool(np.all(np.isfinite(np.asarray(o[1], dtype=float))))


def _sub_inputs(sh, case):
    name, rep = case["config"], case["rep"]
    kind = _purity_configs()[name][0]
    paths, peers = PATH_MENUS[kind], _kind_peers(kind)
    main0 = _mk(name, rep)
    ucls, plabel = type(main0.payoff_underlying).__name__, _payoff_label(name)
    key = f"C17:inputs:{plabel}:{ucls}"
    refs = {}

    def ref(n, idx, notional=2.0):
        if (n, idx, notional) not in refs:
            refs[(n, idx, notional)] = safe(lambda: _direct(_mk(n, rep, notional), *_arrays(kind, rep, paths[idx])))
        return refs[(n, idx, notional)]

    nev = 0
    for idx, raw in enumerate(paths):
        arrays = _arrays(kind, rep, raw)
        before = tuple(_freeze(a) for a in arrays)
        main = _mk(name, rep)
        ru = safe(lambda: main.underlying_value(*arrays))
        nev += 1
        if ru[0] == "raise":  # classified by the purity search; nothing handed on
            sh.count("inputs_main_raises")
            sh.outcome((name, rep, idx, "raise"))
            continue
        for which in _changed(before, arrays):
            sh.violation(f"{key}:underlying-value-modifies-its-{which}:{rep}",
                         f"{name} rep {rep}: Product.underlying_value on path {raw} changed the {which} array it was given", {"path": raw})
        u = ru[1]
        u_before = _freeze(u)
        rv = safe(lambda: main(u))
        if rv[0] == "raise":
            sh.count("inputs_main_raises")
            sh.outcome((name, rep, idx, "raise"))
            continue
        if _freeze(u) != u_before:
            sh.violation(f"{key}:evaluation-modifies-the-underlying-value:{rep}",
                         f"{name} rep {rep} path {raw}: Product(value) changed the underlying value it was given "
                         f"(now {np.asarray(u).tolist()}); the control variates receive that object afterwards", {"path": raw})
        for which in _changed(before, arrays):
            sh.violation(f"{key}:evaluation-modifies-its-{which}:{rep}",
                         f"{name} rep {rep}: Product(value) changed the {which} array of path {raw} "
                         f"(now {np.asarray(arrays[('times', 'path', 'jump-path').index(which)]).tolist()})", {"path": raw})
        again = safe(lambda: main(u))
        if not same_obs(rv, again):
            sh.violation(f"{key}:second-evaluation-of-the-same-underlying-value-differs:{rep}",
                         f"{name} rep {rep} path {raw}: Product(value) gives {_obs_show(rv)}, then {_obs_show(again)}", {"path": raw})
        t, d, j = _encode(kind, rep, raw)
        via_manager = safe(lambda: mc_eval(_mk(name, rep), t, d, j))
        if not same_obs(rv, via_manager):
            sh.violation(f"{key}:direct-evaluation-differs-from-path-manager:{rep}",
                         f"{name} rep {rep} path {raw}: underlying_value + call gives {_obs_show(rv)}, MCPath.process {_obs_show(via_manager)}", {"path": raw})
        nev += 3
        # the same times in the other legal forms (the fixed-date simulations hand over the library's TimeGrid, the
        # jump-time simulations an ndarray; a user of the observation point may hand over a list or a tuple)
        tvals = [float(arrays[0][i]) for i in range(np.asarray(raw).shape[-1])]
        for tform, tt in (("list", list(tvals)), ("tuple", tuple(tvals)), ("ndarray", np.array(tvals)), ("int-ended-list", _int_ended(tvals))):
            t_before = _freeze(tt)
            alt = safe(lambda: _direct(_mk(name, rep), tt, *_arrays(kind, rep, raw)[1:]))
            nev += 1
            if not same_obs(alt, rv):
                sh.violation(f"{key}:times-form-valued-differently:{tform}:{rep}",
                             f"{name} rep {rep} path {raw}: with the times {tvals} handed over as {tform} the value is {_obs_show(alt)}, "
                             f"with {type(arrays[0]).__name__} it is {_obs_show(rv)}", {"path": raw})
            if _freeze(tt) != t_before:
                sh.violation(f"{key}:evaluation-modifies-its-times:{tform}:{rep}", f"{name} rep {rep} path {raw}: times handed over as {tform} were changed", {"path": raw})
        # one asset handed over as a path of shape (1, n) (what the SDE process produces for a model of dimension 1) gives
        # the value of the shape (n,) path.  Barrier iterates over the rows of the path and rejects it: outside.
        if kind == "spot1" and not plabel.startswith("Barrier"):
            row = safe(lambda: _direct(_mk(name, rep), *_arrays(kind, rep, [raw])))
            nev += 1
            if row[0] == "raise" or np.size(row[1]) != np.size(rv[1]) or not same_obs(("ok", np.ravel(row[1])), ("ok", np.ravel(rv[1]))):
                sh.violation(f"{key}:path-of-shape-(1,n)-valued-differently-from-shape-(n,):{rep}",
                             f"{name} rep {rep} path {raw}: as an array of shape (1, n) {_obs_show(row)}, of shape (n,) {_obs_show(rv)}", {"path": raw})
        elif kind == "spot1":
            sh.count("row_shaped_path_rejected_by_barrier_not_judged")
        # notional scales linearly, for every payoff / underlying of the menu
        unit = ref(name, idx, 1.0)
        if _finite(unit):
            for c in NOTIONALS:
                vc = ref(name, idx, c)
                nev += 1
                if vc[0] != "ok" or not arr_close(vc[1], c * np.asarray(unit[1], dtype=float), 1e-12, None):
                    sh.violation(f"C17:static:Product:notional-not-linear:{plabel}:{ucls}:{rep}",
                                 f"{name} rep {rep} path {raw}: notional {c} gives {_obs_show(vc)}, notional 1 gives {_obs_show(unit)}", {"path": raw})
        else:
            sh.count("notional_not_compared_infinite_value")
        # later consumers: every configuration of the kind (a second object of the same configuration included)
        # each consumer gets what the product under test left behind (content of the arrays after its evaluation), not
        # what an earlier consumer of this loop may have done to it: that belongs to the consumer's own case
        left, u_left = tuple(copy.deepcopy(a) for a in arrays), copy.deepcopy(u)
        for peer in peers:
            expected = ref(peer, idx)
            q = _mk(peer, rep)
            arrays, u = tuple(copy.deepcopy(a) for a in left), copy.deepcopy(u_left)
            got = safe(lambda: _direct(q, *arrays))
            nev += 1
            if not same_obs(got, expected):
                sh.violation(f"{key}:later-product-on-the-same-path-valued-differently:{rep}",
                             f"after {name} (rep {rep}) valued path {raw}, {peer} values the same arrays {_obs_show(got)}; "
                             f"on its own copy of the path it gives {_obs_show(expected)}", {"path": raw, "consumer": peer})
            qc = _mk(peer, rep)
            twin = _is_twin(main, qc)
            fun = qc.payoff_underlying.imply_from_payoff_underlying(type(main.payoff_underlying))

            def as_control():  # ControlVariates.process: implied underlying, Payoff.process(times, path), product(value)
                value = fun(arrays[0], arrays[1], arrays[2], u)
                qc.payoff.process(arrays[0], arrays[1])
                return qc(value)

            gotc = safe(as_control)
            nev += 1
            if twin:
                sh.cls("control-twin-" + ("agrees" if same_obs(gotc, expected) else "differs"))
                if not same_obs(gotc, expected) and same_obs(gotc, safe(lambda: _mk(peer, rep)(copy.deepcopy(u_left)))):
                    sh.violation(TWIN_KEY.format(ucls=ucls),
                                 f"main {name}, control {peer} (rep {rep}) on path {raw}: the control implied by "
                                 f"imply_from_payoff_underlying({ucls}) is valued {_obs_show(gotc)} = its payoff on the MAIN underlying "
                                 f"value {np.asarray(u_left, dtype=float).tolist()}; on its own it is {_obs_show(expected)}",
                                 {"path": raw, "main": name, "control": peer})
                    continue
            if not same_obs(gotc, expected):
                sh.violation(f"{key}:control-implied-from-its-underlying-value-valued-differently:{rep}",
                             f"after {name} (rep {rep}) valued path {raw}, the control {peer} implied from its underlying value "
                             f"(ControlVariates.initialisation / process) is {_obs_show(gotc)}; on its own {_obs_show(expected)}",
                             {"path": raw, "control": peer})
            sh.cls("control-" + ("implied" if getattr(fun, "__self__", None) is None else "own-value"))
        sh.outcome((name, rep, idx, _obs_key(rv)))
    sh.count("evaluations", nev)
    sh.nontriv()


def _sub_manager(sh, case):
    """The engines' own sequences with everything switched on: spot statistics and control variates; MCPath.process,
    MLMCPath.process_l0 and MLMCPath.process (fine / coarse pairs).  Per path: one run without control, one run per usable
    control of the kind (failures carry the control's class in the key), one run with all of them together (reported only
    when the single runs are silent: then the interplay of the controls is the cause)."""
    lib = L()
    CV = lib["CV"]
    name, rep = case["config"], case["rep"]
    kind = _purity_configs()[name][0]
    paths, peers = PATH_MENUS[kind], _kind_peers(kind)
    main0 = _mk(name, rep)
    ucls, plabel = type(main0.payoff_underlying).__name__, _payoff_label(name)
    key = f"C17:manager:{plabel}:{ucls}"
    refs, urefs = {}, {}

    def ref(n, idx, notional=1.0):
        if (n, idx, notional) not in refs:
            refs[(n, idx, notional)] = safe(lambda: _direct(_mk(n, rep, notional), *_arrays(kind, rep, paths[idx])))
        return refs[(n, idx, notional)]

    def mref(idx):
        return ref(name, idx, 2.0)  # the product under test has notional 2, the controls notional 1

    def ushape(n):
        if n not in urefs:
            r = safe(lambda: _mk(n, rep).underlying_value(*_arrays(kind, rep, paths[0])))
            urefs[n] = np.shape(r[1]) if r[0] == "ok" else None
        return urefs[n]

    scalar = [n for n in peers if all(ref(n, i)[0] == "ok" and np.ndim(ref(n, i)[1]) == 0 for i in range(len(paths)))]
    controls = [n for n in scalar if _usable_as_control(main0, _mk(n, rep))]
    twins = [n for n in scalar if _is_twin(main0, _mk(n, rep))]
    groups = {}
    for n in controls:  # ControlVariates.process_mlmc stacks the underlying values of the controls: one shape per call
        groups.setdefault(repr(ushape(n)), []).append(n)
    same_len = [i for i in range(len(paths)) if np.asarray(paths[i]).shape == np.asarray(paths[0]).shape]
    nev = 0

    def differs(got, expected, rtol):
        if expected[0] != "ok":
            return True
        if not _finite(expected):
            return not same_obs(("ok", got), expected)
        return np.shape(got) != np.shape(expected[1]) or not arr_close(got, expected[1], rtol, None)

    other_main = next((n for n in peers if type(_mk(n, rep).payoff_underlying) is not type(main0.payoff_underlying)), None)

    def run(route, idxs, names, warm=None):
        """-> list of (failure class, text) for one manager run with the controls `names`; warm: the path manager and the
        ControlVariates object first serve another product (other underlying class) on the last path of the menu"""
        nonlocal nev
        multilevel = route == "MLMCPath.process"
        mgr = lib["MCPath" if route == "MCPath.process" else "MLMCPath"](deterministic_path=_zero_det, activate_spot_underlying=True)
        mgr.update(_rep(rep))
        main = _mk(name, rep)
        products = [_mk(n, rep, 1.0) for n in names]
        cv = CV(products=products, prices=[0.0] * len(products)) if products else lib["NoCV"]()
        if warm is not None:
            first = _mk(warm, rep)
            cv.initialisation(type(first.payoff_underlying))
            tw, dw, jw = _encode(kind, rep, paths[same_len[-1]])
            mgr.set_to_path(lib["SJP"](tw, np.stack([dw, dw]), np.stack([jw, jw])) if multilevel else lib["SJP"](tw, dw, jw))
            safe(lambda: getattr(mgr, route.split(".")[1])(first, cv))
        cv.initialisation(type(main.payoff_underlying))  # Configuration.initialisation(product)
        enc_ = [_encode(kind, rep, paths[i]) for i in idxs]
        t = enc_[0][0]
        d, j = (np.stack([e[1] for e in enc_]), np.stack([e[2] for e in enc_])) if multilevel else (enc_[0][1], enc_[0][2])
        before = (_freeze(t), _freeze(d), _freeze(j))
        mgr.set_to_path(lib["SJP"](t, d, j))
        r = safe(lambda: getattr(mgr, route.split(".")[1])(main, cv))
        nev += len(idxs) * (1 + len(names))
        if r[0] == "raise":
            return [(f"raises:{r[1]}", r[2])]
        bad = []
        payoff = np.asarray(mgr.payoff, dtype=float)
        if route != "MCPath.process":
            payoff = np.moveaxis(payoff, -1, 0)
        spots = np.asarray(mgr.spot_underlying, dtype=float)
        cvs = np.asarray(mgr.payoff_control_variates, dtype=float) if names else None
        if names and cvs.shape != ((len(names), 1, 2) if multilevel else (len(names), 1)):
            bad.append(("control-variates-of-unexpected-shape", f"shape {cvs.shape}"))
            cvs = None
        for lvl, idx in enumerate(idxs):
            tag = ("fine-", "coarse-")[lvl] if multilevel else ""
            got_p = payoff if route == "MCPath.process" else payoff[lvl]
            got_s = spots[..., lvl] if multilevel else spots
            if differs(got_p, mref(idx), 1e-12):
                bad.append((f"{tag}payoff-differs-from-evaluation-on-its-own",
                            f"{tag}payoff {np.asarray(got_p).tolist()}, alone on a copy of the path {_obs_show(mref(idx))}"))
            exp_s = _terminal_spots(kind, paths[idx])
            if differs(got_s, ("ok", exp_s), RTOL):
                bad.append((f"{tag}spot-statistic-differs-from-terminal-spots",
                            f"{tag}spot statistic {np.asarray(got_s).tolist()}, terminal spots of the path {exp_s.tolist()}"))
            if cvs is not None:
                for c, n in enumerate(names):
                    got_c = cvs[c, 0, lvl] if multilevel else cvs[c, 0]
                    if n in twins and differs(got_c, ref(n, idx), 1e-12):
                        main_u = safe(lambda: _mk(name, rep).underlying_value(*_arrays(kind, rep, paths[idx])))
                        if main_u[0] == "ok" and same_obs(("ok", got_c), safe(lambda: _mk(n, rep, 1.0)(main_u[1]))):
                            bad.append(("TWIN", f"{tag}control variate {n} {np.asarray(got_c).tolist()} = its payoff on the MAIN underlying "
                                                f"value {np.asarray(main_u[1], dtype=float).tolist()}; alone on a copy of the path {_obs_show(ref(n, idx))}"))
                            continue
                    if differs(got_c, ref(n, idx), 1e-12):
                        bad.append((f"{tag}control-variate-differs-from-evaluation-on-its-own",
                                    f"{tag}control variate {n} {np.asarray(got_c).tolist()}, alone on a copy of the path {_obs_show(ref(n, idx))}"))
        for which in _changed(before, (t, d, j)):
            bad.append((f"modifies-the-simulated-{which}", f"the {which} array handed to the path manager was changed"))
        sh.outcome((name, rep, route, tuple(idxs), tuple(names), np.round(payoff, 9).tolist()))
        return bad

    def report(route, idxs, with_, bad):
        raw = [paths[i] for i in idxs] if len(idxs) > 1 else paths[idxs[0]]
        for cls_, text in bad:
            if cls_ == "TWIN":
                sh.violation(TWIN_KEY.format(ucls=ucls), f"main {name} rep {rep} {route} on {raw} ({with_.replace(':', ' ')}): {text}", {"path": raw, "main": name})
                continue
            sh.violation(f"{key}:{route}:{with_}:{cls_}:{rep}", f"{name} rep {rep} {route} on {raw} ({with_.replace(':', ' ')}): {text}", {"path": raw})

    def sweep(route, idxs, pools):
        if any(mref(i)[0] != "ok" for i in idxs):
            sh.count("manager_main_raises")
            return
        failed = False
        bad = run(route, idxs, [])
        report(route, idxs, "no-control", bad)
        failed |= bool(bad)
        for n in controls:
            bad = run(route, idxs, [n])
            cu = type(_mk(n, rep).payoff_underlying).__name__
            report(route, idxs, f"control:{_payoff_label(n)}:{cu}", bad)
            failed |= bool(bad)
        for n in twins:  # a control of the main underlying's class with other parameters, alone
            cu = type(_mk(n, rep).payoff_underlying).__name__
            report(route, idxs, f"twin-control:{_payoff_label(n)}:{cu}", run(route, idxs, [n]))
        for names in pools:
            if len(names) < 2:
                continue
            bad = run(route, idxs, names)
            if failed:
                sh.count("all_controls_run_not_reported_single_runs_failed", 1 if bad else 0)
            else:
                report(route, idxs, "all-controls-together", bad)
                if not bad and other_main is not None:
                    report(route, idxs, "manager-and-controls-re-used-after-another-product", run(route, idxs, names, warm=other_main))

    for route in ("MCPath.process", "MLMCPath.process_l0"):
        for idx in range(len(paths)):
            sweep(route, [idx], [controls])
    for i in same_len:
        for k in same_len:
            if i != k:
                sweep("MLMCPath.process", [i, k], [groups[g] for g in sorted(groups)])
    sh.count("evaluations", nev)
    sh.cls(f"manager-{kind}-controls-{'some' if controls else 'none'}")
    sh.nontriv()


# ----------------------------------------------------------------------------------------------------------------------
# array-like terms: every legal form, and the caller going on with its own container
# ----------------------------------------------------------------------------------------------------------------------

PATH_MENUS["spot1row"] = [[p] for p in P1D]  # one asset as a model of dimension 1 hands it over to a multi-asset underlying
PATH_MENUS["jump1row"] = [[j] for j in J1]


def _term_configs():
    """name -> (kind, values, other values, build(PO, UN, container) -> (underlying, payoff), plain reference or None).

    One array-like term per configuration is handed over in the form under test; `other values` are what the caller
    writes into its container afterwards (bump and re-use); integral values also go through the integer forms.
    plain(raw path) -> value for notional 1 in plain Python (class docstrings: performance = S_T / S_0, rainbow = weights
    from the best to the worst performance, indicator = 1 if every spot is above its threshold)."""
    cfg = {}
    r0, dl = [0.02, 0.025, 0.03], [0.5, 0.5, 0.5]
    s3 = [100.0, 80.0, 125.0]

    def last(raw):
        return [float(row[-1]) for row in np.atleast_2d(np.asarray(raw, dtype=float))]

    def rainbow(weights, strike, eps, spots):
        def plain(raw, c):
            perf = sorted((x / s0 for x, s0 in zip(last(raw), spots(c))), reverse=True)
            return max(0.0, eps * (sum(w * x for w, x in zip(weights(c), perf)) - strike))
        return plain

    ones = lambda c: [1.0] * len(c)  # noqa: E731
    cfg["Vanilla.strike:Spot"] = ("spot1", [90.0, 100.0, 110.0], [80.0, 105.0, 120.0],
                                  lambda PO, UN, c: (UN.Spot(), PO.Vanilla(c, PO.PayoffType.CALL)),
                                  lambda raw, c: [max(0.0, last(raw)[0] - k) for k in c])
    cfg["Vanilla.strike[one]:Spot"] = ("spot1", [100.0], [90.0], lambda PO, UN, c: (UN.Spot(), PO.Vanilla(c, PO.PayoffType.PUT)),
                                       lambda raw, c: [max(0.0, k - last(raw)[0]) for k in c])
    cfg["Indicators.thresholds"] = ("spot2", [95.0, 85.0], [60.0, 40.0], lambda PO, UN, c: (UN.Indicators(c), PO.PayoffOnTheFly(_total)),
                                    lambda raw, c: 1.0 if all(x > k for x, k in zip(last(raw), c)) else 0.0)
    cfg["Indicators.thresholds[3d]"] = ("spot3", [94.0, 79.0, 90.0], [60.0, 40.0, 50.0], lambda PO, UN, c: (UN.Indicators(c), PO.PayoffOnTheFly(_total)),
                                        lambda raw, c: 1.0 if all(x > k for x, k in zip(last(raw), c)) else 0.0)
    cfg["Indicators.thresholds[one]"] = ("spot1row", [102.0], [110.0], lambda PO, UN, c: (UN.Indicators(c), PO.PayoffOnTheFly(_total)),
                                         lambda raw, c: 1.0 if all(x > k for x, k in zip(last(raw), c)) else 0.0)
    cfg["Performances.spots"] = ("spot2", [100.0, 80.0], [90.0, 100.0],
                                 lambda PO, UN, c: (UN.Performances(c), PO.Rainbow([0.7, 0.3], 1.0, PO.PayoffType.CALL)),
                                 rainbow(lambda c: [0.7, 0.3], 1.0, +1, lambda c: c))
    cfg["Performances.spots[3d]"] = ("spot3", s3, [125.0, 100.0, 80.0],
                                     lambda PO, UN, c: (UN.Performances(c), PO.Rainbow([0.5, 0.3, 0.2], 1.3, PO.PayoffType.PUT)),
                                     rainbow(lambda c: [0.5, 0.3, 0.2], 1.3, -1, lambda c: c))
    cfg["Performances.spots[one]"] = ("spot1row", [100.0], [80.0],
                                      lambda PO, UN, c: (UN.Performances(c), PO.Rainbow([1.0], 1.0, PO.PayoffType.CALL)),
                                      rainbow(lambda c: [1.0], 1.0, +1, lambda c: c))
    cfg["MaximumOfPerformances.spots"] = ("spot2", [100.0, 80.0], [90.0, 100.0],
                                          lambda PO, UN, c: (UN.MaximumOfPerformances(c), PO.Vanilla(1.0, PO.PayoffType.CALL)),
                                          rainbow(lambda c: [1.0] + [0.0] * (len(c) - 1), 1.0, +1, lambda c: c))
    cfg["MaximumOfPerformances.spots[3d]"] = ("spot3", s3, [125.0, 100.0, 80.0],
                                              lambda PO, UN, c: (UN.MaximumOfPerformances(c), PO.Vanilla(1.0, PO.PayoffType.CALL)),
                                              rainbow(lambda c: [1.0] + [0.0] * (len(c) - 1), 1.0, +1, lambda c: c))
    cfg["MaximumOfPerformances.spots[one]"] = ("spot1row", [100.0], [80.0],
                                               lambda PO, UN, c: (UN.MaximumOfPerformances(c), PO.Vanilla(1.0, PO.PayoffType.PUT)),
                                               rainbow(lambda c: [1.0], 1.0, -1, lambda c: c))
    cfg["Rainbow.weights:Spot[2d]"] = ("spot2", [0.6, 0.4], [0.1, 0.9], lambda PO, UN, c: (UN.Spot(), PO.Rainbow(c, 101.0, PO.PayoffType.PUT)),
                                       rainbow(lambda c: c, 101.0, -1, ones))
    cfg["Rainbow.weights[best-of]:Performances[3d]"] = ("spot3", [1.0, 0.0, 0.0], [0.0, 0.0, 1.0],
                                                        lambda PO, UN, c: (UN.Performances(list(s3)), PO.Rainbow(c, 1.0, PO.PayoffType.CALL)),
                                                        rainbow(lambda c: c, 1.0, +1, lambda c: s3))
    cfg["Rainbow.weights[one]:Spot[1 asset]"] = ("spot1row", [1.0], [2.0], lambda PO, UN, c: (UN.Spot(), PO.Rainbow(c, 100.0, PO.PayoffType.CALL)),
                                                 rainbow(lambda c: c, 100.0, +1, ones))
    # interest-rate payoffs: today's rates and the accruals (the library's scripts hand over ndarrays; sequences where the
    # constructor accepts them)
    cfg["Bond.underlying_rates"] = ("rates", r0, [0.03, 0.01, 0.02], lambda PO, UN, c: (UN.Libors(), PO.Bond(c, np.array(dl))), None)
    cfg["Bond.deltas"] = ("rates", dl, [0.25, 1.0, 0.5], lambda PO, UN, c: (UN.Libors(), PO.Bond(np.array(r0), c)), None)
    cfg["Bond.deltas[annual]"] = ("rates", [1.0, 1.0, 1.0], [2.0, 1.0, 3.0], lambda PO, UN, c: (UN.Libors(), PO.Bond(np.array(r0), c)), None)
    cfg["Cap.underlying_rates"] = ("rates", r0, [0.03, 0.01, 0.02], lambda PO, UN, c: (UN.Libors(), PO.Cap(c, np.array(dl), 0.02)), None)
    cfg["Cap.deltas"] = ("rates", dl, [0.25, 1.0, 0.5], lambda PO, UN, c: (UN.Libors(), PO.Cap(np.array(r0), c, 0.02)), None)
    cfg["Swaption.underlying_rates"] = ("rates", r0, [0.03, 0.01, 0.02],
                                        lambda PO, UN, c: (UN.Libors(), PO.Swaption(c, np.array(dl), 0.02, PO.SwaptionType.PAYER)), None)
    cfg["Swaption.deltas"] = ("rates", dl, [0.25, 1.0, 0.5],
                              lambda PO, UN, c: (UN.Libors(), PO.Swaption(np.array(r0), c, 0.02, PO.SwaptionType.PAYER)), None)
    cfg["Ratchet.deltas"] = ("rates", dl, [0.25, 1.0, 0.5], lambda PO, UN, c: (UN.Libors(), PO.Ratchet(c, 1.0, 0.001, 0.002, 0.001, 0.01)), None)
    cfg["Ratchet.deltas[annual]"] = ("rates", [1.0, 1.0, 1.0], [2.0, 1.0, 3.0],
                                     lambda PO, UN, c: (UN.Libors(), PO.Ratchet(c, 1.0, 0.001, 0.002, 0.001, 0.01)), None)
    # default levels
    lv = [-0.35, -0.35, -0.05]
    for k in (1, 2, 3):
        cfg[f"NthDefaultTimes.default_levels[{k}]"] = ("jump3", lv, [-0.05, -0.5, -0.35],
                                                       lambda PO, UN, c, k=k: (UN.NthDefaultTimes(c, k), PO.Forward(0.0)), None)
        cfg[f"DefaultTimeNthUnderlying.default_levels[{k}]"] = ("jump3", [-0.05, -0.05, -0.35], [-0.5, -0.5, -0.05],
                                                                lambda PO, UN, c, k=k: (UN.DefaultTimeNthUnderlying(c, k), PO.Forward(0.0)), None)
    cfg["NthDefaultTimes.default_levels[one]"] = ("jump1row", [-0.35], [-0.05], lambda PO, UN, c: (UN.NthDefaultTimes(c, 1), PO.Forward(0.0)), None)
    cfg["_DefaultTimes.default_levels"] = ("jump3", lv, [-0.05, -0.5, -0.35],
                                           lambda PO, UN, c: (getattr(UN, "_DefaultTimes")(c), PO.Forward(0.0)), None)
    return cfg


def _term_forms(values):
    """label -> maker of the caller's container.  Integer forms exist for integral values only."""
    forms = {
        "list": lambda: [float(v) for v in values],
        "tuple": lambda: tuple(float(v) for v in values),
        "list-of-numpy-floats": lambda: [np.float64(v) for v in values],
        "float-array": lambda: np.array(values, dtype=float),
    }
    if all(float(v) == int(v) for v in values):
        forms["list-of-ints"] = lambda: [int(v) for v in values]
        forms["tuple-of-ints"] = lambda: tuple(int(v) for v in values)
        forms["int-array"] = lambda: np.array([int(v) for v in values], dtype=np.int64)
    return forms


# forms the constructors of the unchanged tree do not accept (outside the alphabet: counted, never judged)
#   Bond / Cap read underlying_rates.size: an ndarray is required there
TERM_FORMS_REJECTED = {
    (c, f) for c in ("Bond.underlying_rates", "Cap.underlying_rates") for f in ("list", "tuple", "list-of-numpy-floats", "list-of-ints", "tuple-of-ints")
}


def _overwrite(container, other):
    """the caller re-uses its container for the next product: new values written IN PLACE.  -> False when the container is
    immutable (nothing the caller could do to it)."""
    if isinstance(container, np.ndarray):
        container[...] = np.asarray(other).astype(container.dtype)
        return True
    if isinstance(container, list):
        kind = type(container[0])
        for i, v in enumerate(other):
            container[i] = kind(v)
        return True
    return False


def _sub_terms(sh, case):
    """For one array-like term x representation x form of the container: (1) the constructor and the evaluations leave the
    caller's container alone; (2) the product is valued like the product built from a list of floats (and like the plain
    reference where there is one); (3) shallow / deep / dill copies are valued like it; (4) the caller overwrites its
    container in place: the product and its copies are valued as before, in the representation in use and after a switch
    to the other one."""
    lib = L()
    PO, UN, Product = lib["PO"], lib["UN"], lib["Product"]
    name, rep = case["config"], case["rep"]
    other_rep = "log" if rep == "id" else "id"
    kind, values, other, build, plain = _term_configs()[name]
    if name.startswith("_") and getattr(UN, name.split(".")[0], None) is None:
        sh.count("private_base_class_absent_not_checked")
        sh.nontriv()
        return
    paths = PATH_MENUS[kind]
    key = f"C17:terms:{name}"
    nev = 0

    def make(container, r):
        u, p = build(PO, UN, container)
        pr = Product(payoff_underlying=u, payoff=p, maturity=1.0, notional=2.0)
        pr.update(_rep(r))
        return pr

    def value(pr, r, idx):
        return safe(lambda: _direct(pr, *_arrays(kind, r, paths[idx])))

    base = name.split("[")[0].split(":")[0]
    # the usual form: a list of floats (an ndarray where the constructor takes nothing else), never touched afterwards
    usual_form = (lambda vs: np.array(vs, dtype=float)) if (base, "list") in TERM_FORMS_REJECTED else (lambda vs: [float(v) for v in vs])
    usual = {r: [value(make(usual_form(values), r), r, i) for i in range(len(paths))] for r in REPS}
    moved = {r: [value(make(usual_form(other), r), r, i) for i in range(len(paths))] for r in REPS}
    nev += 4 * len(paths)
    if all(same_obs(a, b, 0.0) for a, b in zip(usual[rep], moved[rep])):
        sh.count("terms_other_values_invisible_on_the_path_menu")
    else:
        sh.cls("terms-other-values-visible")
    for idx, raw in enumerate(paths):
        if usual["id"][idx][0] == "raise" or usual["log"][idx][0] == "raise":
            which = usual["id"][idx] if usual["id"][idx][0] == "raise" else usual["log"][idx]
            sh.violation(f"{key}:raises:{which[1]}:list", f"{name} built from a list of floats raises on path {raw}: {which[2]}", {"path": raw})
        elif plain is not None:
            want = 2.0 * np.asarray(plain(raw, [float(v) for v in values]), dtype=float)
            for r in REPS:
                nev += 1
                if not arr_close(usual[r][idx][1], want, RTOL, None) or np.shape(usual[r][idx][1]) != np.shape(want):
                    sh.violation(f"{key}:differs-from-plain-reference:{r}",
                                 f"{name} (terms {values}, notional 2, rep {r}) on path {raw}: {_obs_show(usual[r][idx])}, plain reference {want.tolist()}", {"path": raw})
    if any(o[0] == "raise" for r in REPS for o in usual[r]):
        sh.nontriv()
        return

    for form, maker in _term_forms(values).items():
        if (base, form) in TERM_FORMS_REJECTED:
            sh.count("term_forms_rejected_by_the_constructor_not_judged")
            continue
        container = maker()
        before = _freeze(container)
        built = safe(lambda: make(container, rep))
        if built[0] == "raise":
            sh.violation(f"{key}:raises:{built[1]}:{form}", f"{name}: the constructor / update({rep}) raises {built[1]} for the terms handed over as {form}: {built[2]}", None)
            continue
        prod = built[1]
        if _freeze(container) != before:
            sh.violation(f"{key}:constructor-modifies-the-callers-container:{form}",
                         f"{name}: the caller's {form} {before[1:] if before[0] != 'nd' else values} is {container!r} after the construction", None)
        first = [value(prod, rep, i) for i in range(len(paths))]
        nev += len(paths)
        bad_form = [i for i in range(len(paths)) if not same_obs(first[i], usual[rep][i])]
        if bad_form:
            i = bad_form[0]
            sh.violation(f"{key}:valued-differently-from-the-list-of-floats:{form}:{rep}",
                         f"{name} with terms {values} handed over as {form} (rep {rep}) on path {paths[i]}: {_obs_show(first[i])}; "
                         f"handed over as a list of floats: {_obs_show(usual[rep][i])}", {"path": paths[i]})
        if _freeze(container) != before:
            sh.violation(f"{key}:evaluation-modifies-the-callers-container:{form}:{rep}",
                         f"{name}: the caller's {form} is {container!r} after {len(paths)} evaluations", None)
            container = maker()
            prod = make(container, rep)
        copies = {}
        for how in ("shallowcopy", "copy", "dillcopy"):
            c = safe(lambda: _COPIERS[how](prod))
            if c[0] == "raise":
                sh.violation(f"{key}:{how}-raises:{c[1]}:{form}", f"{name} ({form}): {_EVENT_WORDS[how]} raises {c[1]}: {c[2]}", None)
            else:
                copies[how] = c[1]
        wrote = _overwrite(container, other)
        sh.cls("terms-container-" + ("overwritten-in-place" if wrote else "immutable"))
        if not wrote:
            sh.count("immutable_containers_not_overwritten")
        after = [value(prod, rep, i) for i in range(len(paths))]
        nev += len(paths)
        bad = [i for i in range(len(paths)) if not same_obs(after[i], first[i], 0.0)]
        words = f"the caller wrote {other} into its {form}" if wrote else f"the caller kept its {form}"
        if bad:
            i = bad[0]
            follows = all(same_obs(after[j], moved[rep][j]) for j in range(len(paths)))
            cls_ = ("value-follows-the-callers-container-after-construction" if wrote and follows else
                    "value-mixes-the-terms-at-construction-with-the-callers-later-values" if wrote else "second-evaluation-differs")
            sh.violation(f"{key}:{cls_}:{form}:{rep}",
                         f"{name} built with terms {values} ({form}, rep {rep}); then {words}; path {paths[i]} is now valued {_obs_show(after[i])}, "
                         f"before {_obs_show(first[i])} (a product built with {other}: {_obs_show(moved[rep][i])})",
                         {"path": paths[i], "terms": values, "written": other})
        for how, c in copies.items():
            got = [value(c, rep, i) for i in range(len(paths))]
            nev += len(paths)
            want = after if how == "shallowcopy" else first  # copy.copy shares the term arrays with the original
            badc = [i for i in range(len(paths)) if not same_obs(got[i], want[i], 0.0)]
            if badc and not (how == "shallowcopy" and bad):
                i = badc[0]
                sh.violation(f"{key}:{how}-valued-differently-from-the-original:{form}:{rep}",
                             f"{name} ({form}, rep {rep}): {_EVENT_WORDS[how]} taken before {words} values path {paths[i]} {_obs_show(got[i])}; "
                             f"the original gave {_obs_show(want[i])}", {"path": paths[i]})
        # the same object switched to the other representation (sticky-switch histories are the purity search's business;
        # here: both representations use the terms of the construction)
        sw = safe(lambda: prod.update(_rep(other_rep)))
        switched = [value(prod, other_rep, i) for i in range(len(paths))]
        nev += len(paths)
        bads = [i for i in range(len(paths)) if not same_obs(switched[i], usual[other_rep][i])]
        if sw[0] == "raise":
            sh.violation(f"{key}:update-raises:{sw[1]}:{form}", f"{name} ({form}): update({other_rep}) raises: {sw[2]}", None)
        elif bads and not bad and not bad_form:  # otherwise already reported above for this form
            i = bads[0]
            sh.violation(f"{key}:representations-disagree-after-the-caller-went-on-with-its-container:{form}:{rep}-then-{other_rep}",
                         f"{name} built with terms {values} ({form}) in rep {rep}; {words}; after update({other_rep}) the spot path {paths[i]} "
                         f"is valued {_obs_show(switched[i])}; rep {rep} gave {_obs_show(after[i])}, a fresh product in rep {other_rep} "
                         f"{_obs_show(usual[other_rep][i])}", {"path": paths[i], "terms": values, "written": other})
        sh.outcome((name, rep, form, tuple(_obs_key(o)[0] for o in first), _obs_key(first[0])))
    sh.count("evaluations", nev)
    sh.nontriv()


# ----------------------------------------------------------------------------------------------------------------------
# scalar terms: every legal form, and the setter route
# ----------------------------------------------------------------------------------------------------------------------

def _scalar_table():
    """label -> (kind, usual value, build(PO, UN, x) -> (underlying, payoff, notional), public attribute holding the term
    (("payoff" | "product", name)) or None).  The usual form is a Python float (a Python int for indices)."""
    r0, dl = np.array([0.02, 0.025, 0.03]), np.array([0.5, 0.5, 0.5])
    C, P = "CALL", "PUT"
    t = {}

    def pt(PO, n):
        return getattr(PO.PayoffType, n)

    t["Forward.strike"] = ("spot1", 100.0, lambda PO, UN, x: (UN.Spot(), PO.Forward(x), 1.0), ("payoff", "strike"))
    t["Vanilla.strike"] = ("spot1", 100.0, lambda PO, UN, x: (UN.Spot(), PO.Vanilla(x, pt(PO, C)), 1.0), ("payoff", "strike"))
    t["Digital.strike"] = ("spot1", 104.0, lambda PO, UN, x: (UN.Spot(), PO.Digital(x, pt(PO, P)), 1.0), ("payoff", "strike"))
    t["CallSpread.strike1"] = ("spot1", 90.0, lambda PO, UN, x: (UN.Spot(), PO.CallSpread(x, 106.0), 1.0), ("payoff", "strike1"))
    t["CallSpread.strike2"] = ("spot1", 106.0, lambda PO, UN, x: (UN.Spot(), PO.CallSpread(90.0, x), 1.0), ("payoff", "strike2"))
    t["Butterfly.strike2"] = ("spot1", 100.0, lambda PO, UN, x: (UN.Spot(), PO.Butterfly(90.0, x, 110.0), 1.0), None)
    for bt, level in (("UP_AND_IN", 110.0), ("UP_AND_OUT", 108.0), ("DOWN_AND_IN", 90.0), ("DOWN_AND_OUT", 95.0)):
        t[f"Barrier[{bt}].barrier"] = ("spot1", level, lambda PO, UN, x, bt=bt: (UN.Spot(), PO.Barrier(100.0, pt(PO, C), getattr(PO.BarrierType, bt), x), 1.0),
                                       ("payoff", "barrier"))
    t["Barrier.strike"] = ("spot1", 100.0, lambda PO, UN, x: (UN.Spot(), PO.Barrier(x, pt(PO, P), PO.BarrierType.DOWN_AND_IN, 90.0), 1.0), None)
    t["FixedCoupon.coupon"] = ("spot1", 3.0, lambda PO, UN, x: (UN.Spot(), PO.FixedCoupon(x), 1.0), ("payoff", "coupon"))
    t["Product.notional"] = ("spot1", 2.0, lambda PO, UN, x: (UN.Spot(), PO.Vanilla(100.0, pt(PO, C)), x), ("product", "notional"))
    t["Product.notional[vector payoff]"] = ("spot1", -3.0, lambda PO, UN, x: (UN.Spot(), PO.Vanilla([90.0, 100.0, 110.0], pt(PO, P)), x), ("product", "notional"))
    t["Rainbow.strike"] = ("spot2", 101.0, lambda PO, UN, x: (UN.Spot(), PO.Rainbow([0.6, 0.4], x, pt(PO, P)), 1.0), ("payoff", "strike"))
    t["DefaultTime.default_level"] = ("jump1", -0.35, lambda PO, UN, x: (UN.DefaultTime(x), PO.Forward(0.0), 1.0), None)
    t["DefaultTime.default_level[integral]"] = ("jump1big", -1.0, lambda PO, UN, x: (UN.DefaultTime(x), PO.Forward(0.0), 1.0), None)
    t["NthSpot.index"] = ("spot3", 2, lambda PO, UN, x: (UN.NthSpot(x), PO.Forward(80.0), 1.0), None)
    t["NthDefaultTimes.index"] = ("jump3", 2, lambda PO, UN, x: (UN.NthDefaultTimes([-0.35, -0.35, -0.05], x), PO.Forward(0.0), 1.0), None)
    t["DefaultTimeNthUnderlying.underlying_index"] = ("jump3", 3, lambda PO, UN, x: (UN.DefaultTimeNthUnderlying([-0.05, -0.05, -0.35], x), PO.Forward(0.0), 1.0), None)
    t["Cap.strike"] = ("rates", 0.02, lambda PO, UN, x: (UN.Libors(), PO.Cap(r0, dl, x), 1.0), ("payoff", "strike"))
    t["Swaption.strike"] = ("rates", 0.02, lambda PO, UN, x: (UN.Libors(), PO.Swaption(r0, dl, x, PO.SwaptionType.PAYER), 1.0), ("payoff", "strike"))
    t["Ratchet.funding_gearing"] = ("rates", 1.0, lambda PO, UN, x: (UN.Libors(), PO.Ratchet(dl, x, 0.001, 0.002, 0.001, 0.01), 1.0), ("payoff", "gearing"))
    t["Ratchet.first_rate"] = ("rates", 0.01, lambda PO, UN, x: (UN.Libors(), PO.Ratchet(dl, 1.0, 0.001, 0.002, 0.001, x), 1.0), ("payoff", "first_rate"))
    t["CDS.spread"] = ("jump1", 0.01, lambda PO, UN, x: (UN.DefaultTime(-0.35), PO.CDS(0.4, x, 1.0, _df), 1.0), ("payoff", "spread"))
    t["CDS.recovery_rate"] = ("jump1", 0.4, lambda PO, UN, x: (UN.DefaultTime(-0.35), PO.CDS(x, 0.01, 1.0, _df), 1.0), ("payoff", "recovery_rate"))
    t["CDS.maturity"] = ("jump1", 1.0, lambda PO, UN, x: (UN.DefaultTime(-0.35), PO.CDS(0.4, 0.01, x, _df), 1.0), None)
    return t


PATH_MENUS["jump1big"] = [_cum(i) for i in ([0.0, 0.0], [-1.6, 0.0], [-0.4, -1.6], [0.2, -0.4, -2.0])]


def _scalar_forms(x):
    if isinstance(x, int):
        return {"numpy-int64": np.int64(x), "numpy-int32": np.int32(x), "0-d-int-array": np.array(x)}
    forms = {"numpy-float64": np.float64(x), "0-d-array": np.array(x)}
    if float(x) == int(x):
        forms.update({"int": int(x), "numpy-int64": np.int64(int(x)), "0-d-int-array": np.array(int(x))})
    return forms


# rejected by the unchanged tree's constructors (Vanilla takes len() of any strike that is not a numbers.Real): outside
SCALAR_FORMS_REJECTED = {(c, f) for c in ("Vanilla.strike", "Barrier.strike") for f in ("0-d-array", "0-d-int-array")}


def _sub_scalars(sh, case):
    """Every scalar term of the payoff / underlying / product constructors in each legal form (Python int where a float is
    usual, numpy scalars, 0-d arrays) and assigned to its public attribute after construction with another value (followed by
    update(representation), as Engine.initialisation does before pricing): the values on the path menu of the kind equal
    those of the usual form."""
    lib = L()
    PO, UN, Product = lib["PO"], lib["UN"], lib["Product"]
    rep = case["rep"]
    nev = 0
    for label, (kind, x, build, attr) in sorted(_scalar_table().items()):
        paths = PATH_MENUS[kind]

        def make(v):
            u, p, n = build(PO, UN, v)
            pr = Product(payoff_underlying=u, payoff=p, maturity=1.0, notional=n)
            pr.update(_rep(rep))
            return pr

        def values(pr):
            return [safe(lambda i=i: _direct(pr, *_arrays(kind, rep, paths[i]))) for i in range(len(paths))]

        usual = values(make(x))
        nev += len(paths)
        sh.outcome((label, rep, tuple(map(_obs_key, usual)).__repr__()))
        if any(o[0] == "raise" for o in usual):
            o = [o for o in usual if o[0] == "raise"][0]
            sh.violation(f"C17:scalars:{label}:raises:{o[1]}:usual-form:{rep}", f"{label} = {x!r} (rep {rep}): {o[2]}", None)
            continue
        for form, v in _scalar_forms(x).items():
            if (label.split("[")[0], form) in SCALAR_FORMS_REJECTED:
                sh.count("scalar_forms_rejected_by_the_constructor_not_judged")
                continue
            got = safe(lambda: values(make(v)))
            nev += len(paths)
            got = got[1] if got[0] == "ok" else [got] * len(paths)
            bad = [i for i in range(len(paths)) if not same_obs(got[i], usual[i])]
            if bad:
                i = bad[0]
                cls_ = f"raises:{got[i][1]}" if got[i][0] == "raise" else "valued-differently-from-the-usual-form"
                sh.violation(f"C17:scalars:{label}:{cls_}:{form}:{rep}",
                             f"{label} = {x!r} handed over as {form} (rep {rep}) on path {paths[i]}: {_obs_show(got[i])}; as {type(x).__name__}: {_obs_show(usual[i])}",
                             {"path": paths[i]})
            sh.cls(f"scalar-form-{form}")
        if attr is not None:
            # setter route: built with another value, valued once, the public attribute re-assigned, update(rep), valued
            elsewhere = (0.5 * x + 0.25 * abs(x) + 0.001) if label != "CallSpread.strike2" else 2.0 * x
            pr = safe(lambda: make(elsewhere))
            if pr[0] == "raise":
                sh.count("setter_route_other_value_rejected")
                continue
            pr = pr[1]
            values(pr)
            holder = pr if attr[0] == "product" else pr.payoff
            if not hasattr(holder, attr[1]):
                sh.count("setter_route_public_attribute_absent_not_judged")  # a renamed attribute is not the property's business
                continue
            setattr(holder, attr[1], x)
            pr.update(_rep(rep))
            got = values(pr)
            nev += 2 * len(paths)
            bad = [i for i in range(len(paths)) if not same_obs(got[i], usual[i])]
            if bad:
                i = bad[0]
                sh.violation(f"C17:scalars:{label}:re-assigned-attribute-valued-differently-from-constructed:{rep}",
                             f"{label}: product built with {elsewhere!r}, valued, then {attr[0]}.{attr[1]} = {x!r} and update({rep}); path {paths[i]} is valued "
                             f"{_obs_show(got[i])}; built with {x!r}: {_obs_show(usual[i])}", {"path": paths[i]})
            sh.cls("scalar-setter-route")
    sh.count("evaluations", nev)
    sh.nontriv()
