"""C18 - Fourier and closed-form pricers are mutually consistent and arbitrage-free.

Mode: lattice sweep (complete enumeration of the stated finite product, nothing sampled).

Space
-----
 sub = "model"       exponential models x maturities T in {1/12, 0.5, 1, 2} x a strike lattice of 41 points, uniform in
                     log-moneyness k = log(K/S0) on [-0.6 h, +0.6 h], h = half-width of the COS truncation range [a,b] of that
                     (model, T) - i.e. every strike leaves at least 0.4 h between x = log(S0/K) and either end of the range.
                     Models (the documented box): Black-Scholes sigma in [0.1, 0.5]; HEM / Merton / VG parameter sets of
                     DESIGN section 5 (= mc/alphabets.py, written out with explicit numbers so that a case is self-contained);
                     CGMY y in {-0.5, 0, 0.5, 1, 1.2, 1.5} x (c,g,m) in {(1,15,20), (0.1,5,7), (0.5,6,6)}; (r,d) in
                     {(0.02,0), (0.05,0.02)}; spot 100 (thorough: also spots 1 and 2500, rates (0,0) and (0.1,0), intermediate
                     y in {0.25, 0.75, 1.35}, nine sigma values, and three more strike lattices shifted by 1/4, 1/2, 3/4 of a step).  Pricers with their default constants
                     (COS n = 10000, L = 10; FFT alpha = 1.5, eta = 0.25, N = 2^18).
                     Vector strikes (the whole lattice in one call) and scalar strikes (every 4th lattice point; every point
                     on the unshifted lattice of the thorough tier) through call / put / digital / forward, and through
                     `price(Product)` and `butterfly` at three strikes; one Python-int strike; FFT: 3 resp. 5 scalar strikes, a
                     2^18 transform each.
                     Further "model" cases on one parameter set per branch-selecting class (BS, HEM, Merton, VG, CGMY y in
                     {-0.5, 0.5, 1.2}; thorough: every y), first pair of rates:
                       * edges: (r, d) = (0.01, 0.04) (dividend yield above the rate), T = 5 and T = 1/52; spot 2500 (BS) and
                         spot 1 (HEM);
                       * construction route "reinit" (mc.alphabets.with_reinit: parameter object of a donor re-assigned attribute
                         by attribute + initialisation() + model constructor, as model/utils.py calibrates) at T = 0.5
                         (thorough: all maturities): all relations below AND equality with the directly constructed model;
                       * COS constants (n, L) in {(2000, 20) - the library's own second set -, (4000, 8)} at T in {1/12, 1}
                         (thorough: all maturities); every budget is evaluated for the constants and the range of that pricer;
                       * Carr-Madan damping `alpha` re-assigned to 1.25 / 2.0 on the constructed FFT pricer (BS, HEM, CGMY 0.5;
                         thorough: all) at T = 1; the FFT budget is evaluated for that alpha.
                     Model-level routes of exponentialoflevymodel.py: `model.cdf(T, K)` (COS with n = 2000, L = 20) and
                     `model.density(T)(s)` (a default COS pricer per call) in every "model" case with default constants.
 sub = "vg-cgmy"     every VG parameter set x (r,d) x T against CGMY(c = 1/nu, g = 1/eta_m, m = 1/eta_p, y = 0), the
                     parametrisation used by rpylib/tests/numerical/test_cos_method.py.
 sub = "cf-degenerate"  CFBlackScholes in its degenerate branch (sigma < 1e-8 or T < 1e-8 or spot < 1e-8): scalar strikes on a
                     9-point lattice including K = F exactly; and AT the thresholds (sigma = 1e-8, T = 1e-8, both) and just above
                     (sigma = 1.0000001e-8), where the regular formula answers: parity, forward, intrinsic <= price <= intrinsic +
                     df F sigma sqrt(T) / sqrt(2 pi) (the at-the-money time value bounds every time value), digital = indicator.
 sub = "forms"       BS / HEM / CGMY 0.5 (thorough: + Merton, VG, CGMY 1.2, BS spot 2500; three maturities) at T = 1, COS constants default
                     (and (4096, 10) on BS; thorough: on all, and (1000, 12) with twice the length), every public entry point
                     (COS put / call / digital / forward / cdf / price(call product) / density / density_log, FFT call / put,
                     model.cdf / model.density, closed form call / put / digital / forward):
                     A. one LONG strike vector of ceil(1.07 * 2^22 / n) + 3 strikes (n = number of COS terms behind the entry:
                        452 for n = 10000, 1099 for 4096, 2247 for model.cdf; thorough also 2^23 / 1000) against element-wise
                        scalar calls on every 7th, the first 3 and the last 12 strikes (FFT: 4 strikes);
                     B. argument forms of the strikes {int-dtype array, list, tuple, shape (1,n), empty, Python int, numpy int,
                        numpy float, 0-d array, one-element array}, of the maturity {Python int, numpy float, 0-d array} and
                        keywords, against the usual form; forms the unchanged tree rejects with TypeError (FORMS_REJECTED: lists /
                        tuples where the entry divides by the strikes) are counted, not judged;
                     C. the caller's array compared before / after the call, then modified and the query repeated;
                     D. copy.copy / copy.deepcopy / dill round trip of each pricer and of the model (new pricer on the copy):
                        same answers bit for bit; deep copies keep their answers when the ORIGINAL model's d is re-assigned.
                     E. strike vectors in every order: a ladder of 9 strikes (S0 exp(+-0.3 h)) handed to every entry point above
                        {increasing, decreasing, from the money outwards, a fixed shuffle, with a strike given twice apart and
                        twice in a row, two decreasing strikes, one element} as a float array, and {decreasing, shuffle, repeated}
                        also as list and tuple (where the tree accepts them): every entry of the result against the SCALAR call
                        at the strike given at that position; result of shape (len,); the caller's array unchanged.
                     In every "model" case, additionally, the 41-point lattice in DECREASING order through COS put / call /
                     digital / forward / cdf, FFT call and the closed form call / put / digital: equal to the increasing-lattice
                     answers reversed (1e-12 max(K,S0,F); 1e-12 / 1e-13 for probabilities), shape (41,), array unchanged.
 sub = "pricer-history"  ONE pricer object (COS, FFT, closed form) of BS / HEM / CGMY 0.5 (thorough: + Merton, VG, CGMY 1.2) taken
                     through ordered sequences of steps.  Queries: call / put with vector and scalar strikes at T in {0.5, 1, 2};
                     COS also digital, cdf, density at two point sets of equal length at one maturity, density_log, price(call
                     product), price(put product), butterfly, forward; closed form also digital, forward, butterfly.
                     Operations: `other` (a second pricer of the same class on Black-Scholes(0.35, spot 80, other rates), with the
                     same and with the default constants, asked at the same maturities - its own answers are compared with the
                     closed form), `copy` (the pricer replaced by its deepcopy), `set-r` / `set-d` (public attribute of the pricer's
                     model re-assigned; not `set-r` for the FFT pricer), `model-routes` (COS: model.cdf and model.density of the
                     pricer's model), `set-alpha` (FFT: damping re-assigned).  Patterns, one case each: "pairs" = [q], [s, q];
                     "qoq" = [q, o, q']; "ooq" = [o, o', q]; "qqq" = three core queries (FFT: thorough only).  COS "qoq" / "ooq"
                     run with the non-default constants n = 1000, L = 12.

Oracle (tau = a-priori error budget of mc/c18_util.py, evaluated per (model, T, strike) from the characteristic function,
the truncation range and the pricer constants only - see that module's docstring for the derivation and the two structural
assumptions; it is an evaluated bound, not a proof over the parameter box)
------
 parity        COS: call - put = df (S0 e^{(r-d)T} - K) = forward(K)  to 1e-11 max(K,S0)  (identity of the implementation;
               the forward is recomputed by the oracle from r, d, not read from the model's moments); same for FFT put/call.
 bounds        max(0, df(F-K)) - tau <= call <= df F + tau;  max(0, df(K-F)) - tau <= put <= df K + tau
 monotone      call(K_i) - call(K_{i+1}) >= -(tau_i + tau_{i+1})
 convex        butterfly on three neighbouring lattice strikes (unequal spacing weights) >= -(weighted tau's)
 digital       -tau_d <= digital <= df + tau_d; decreasing in K up to tau_d's; bracket of the call slope:
               digital(K_{i+1}) - s <= (call_i - call_{i+1})/(K_{i+1}-K_i) <= digital(K_i) + s   (both are expectations under
               one law: -dC/dK = df P(S_T > K))
 density       s*density(s) >= -tau_den on 257 / 513 points equispaced in log s over the truncation range; its trapezoidal
               integral over the range = 1 up to the aliased terms (exact identity of the cosine expansion: every term
               k >= 1 integrates to zero over [a,b]);  density_log(u) = density(e^u) e^u
 cdf           cdf(x) = 1 - digital(x)/df  (cdf is documented as P(S_t < x), digital as the *discounted* P(S_T > K));
               reported under its own key: the statement names the digital and the density, `cdf` is only in observe_at
 cross         BS: |COS - CF| <= tau_cos, |FFT - CF| <= tau_fft, |COS digital - CF digital| <= tau_d, CF parity;
               all models: |COS - FFT| <= tau_cos + tau_fft;  VG vs CGMY: characteristic functions equal to 1e-11 at 8 real
               and 2 imaginary arguments, prices within tau_vg + tau_cgmy
 scalar        scalar-strike result = the vector entry to 1e-12 max(K,S0) (shape (1,) or 0-d accepted); CFBlackScholes put and
               digital likewise; int strike = float strike
 model routes  |model.cdf - (1 - digital/df)| <= (tau_d + tau_d(n=2000, L=20))/df, in [0,1] and non-decreasing up to that budget;
               model.density(T)(s) = density of a default COS pricer (1e-9 relative); COS density asked twice = itself
 route         "reinit" twin: put and digital equal those of the directly constructed model (1e-11 max(K,S0,F) / 1e-11)
 forms         see sub = "forms": 1e-12 max(K,S0) for prices, 1e-12 for probabilities and s * density; copies bit for bit
 order         result[i] = the scalar call at strikes[i] for every order / container of sub = "forms" E (same tolerances); the
               decreasing lattice of every "model" case = the increasing one reversed
 history       the last query of every sequence = the answer of a fresh pricer on a fresh model (bit for bit; 1e-12 max(K,S0)
               after set-r / set-d, compared with a fresh model built with the new rates); the second pricer of `other`
               within 1e-7 (COS) / 1e-5 (FFT) of the Black-Scholes closed form (a-priori budgets there: < 1e-8 / 2e-6)

A strike enters an assertion only if its budget is below TOL_REL * max(K, S0) = 1e-3 max(K,S0) (prices) or 1e-3 (digital):
"the documented box where the truncation error is below tolerance".  Strikes / models beyond it are *counted*
(`outside_box:*`) and not asserted: compound-Poisson models without diffusion (HEM/Merton with sigma = 0, CGMY with y < 0)
have an atom, hence no density and a digital series that does not converge absolutely (density and digital sub-checks are
skipped there, prices are still checked at their honest, larger tau); VG with 2T/nu <= 1 and CGMY y = 0 with 2cT <= 1 have
an unbounded density (density positivity skipped).

Exclusions (statement silent): strikes outside the lattice; (n, L) other than the three sets above; FFT `eta` / `N` re-assigned
(the pricer derives its log-strike grid from them once, in the constructor; there are no constructor arguments); CFBlackScholes
call/put with array strikes in the degenerate branch (documented as float) and digital with a scalar strike there;
CFVarianceGammaModel.call (raises NotImplementedError by design); non-exponential models; r < 0; strikes as Python lists /
tuples where the unchanged tree raises TypeError (FORMS_REJECTED; documented as vectors); float32 strike arrays (answered in
float32 arithmetic, 1e-6 off: no statement about the precision of the input); column vectors of shape (n,1) (COS put / call /
density broadcast them against the (n,) result into n x n values: the docstrings say "strike vector").  Histories NOT enumerated because the objects are not built
for them (observed on the unchanged tree, see the report): `model.spot` re-assigned (the model keeps log_spot from its
constructor, so the model itself is inconsistent: COS prices follow the new spot, the COS density and the FFT pricer the old
one); `model.r` re-assigned under an existing FFTPricer (it copies r in its constructor; the library never does this).
`Product.notional` is ignored by `price(product)` (statement silent).  std_moment with a list (stddev / skewness / kurtosis
of the model) is not in the statement.
"""
from __future__ import annotations

import math
import warnings

import numpy as np

from mc import alphabets as A
from mc import core
from mc.c18_util import Budget

# Performance only: the pricers allocate and free 5-40 MB temporaries thousands of times; with glibc's defaults every one is an
# mmap/munmap pair and the run spends 2/3 of its time in page faults.  Keep large blocks on the heap and do not trim it.
try:  # pragma: no cover
    import ctypes

    _libc = ctypes.CDLL("libc.so.6")
    _libc.mallopt(-3, 1 << 30)  # M_MMAP_THRESHOLD
    _libc.mallopt(-1, 1 << 31 - 1)  # M_TRIM_THRESHOLD
except Exception:  # noqa: BLE001
    pass

PID = "C18"
LEVEL = "exploration"
RULE = (
    "complete product model-lattice x maturities x 41-point strike lattice (vector and scalar strikes), the same relations for "
    "re-initialised twins, non-default COS constants and FFT damping, every VG parameter set against its CGMY(y=0) "
    "parametrisation, the closed form's degenerate branch, and all step sequences of four patterns on one pricer object; "
    "a case is non-trivial "
    "when at least one strike of it has an a-priori budget below 1e-3*max(K,S0) and was compared; distinct = distinct "
    "(model spec, maturity) case dict"
)
ASSUMPTIONS = [
    "tau is an evaluated a-priori bound (Fang-Oosterlee error terms; Poisson-summation / Green's-function bounds for "
    "Carr-Madan), not a proof over the parameter box; it assumes |phi_T(u)| non-increasing in |u| for BS/HEM/VG/CGMY "
    "(shown in mc/c18_util.py) and closes dyadic series tails at u = 1e150",
    "Chernoff tail bounds use the model's own characteristic function at imaginary arguments inside the analyticity "
    "strip computed in closed form from the case's parameters",
    "round-off floors: 1e-11*max(K,S0,F) for a COS price, 1e-11 for a digital, 1e-12*S0*max(1,(S0/K)^1.5)+1e-11*max(K,S0) "
    "for an FFT price",
    "strikes whose budget exceeds 1e-3*max(K,S0) are counted as outside the box and not asserted",
    "the COS truncation range is read through COSPricer._interval_a_b (recomputed from the cumulants if that name disappears)",
    "ExponentialOfLevyModel.cdf is the COS cdf with (n, L) = (2000, 20) and ExponentialOfLevyModel.density the COS density with "
    "the default constants (read from the anchored source): the budget of the first and the equality oracle of the second "
    "depend on these constants",
    "history oracle: a pricer object is a pure function of (model values, constants) - its answer equals that of a freshly "
    "constructed pricer on a freshly constructed model, whatever it or any other pricer was asked before",
]
CHUNK = 1

TOL_REL = 1e-3
MATURITIES = [1.0 / 12.0, 0.5, 1.0, 2.0]
NSTRIKES = 41

# explicit copies of the parameter sets of mc/alphabets.py (library defaults written out)
HEM = [
    {"sigma": 0.05, "p": 0.6, "eta1": 20.0, "eta2": 25.0, "intensity": 3.0},
    {"sigma": 0.0, "p": 0.3, "eta1": 10.0, "eta2": 40.0, "intensity": 5.0},
]
MERTON = [
    {"sigma": 0.05, "sigma_j": 0.05, "mu_j": 0.03, "intensity": 3.0},
    {"sigma": 0.0, "sigma_j": 0.1, "mu_j": 0.0, "intensity": 3.0},
]
VG = [
    {"sigma": 0.1, "nu": 0.06, "theta": 0.1},
    {"sigma": 0.2, "nu": 0.2, "theta": -0.15},
]


def _spec(fam, params, r, d, spot=100.0):
    return {"family": fam, "exp": True, "params": dict(params), "r": r, "d": d, "spot": spot}


def _model_specs(tier):
    thorough = tier == "thorough"
    out = []
    rates = A.RATES
    sig = [0.1, 0.15, 0.2, 0.25, 0.3, 0.35, 0.4, 0.45, 0.5] if thorough else [0.1, 0.3, 0.5]
    for s in sig:
        for (r, d) in rates:
            out.append(_spec("bs", {"sigma": s}, r, d))
    for fam, plist in (("hem", HEM), ("merton", MERTON), ("vg", VG)):
        for i, p in enumerate(plist):
            for (r, d) in (rates if (thorough or i == 0) else rates[:1]):
                out.append(_spec(fam, p, r, d))
    for y in A.CGMY_Y:
        for j, (c, g, m) in enumerate(A.CGMY_CGM):
            if not thorough and j > 0 and not (j == 2 and y == 1.2):
                continue
            for (r, d) in (rates if thorough else rates[:1]):
                out.append(_spec("cgmy", {"c": c, "g": g, "m": m, "y": y}, r, d))
    if thorough:
        # zero rates (df = 1) and the 10 % rate of the repository's own tests
        for (r, d) in ((0.0, 0.0), (0.1, 0.0)):
            out.append(_spec("bs", {"sigma": 0.2}, r, d))
            out.append(_spec("hem", HEM[0], r, d))
            out.append(_spec("merton", MERTON[0], r, d))
            out.append(_spec("vg", VG[0], r, d))
            for y in (0.5, 1.2):
                out.append(_spec("cgmy", {"c": 1.0, "g": 15.0, "m": 20.0, "y": y}, r, d))
        # other spots (the FFT grid and every budget scale with the spot)
        for spot in (1.0, 2500.0):
            out.append(_spec("bs", {"sigma": 0.2}, 0.02, 0.0, spot))
            out.append(_spec("hem", HEM[0], 0.02, 0.0, spot))
            out.append(_spec("merton", MERTON[0], 0.05, 0.02, spot))
            out.append(_spec("vg", VG[1], 0.02, 0.0, spot))
            for y in (0.5, 1.0, 1.5):
                out.append(_spec("cgmy", {"c": 1.0, "g": 15.0, "m": 20.0, "y": y}, 0.05, 0.02, spot))
        # intermediate activity indices
        for y in (0.25, 0.75, 1.35):
            for (c, g, m) in A.CGMY_CGM:
                out.append(_spec("cgmy", {"c": c, "g": g, "m": m, "y": y}, 0.02, 0.0))
    return out


# constants of the two model-level routes of exponentialoflevymodel.py (read from the anchored source): `cdf` builds
# COSPricer(self, n=2_000, l=20), `density` builds COSPricer(self)
MODEL_CDF_N, MODEL_CDF_L = 2000, 20
# non-default constants of the COS pricer (the first is the library's own second set) and of the Carr-Madan damping
COS_VARIANTS = [(2000, 20), (4000, 8)]
FFT_ALPHAS = [1.25, 2.0]


def _first_of_family(tier):
    """one parameter set per branch-selecting model class, first pair of rates"""
    r, d = A.RATES[0]
    out = [_spec("bs", {"sigma": 0.3}, r, d), _spec("hem", HEM[0], r, d), _spec("merton", MERTON[0], r, d),
           _spec("vg", VG[0], r, d)]
    for y in ((-0.5, 0.5, 1.2) if tier != "thorough" else A.CGMY_Y):
        out.append(_spec("cgmy", {"c": 1.0, "g": 15.0, "m": 20.0, "y": y}, r, d))
    return out


def _model_case(spec, T, tier, shift=0.0, **extra):
    thorough = tier == "thorough"
    c = {"sub": "model", "spec": spec, "T": T, "shift": shift, "dens_m": 512 if thorough else 256,
         "scalar_stride": 1 if (thorough and shift == 0.0) else 4, "fft_scalars": 5 if thorough else 3}
    c.update(extra)
    return c


def cases(tier):
    thorough = tier == "thorough"
    out = []
    # cheapest first
    for sigma, T in ((0.0, 1.0), (5e-9, 1.0), (0.2, 0.0), (0.2, 5e-9), (0.0, 0.0)):
        for (r, d) in A.RATES:
            out.append({"sub": "cf-degenerate", "sigma": sigma, "T": T, "r": r, "d": d, "spot": 100.0})
    # exact ties at the thresholds of the branch (`<`: the regular formula is used AT the threshold) and just above
    for sigma, T in ((1e-8, 1.0), (0.2, 1e-8), (1e-8, 1e-8), (1.0000001e-8, 1.0)):
        for (r, d) in A.RATES:
            out.append({"sub": "cf-degenerate", "sigma": sigma, "T": T, "r": r, "d": d, "spot": 100.0, "regular": True})
    # the third way into the degenerate branch: spot below the threshold
    for (r, d) in A.RATES:
        out.append({"sub": "cf-degenerate", "sigma": 0.2, "T": 1.0, "r": r, "d": d, "spot": 5e-9})
    for shift in ((0.0, 0.5, 0.25, 0.75) if thorough else (0.0,)):
        for T in MATURITIES:
            for spec in _model_specs(tier):
                out.append(_model_case(spec, T, tier, shift))
    fof = _first_of_family(tier)
    # edges of the quantifier absent from the product above: dividend yield above the rate (forward below the spot), a long and a
    # very short maturity
    for spec in fof:
        out.append(_model_case(dict(spec, r=0.01, d=0.04), 1.0, tier))
        for T in (5.0, 1.0 / 52.0):
            out.append(_model_case(spec, T, tier))
    # other spots (the FFT grid and every budget scale with the spot; the thorough tier has more)
    out.append(_model_case(_spec("bs", {"sigma": 0.3}, 0.05, 0.02, 2500.0), 1.0, tier))
    out.append(_model_case(_spec("hem", HEM[0], 0.05, 0.02, 1.0), 0.5, tier))
    # the same models reached the way the library's calibration helpers reach them (parameter object re-assigned + initialisation())
    for spec in A.with_reinit(fof):
        if spec.get("via") == "reinit":
            for T in ((0.5,) if not thorough else MATURITIES):
                out.append(_model_case(spec, T, tier))
    # rarely used public options: COS constants (n, L) other than the defaults, Carr-Madan damping alpha re-assigned
    for spec in fof:
        for (n, l) in COS_VARIANTS:
            for T in ((1.0 / 12.0, 1.0) if not thorough else MATURITIES):
                out.append(_model_case(spec, T, tier, cos=[n, l]))
    for spec in (fof if thorough else [sp for sp in fof if sp["family"] in ("bs", "hem") or sp["params"].get("y") == 0.5]):
        for alpha in FFT_ALPHAS:
            out.append(_model_case(spec, 1.0, tier, fft_alpha=alpha))
    for T in MATURITIES:
        for i, p in enumerate(VG):
            for (r, d) in (A.RATES if thorough else A.RATES[:1]):
                c = {"sub": "vg-cgmy", "vg": dict(p), "T": T, "r": r, "d": d, "spot": 100.0}
                if thorough or (i == 0) == (T < 1.0):
                    out.append(c)
                    if thorough:
                        out.append(dict(c, via="reinit"))
                else:
                    out.append(dict(c, via="reinit"))
    # argument forms, long strike vectors against element-wise calls, caller's arrays, copies
    form_specs = [_spec("bs", {"sigma": 0.2}, 0.05, 0.02), _spec("hem", HEM[0], 0.02, 0.0), _spec("cgmy", {"c": 1.0, "g": 15.0, "m": 20.0, "y": 0.5}, 0.02, 0.0)]
    if thorough:
        form_specs += [_spec("merton", MERTON[0], 0.05, 0.02), _spec("vg", VG[0], 0.02, 0.0), _spec("cgmy", {"c": 1.0, "g": 15.0, "m": 20.0, "y": 1.2}, 0.02, 0.0),
                       _spec("bs", {"sigma": 0.3}, 0.02, 0.0, 2500.0)]
    for i, spec in enumerate(form_specs):
        for T in ((1.0,) if not thorough else (0.5, 1.0, 2.0)):
            out.append({"sub": "forms", "spec": spec, "T": T, "entries": 2 ** 22})
            if i == 0 or thorough:
                out.append({"sub": "forms", "spec": spec, "T": T, "cos": [4096, 10], "entries": 2 ** 22})
            if thorough:
                out.append({"sub": "forms", "spec": spec, "T": T, "cos": [1000, 12], "entries": 2 ** 23})
    # histories on ONE pricer object (queries at several maturities / strike sets, state-changing public operations in
    # between): the relations of the statement are per (model, maturity, strike), so the answer of a pricer object must not
    # depend on what it - or any other pricer - was asked before
    hist_specs = [_spec("bs", {"sigma": 0.2}, 0.05, 0.02), _spec("hem", {"sigma": 0.05, "p": 0.6, "eta1": 20.0, "eta2": 25.0, "intensity": 3.0}, 0.02, 0.0),
                  _spec("cgmy", {"c": 1.0, "g": 15.0, "m": 20.0, "y": 0.5}, 0.02, 0.0)]
    if thorough:
        hist_specs += [_spec("merton", {"sigma": 0.05, "sigma_j": 0.05, "mu_j": 0.03, "intensity": 3.0}, 0.05, 0.02),
                       _spec("vg", {"sigma": 0.1, "nu": 0.06, "theta": 0.1}, 0.02, 0.0),
                       _spec("cgmy", {"c": 1.0, "g": 15.0, "m": 20.0, "y": 1.2}, 0.02, 0.0)]
    for spec in hist_specs:
        for pricer in ("cf", "cos", "fft"):
            if pricer == "cf" and spec["family"] != "bs":
                continue
            if pricer == "fft" and not thorough and spec["family"] == "hem":
                continue  # the FFT pricer's code does not branch on the family: two families in quick
            pats = ["pairs", "qoq", "ooq", "qqq"]
            if pricer == "fft" and not thorough:
                pats = ["pairs", "qoq", "ooq"]  # a 2^18 transform per query: three queries in a row are in the thorough tier
            for pat in pats:
                c = {"sub": "pricer-history", "spec": spec, "pricer": pricer, "pattern": pat}
                if pricer == "cos" and pat in ("qoq", "ooq"):
                    c["cos"] = [1000, 12]  # non-default constants (the oracle is equality with a fresh pricer, not accuracy)
                out.append(c)
    return out


# ----------------------------------------------------------------------------------------------------------------------
# helpers
# ----------------------------------------------------------------------------------------------------------------------

def _ycls(y):
    if y < 0:
        return "y<0"
    if y == 0:
        return "y=0"
    if y < 1:
        return "0<y<1"
    if y == 1:
        return "y=1"
    return "1<y<2"


def _icls(spec):
    if spec["family"] == "cgmy":
        return "cgmy:" + _ycls(spec["params"]["y"])
    if spec["family"] in ("hem", "merton"):
        return spec["family"] + (":sigma=0" if spec["params"]["sigma"] == 0 else ":sigma>0")
    return spec["family"]


def _interval(cp, model, T):
    f = getattr(cp, "_interval_a_b", None)
    if f is not None:
        a, b = f(t=T)
        return float(a), float(b)
    cum = model.cumulant
    c1, c2, c4 = cum.cumulant1(T), cum.cumulant2(T), cum.cumulant4(T)
    try:
        c6 = cum.cumulant6(T) or 0
    except Exception:
        c6 = 0
    delta = getattr(cp, "l", 10) * math.sqrt(c2 + math.sqrt(c4 + math.sqrt(c6)))
    return float(c1 - delta), float(c1 + delta)


def _vec(x, n=None):
    """library results as a flat float array (scalar calls return shape (1,) or a 0-d value)"""
    v = np.atleast_1d(np.asarray(x, dtype=float)).ravel()
    if n is not None and len(v) != n:
        raise ValueError(f"result has {len(v)} entries, expected {n}")
    return v


def _call_lib(sh, key_prefix, icls, fn, *args, **kw):
    """run a library entry point; an exception is a violation of 'prices exist for every strike of the lattice'"""
    try:
        with warnings.catch_warnings():
            warnings.simplefilter("ignore")
            with np.errstate(all="ignore"):
                return fn(*args, **kw)
    except NotImplementedError:
        raise
    except Exception as e:  # noqa: BLE001
        sh.violation(f"{key_prefix}:raises-{type(e).__name__}:{icls}", f"{key_prefix} raised {type(e).__name__}: {e}",
                     {"args": core.jsonable(args)[:2] if isinstance(args, (list, tuple)) else None})
        return None


class _Rep:
    """collects at most one violation per key and case, with the worst offender"""

    def __init__(self, sh, icls, ctx):
        self.sh, self.icls, self.ctx = sh, icls, ctx
        self.worst = {}

    def le(self, sub, comp, failure, lhs, rhs, slack, K, extra=None, mask=None):
        """assert lhs <= rhs + slack element-wise on the masked entries"""
        lhs, rhs, slack, K = (np.asarray(v, dtype=float) for v in np.broadcast_arrays(lhs, rhs, slack, K))
        m = np.isfinite(slack) if mask is None else (mask & np.isfinite(slack))
        n = int(np.sum(m))
        if n == 0:
            return 0
        self.sh.count("evaluations", n)
        bad = m & ~(lhs <= rhs + slack)  # nan counts as a failure
        if np.any(bad):
            exc = np.where(bad, np.where(np.isnan(lhs - rhs), np.inf, lhs - rhs - slack), -np.inf)
            i = int(np.argmax(exc))
            key = f"{PID}:{sub}:{comp}:{failure}:{self.icls}"
            self.sh.violation(key, f"{comp}: {failure} at K={K[i]:.6g}: lhs={lhs[i]:.12g} rhs={rhs[i]:.12g} slack={slack[i]:.3g} "
                                   f"({int(np.sum(bad))} of {n} strikes)",
                              dict(self.ctx, K=float(K[i]), lhs=float(lhs[i]), rhs=float(rhs[i]), slack=float(slack[i]),
                                   n_bad=int(np.sum(bad)), **(extra or {})))
        return n

    def close(self, sub, comp, failure, x, y, tol, K, mask=None, extra=None):
        x, y, tol, K = (np.asarray(v, dtype=float) for v in np.broadcast_arrays(x, y, tol, K))
        m = np.isfinite(tol) if mask is None else (mask & np.isfinite(tol))
        n = int(np.sum(m))
        if n == 0:
            return 0
        self.sh.count("evaluations", n)
        diff = np.abs(x - y)
        bad = m & ~(diff <= tol)
        if np.any(bad):
            exc = np.where(bad, np.where(np.isnan(diff), np.inf, diff / np.maximum(tol, 1e-300)), -np.inf)
            i = int(np.argmax(exc))
            key = f"{PID}:{sub}:{comp}:{failure}:{self.icls}"
            self.sh.violation(key, f"{comp}: {failure} at K={K[i]:.6g}: {x[i]:.12g} vs {y[i]:.12g}, |diff|={diff[i]:.3g} > tol={tol[i]:.3g} "
                                   f"({int(np.sum(bad))} of {n} strikes)",
                              dict(self.ctx, K=float(K[i]), x=float(x[i]), y=float(y[i]), tol=float(tol[i]),
                                   n_bad=int(np.sum(bad)), **(extra or {})))
        return n


# ----------------------------------------------------------------------------------------------------------------------
# sub-check: one exponential model, one maturity
# ----------------------------------------------------------------------------------------------------------------------

def _check_model(sh, case):
    from rpylib.numerical.cosmethod import COSPricer
    from rpylib.numerical.fft import FFTPricer
    from rpylib.product.payoff import Forward, PayoffType, Vanilla
    from rpylib.product.product import Product
    from rpylib.product.underlying import Spot

    spec, T = case["spec"], float(case["T"])
    fam, params = spec["family"], spec["params"]
    icls = _icls(spec)
    model = A.make_model(spec)
    S0, r, d = float(spec["spot"]), float(spec["r"]), float(spec["d"])
    df = math.exp(-r * T)
    F = S0 * math.exp((r - d) * T)
    cos_nl = case.get("cos")
    cp = COSPricer(model) if cos_nl is None else COSPricer(model, n=int(cos_nl[0]), l=cos_nl[1])
    a, b = _interval(cp, model, T)
    ctx = {"model": A.model_label(spec), "T": T, "r": r, "d": d, "spot": S0, "a": a, "b": b}
    if cos_nl is not None:
        ctx["cos_n_l"] = list(cos_nl)
        sh.cls(f"cos-constants:n={int(cos_nl[0])},L={cos_nl[1]}")
    if spec.get("via"):
        sh.cls(f"construction-route:{spec['via']}")
    sh.cls("rates:d>r" if d > r else "rates:d<=r")
    sh.cls(f"family:{icls}")
    sh.cls(f"T:{T:.4g}")
    sh.cls(f"rates:{r}/{d}")
    sh.cls(f"spot:{S0:g}")
    if not (a < 0.0 < b) or not all(map(math.isfinite, (a, b))):
        sh.count("outside_box:range-does-not-straddle-zero")
        sh.outcome(("norange", icls))
        return
    n = int(getattr(cp, "n", 10_000))
    hw = 0.5 * (b - a)
    kk = np.linspace(-0.6 * hw, 0.6 * hw, NSTRIKES)
    kk = kk + float(case.get("shift", 0.0)) * (kk[1] - kk[0])  # thorough tier: further lattices, shifted by a fraction of a step
    K = S0 * np.exp(kk)
    # the FFT pricer's own constants enter its budget (Carr-Madan damping, spacing, size)
    fp = _call_lib(sh, f"{PID}:call:FFTPricer", icls, FFTPricer, model)
    if fp is not None and case.get("fft_alpha") is not None:
        fp.alpha = float(case["fft_alpha"])  # public attribute, read at every call (N and eta are not: `l`, `b` are derived once)
        ctx["fft_alpha"] = fp.alpha
        sh.cls(f"fft-alpha:{fp.alpha:g}")
    f_alpha = float(getattr(fp, "alpha", 1.5)) if fp is not None else 1.5
    f_eta = float(getattr(fp, "eta", 0.25)) if fp is not None else 0.25
    f_n = int(getattr(fp, "N", 2 ** 18)) if fp is not None else 2 ** 18
    B = Budget(model, fam, params, T, a, b, n, fft_alpha=f_alpha, fft_eta=f_eta, fft_n=f_n)
    rep = _Rep(sh, icls, ctx)
    scaleK = np.maximum(K, S0)
    tau = B.tau_cos(K)
    tau_d = B.tau_dig(K)
    tau_f = B.tau_fft(K)
    inb = tau <= TOL_REL * scaleK
    inb_d = tau_d <= TOL_REL
    fft_range = np.abs(kk) <= math.pi / f_eta - 1.0  # the FFT's log-strike grid is log(S0) +- pi/eta
    inb_f = (tau_f <= TOL_REL * scaleK) & fft_range
    sh.count("strikes", NSTRIKES)
    sh.count(f"lattice:{fam}", NSTRIKES)
    sh.count(f"inbox:{fam}", int(np.sum(inb)))
    sh.count("outside_box:cos-price-strikes", int(np.sum(~inb)))
    sh.count("outside_box:digital-strikes", int(np.sum(~inb_d)))
    sh.count("outside_box:fft-strikes", int(np.sum(~inb_f)))
    if B.S_put > 1e-7:
        sh.count("models_with_series_term_above_1e-7")
    if not math.isfinite(B.S_dig):
        sh.cls("no-absolutely-convergent-digital-series")
    if not math.isfinite(B.S_den):
        sh.cls("no-bounded-density")
    if np.any(inb):
        sh.nontriv()

    # ------------------------------------------------------------------ vector calls
    put = _call_lib(sh, f"{PID}:call:COSPricer.put", icls, cp.put, K, T)
    call = _call_lib(sh, f"{PID}:call:COSPricer.call", icls, cp.call, K, T)
    fwd = _call_lib(sh, f"{PID}:call:COSPricer.forward", icls, cp.forward, K, T)
    dig = _call_lib(sh, f"{PID}:call:COSPricer.digital", icls, cp.digital, K, T)
    if put is None or call is None or fwd is None or dig is None:
        return
    put, call, fwd, dig = _vec(put, NSTRIKES), _vec(call, NSTRIKES), _vec(fwd, NSTRIKES), _vec(dig, NSTRIKES)
    ref_fwd = df * (F - K)
    tol_id = 1e-11 * np.maximum(scaleK, F)

    # parity / forward: identities of the implementation
    rep.close("parity", "COSPricer.forward", "not-discounted-forward-minus-strike", fwd, ref_fwd, tol_id, K)
    rep.close("parity", "COSPricer.call-put", "call-minus-put-not-forward", call - put, ref_fwd, tol_id, K)

    # a model reached through another construction route is the same model: same prices as the directly constructed one (the
    # relations below hold for ANY consistent model, e.g. one that kept a derived constant of the donor parameters)
    if spec.get("via"):
        direct = A.make_model({k: v for k, v in spec.items() if k != "via"})
        cpd = COSPricer(direct) if cos_nl is None else COSPricer(direct, n=int(cos_nl[0]), l=cos_nl[1])
        pd_ = _call_lib(sh, f"{PID}:call:COSPricer.put", icls, cpd.put, K, T)
        dd_ = _call_lib(sh, f"{PID}:call:COSPricer.digital", icls, cpd.digital, K, T)
        if pd_ is not None and dd_ is not None:
            rep.close("route", "COSPricer.put", f"differs-from-directly-constructed-model:{spec['via']}", put, _vec(pd_, NSTRIKES), tol_id, K)
            rep.close("route", "COSPricer.digital", f"differs-from-directly-constructed-model:{spec['via']}", dig, _vec(dd_, NSTRIKES), 1e-11 + 0 * K, K)

    # no-arbitrage bounds
    rep.le("bounds", "COSPricer.call", "below-intrinsic", np.maximum(0.0, ref_fwd), call, tau, K, mask=inb)
    rep.le("bounds", "COSPricer.call", "above-discounted-forward", call, df * F, tau, K, mask=inb)
    rep.le("bounds", "COSPricer.put", "below-intrinsic", np.maximum(0.0, -ref_fwd), put, tau, K, mask=inb)
    rep.le("bounds", "COSPricer.put", "above-discounted-strike", put, df * K, tau, K, mask=inb)

    # monotone and convex in the strike, on the lattice
    m1 = inb[:-1] & inb[1:]
    rep.le("monotone", "COSPricer.call", "increasing-in-strike", call[1:], call[:-1], tau[1:] + tau[:-1], K[:-1], mask=m1)
    rep.le("monotone", "COSPricer.put", "decreasing-in-strike", put[:-1], put[1:], tau[1:] + tau[:-1], K[:-1], mask=m1)
    w0, w1, w2 = K[2:] - K[1:-1], K[2:] - K[:-2], K[1:-1] - K[:-2]
    bfly = call[:-2] * w0 - call[1:-1] * w1 + call[2:] * w2
    bslack = tau[:-2] * w0 + tau[1:-1] * w1 + tau[2:] * w2
    m2 = inb[:-2] & inb[1:-1] & inb[2:]
    rep.le("convex", "COSPricer.call", "negative-butterfly", 0.0, bfly, bslack, K[1:-1], mask=m2)
    # the library's own butterfly at the three central strikes (scalar arguments)
    c0 = NSTRIKES // 2
    bl = _call_lib(sh, f"{PID}:call:COSPricer.butterfly", icls, cp.butterfly, float(K[c0 - 1]), float(K[c0]), float(K[c0 + 1]), T)
    if bl is not None:
        eq = call[c0 - 1] - 2 * call[c0] + call[c0 + 1]
        rep.close("scalar", "COSPricer.butterfly", "not-the-call-combination", _vec(bl, 1), [eq], [1e-11 * scaleK[c0]], [K[c0]])

    # digital
    rep.le("digital", "COSPricer.digital", "negative", 0.0, dig, tau_d, K, mask=inb_d)
    rep.le("digital", "COSPricer.digital", "above-discount-factor", dig, df, tau_d, K, mask=inb_d)
    md = inb_d[:-1] & inb_d[1:]
    rep.le("digital", "COSPricer.digital", "increasing-in-strike", dig[1:], dig[:-1], tau_d[1:] + tau_d[:-1], K[:-1], mask=md)
    dK = K[1:] - K[:-1]
    slope = (call[:-1] - call[1:]) / dK
    s_sl = (tau[:-1] + tau[1:]) / dK
    ms = md & m1 & (s_sl <= TOL_REL)
    rep.le("digital", "COSPricer.digital-vs-call", "call-slope-below-digital-at-upper-strike", dig[1:], slope, s_sl + tau_d[1:], K[:-1], mask=ms)
    rep.le("digital", "COSPricer.digital-vs-call", "call-slope-above-digital-at-lower-strike", slope, dig[:-1], s_sl + tau_d[:-1], K[:-1], mask=ms)

    # cdf (documented as P(S_t < x)) against the discounted digital
    cdf = _call_lib(sh, f"{PID}:call:COSPricer.cdf", icls, cp.cdf, T, K)
    if cdf is not None:
        cdf = _vec(cdf, NSTRIKES)
        # one defect class whatever the family: the key's input class is the sign of the rate (df < 1 in every case)
        rep_c = _Rep(sh, "r>0" if r > 0 else "r=0", ctx)
        rep_c.close("cdf", "COSPricer.cdf", "not-one-minus-undiscounted-digital", cdf, 1.0 - dig / df, 1e-11 + 0 * K, K, mask=inb_d)
        rep_c.le("cdf", "COSPricer.cdf", "below-zero", 0.0, cdf, tau_d / df + 1e-11, K, mask=inb_d)
        rep_c.le("cdf", "COSPricer.cdf", "above-one", cdf, 1.0, tau_d / df + 1e-11, K, mask=inb_d)

    # model-level routes of exponentialoflevymodel.py (what the library's Kolmogorov-Smirnov script and the Monte-Carlo statistics
    # call): cdf through a COS pricer with the library's second set of constants - both are approximations of one probability
    model_cdf = getattr(model, "cdf", None)
    if cos_nl is None and model_cdf is not None:
        mc_ = _call_lib(sh, f"{PID}:call:ExponentialOfLevyModel.cdf", icls, model_cdf, T, K)
        cp2 = COSPricer(model, n=MODEL_CDF_N, l=MODEL_CDF_L)
        a2, b2 = _interval(cp2, model, T)
        if mc_ is not None and a2 < 0.0 < b2 and math.isfinite(a2) and math.isfinite(b2):
            mc_ = _vec(mc_, NSTRIKES)
            td2 = Budget(model, fam, params, T, a2, b2, MODEL_CDF_N).tau_dig(K)
            m2_ = inb_d & (td2 <= TOL_REL)
            sh.count("outside_box:model-cdf-strikes", int(np.sum(~m2_)))
            rep.close("cdf", "ExponentialOfLevyModel.cdf", "differs-from-one-minus-undiscounted-digital-beyond-budgets", mc_, 1.0 - dig / df,
                      (tau_d + td2) / df + 1e-11, K, mask=m2_)
            rep.le("cdf", "ExponentialOfLevyModel.cdf", "below-zero", 0.0, mc_, td2 / df + 1e-11, K, mask=m2_)
            rep.le("cdf", "ExponentialOfLevyModel.cdf", "above-one", mc_, 1.0, td2 / df + 1e-11, K, mask=m2_)
            mm_ = m2_[:-1] & m2_[1:]
            rep.le("cdf", "ExponentialOfLevyModel.cdf", "decreasing-in-x", mc_[:-1], mc_[1:], (td2[:-1] + td2[1:]) / df + 1e-11, K[:-1], mask=mm_)

    # ------------------------------------------------------------------ implied density
    M = int(case.get("dens_m", 256))
    z = np.linspace(a, b, M + 1)
    s_pts = S0 * np.exp(z)
    dens = []
    for lo in range(0, M + 1, 128):  # blocks of 128 points: the pricer builds a (points x n) matrix
        blk = _call_lib(sh, f"{PID}:call:COSPricer.density", icls, cp.density, T, s_pts[lo: lo + 128])
        if blk is None:
            dens = None
            break
        dens.append(_vec(blk, len(s_pts[lo: lo + 128])))
    if dens is not None:
        dens = np.concatenate(dens)
        flog = dens * s_pts
        t_den = B.tau_den()
        if math.isfinite(t_den) and t_den <= TOL_REL * max(1.0, B.D):
            rep.le("density", "COSPricer.density", "negative-beyond-truncation-error", 0.0, flog, t_den, s_pts)
        else:
            sh.count("outside_box:density-positivity")
        alias = B.trapz_alias(M)
        integ = float(np.sum(0.5 * (flog[1:] + flog[:-1])) * (b - a) / M)
        t_int = alias + 1e-10
        if math.isfinite(t_int) and t_int <= TOL_REL:
            rep.close("density", "COSPricer.density", "does-not-integrate-to-one", [integ], [1.0], [t_int], [S0])
        else:
            sh.count("outside_box:density-integral")
        idx = [0, M // 4, M // 2, 3 * M // 4, M]
        dl = _call_lib(sh, f"{PID}:call:COSPricer.density_log", icls, cp.density_log, T, np.log(s_pts[idx]))
        if dl is not None:
            rep.close("density", "COSPricer.density_log", "not-density-times-s", _vec(dl, len(idx)), flog[idx],
                      1e-11 * (1.0 + np.abs(flog[idx])), s_pts[idx])
        # the density asked a second time on the same pricer and the same points (the multilevel engine keeps one pricer and
        # asks again at every update of its statistics), and through the model-level route (a new default pricer per call)
        idx2 = list(range(0, M + 1, 8))
        d2 = _call_lib(sh, f"{PID}:call:COSPricer.density", icls, cp.density, T, s_pts[idx2])
        if d2 is not None:
            rep.close("density", "COSPricer.density", "second-answer-differs-from-first", _vec(d2, len(idx2)) * s_pts[idx2], flog[idx2],
                      1e-11 * (1.0 + np.abs(flog[idx2])), s_pts[idx2])
        model_density = getattr(model, "density", None)
        if cos_nl is None and model_density is not None:
            md = _call_lib(sh, f"{PID}:call:ExponentialOfLevyModel.density", icls, lambda: model_density(T)(s_pts[idx2]))
            if md is not None:
                rep.close("density", "ExponentialOfLevyModel.density", "differs-from-default-COS-density", _vec(md, len(idx2)) * s_pts[idx2],
                          flog[idx2], 1e-9 * (1.0 + np.abs(flog[idx2])), s_pts[idx2])

    # ------------------------------------------------------------------ FFT
    fcall = fput = None
    if fp is not None:
        fcall = _call_lib(sh, f"{PID}:call:FFTPricer.call", icls, fp.call, K, T)
        fput = _call_lib(sh, f"{PID}:call:FFTPricer.put", icls, fp.put, K, T)
    if fcall is not None and fput is not None:
        fcall, fput = _vec(fcall, NSTRIKES), _vec(fput, NSTRIKES)
        rep.close("parity", "FFTPricer.call-put", "call-minus-put-not-forward", fcall - fput, ref_fwd, tol_id + 1e-15 * np.abs(fcall), K)
        mcf = inb & inb_f
        rep.close("cross", "COS-vs-FFT.call", "disagree-beyond-budgets", call, fcall, tau + tau_f, K, mask=mcf)

    # ------------------------------------------------------------------ Black-Scholes closed form
    if fam == "bs":
        cfp = model.closed_form
        cfc = np.array([float(_call_lib(sh, f"{PID}:call:CFBlackScholes.call", icls, cfp.call, float(k), T)) for k in K])
        cfu = np.array([float(_call_lib(sh, f"{PID}:call:CFBlackScholes.put", icls, cfp.put, float(k), T)) for k in K])
        cff = _vec(cfp.forward(K, T), NSTRIKES)
        cfd = _vec(cfp.digital(K, T), NSTRIKES)
        cfv = _vec(cfp.call(K, T), NSTRIKES)  # vector strikes through the regular branch
        cfw = _vec(cfp.put(K, T), NSTRIKES)
        tol_cf = 1e-12 * np.maximum(scaleK, F)
        rep.close("scalar", "CFBlackScholes.call", "vector-differs-from-scalar", cfv, cfc, tol_cf, K)
        rep.close("scalar", "CFBlackScholes.put", "vector-differs-from-scalar", cfw, cfu, tol_cf, K)
        i3 = [0, NSTRIKES // 2, NSTRIKES - 1]
        cfds = [_call_lib(sh, f"{PID}:call:CFBlackScholes.digital-scalar", icls, cfp.digital, float(K[i]), T) for i in i3]
        if all(v is not None for v in cfds):
            rep.close("scalar", "CFBlackScholes.digital", "scalar-differs-from-vector", [float(np.squeeze(v)) for v in cfds], cfd[i3],
                      [1e-13] * 3, K[i3])
        rep.close("parity", "CFBlackScholes.call-put", "call-minus-put-not-forward", cfc - cfu, cff, tol_cf, K)
        rep.close("parity", "CFBlackScholes.forward", "not-discounted-forward-minus-strike", cff, ref_fwd, tol_cf, K)
        rep.close("cross", "COS-vs-CF.call", "disagree-beyond-budget", call, cfc, tau + tol_cf, K, mask=inb)
        rep.close("cross", "COS-vs-CF.put", "disagree-beyond-budget", put, cfu, tau + tol_cf, K, mask=inb)
        rep.close("cross", "COS-vs-CF.digital", "disagree-beyond-budget", dig, cfd, tau_d + 1e-13, K, mask=inb_d)
        if fcall is not None:
            rep.close("cross", "FFT-vs-CF.call", "disagree-beyond-budget", fcall, cfc, tau_f + tol_cf, K, mask=inb_f)
        bf = cfp.butterfly(float(K[c0 - 1]), float(K[c0]), float(K[c0 + 1]), T)
        rep.close("scalar", "CFBlackScholes.butterfly", "not-the-call-combination", [float(bf)],
                  [cfc[c0 - 1] - 2 * cfc[c0] + cfc[c0 + 1]], [1e-11 * scaleK[c0]], [K[c0]])

    # ------------------------------------------------------------------ scalar strikes
    stride = int(case.get("scalar_stride", 4))
    tol_s = 1e-12 * np.maximum(scaleK, F)
    for i in range(0, NSTRIKES, stride):
        k = float(K[i])
        for name, vecval, tol in (("call", call, tol_s[i]), ("put", put, tol_s[i]), ("forward", fwd, tol_s[i]), ("digital", dig, 1e-12)):
            res = _call_lib(sh, f"{PID}:call:COSPricer.{name}-scalar", icls, getattr(cp, name), k, T)
            if res is None:
                continue
            rv = np.atleast_1d(np.asarray(res, dtype=float)).ravel()
            if len(rv) != 1:
                sh.violation(f"{PID}:scalar:COSPricer.{name}:wrong-shape:{icls}", f"scalar strike returned {len(rv)} values", dict(ctx, K=k))
                continue
            rep.close("scalar", f"COSPricer.{name}", "scalar-differs-from-vector", rv, [vecval[i]], [tol], [k])
    if S0 == int(S0) and S0 >= 1:  # an integer strike (Python int) is a scalar strike
        ri = _call_lib(sh, f"{PID}:call:COSPricer.call-int-strike", icls, cp.call, int(S0), T)
        rf = _call_lib(sh, f"{PID}:call:COSPricer.call-scalar", icls, cp.call, float(S0), T)
        if ri is not None and rf is not None:
            rep.close("scalar", "COSPricer.call", "int-strike-differs-from-float-strike", _vec(ri, 1), _vec(rf, 1), [1e-12 * S0], [S0])
    # price(Product) dispatch with scalar and vector strikes
    und = Spot()
    for i in (0, c0, NSTRIKES - 1):
        k = float(K[i])
        for pname, payoff, vecval in (
            ("call", Vanilla(strike=k, payoff_type=PayoffType.CALL), call),
            ("put", Vanilla(strike=k, payoff_type=PayoffType.PUT), put),
            ("forward", Forward(strike=k), fwd),
        ):
            try:
                prod = Product(payoff_underlying=und, payoff=payoff, maturity=T)
            except Exception:  # constructor signature is not the property's subject
                sh.count("product_constructor_unavailable")
                sh.cap("Product(payoff_underlying, payoff, maturity) could not be built: price(product) dispatch not exercised")
                continue
            res = _call_lib(sh, f"{PID}:call:COSPricer.price-{pname}", icls, cp.price, prod)
            if res is None:
                continue
            rep.close("scalar", f"COSPricer.price-{pname}", "differs-from-direct-call", _vec(res, 1), [vecval[i]], [tol_s[i]], [k])
    if fp is not None and fcall is not None:
        nf = int(case.get("fft_scalars", 3))
        for i in sorted(set(np.linspace(0, NSTRIKES - 1, nf).astype(int).tolist())):
            k = float(K[i])
            rc = _call_lib(sh, f"{PID}:call:FFTPricer.call-scalar", icls, fp.call, k, T)
            rp = _call_lib(sh, f"{PID}:call:FFTPricer.put-scalar", icls, fp.put, k, T)
            tol = 1e-12 * max(k, S0) + 1e-13 * abs(fcall[i])
            if rc is not None:
                rep.close("scalar", "FFTPricer.call", "scalar-differs-from-vector", _vec(rc, 1), [fcall[i]], [tol], [k])
            if rp is not None:
                rep.close("scalar", "FFTPricer.put", "scalar-differs-from-vector", _vec(rp, 1), [fput[i]], [tol], [k])

    # ------------------------------------------------------------------ the lattice handed over in DECREASING order
    # (the full class of orders / containers against scalar calls is in sub = "forms"; here one non-increasing order for every
    # family, maturity, construction route and set of constants): the i-th value belongs to the i-th strike given
    Kr = K[::-1].copy()
    rev = [("COSPricer.put", lambda: cp.put(Kr, T), put, tol_s), ("COSPricer.call", lambda: cp.call(Kr, T), call, tol_s),
           ("COSPricer.digital", lambda: cp.digital(Kr, T), dig, 1e-12 + 0 * K), ("COSPricer.forward", lambda: cp.forward(Kr, T), fwd, tol_s)]
    if cdf is not None:
        rev.append(("COSPricer.cdf", lambda: cp.cdf(T, Kr), cdf, 1e-12 + 0 * K))
    if fp is not None and fcall is not None:
        rev.append(("FFTPricer.call", lambda: fp.call(Kr, T), fcall, tol_s + 1e-13 * np.abs(fcall)))
    if fam == "bs":
        rev += [("CFBlackScholes.call", lambda: cfp.call(Kr, T), cfv, tol_s), ("CFBlackScholes.put", lambda: cfp.put(Kr, T), cfw, tol_s),
                ("CFBlackScholes.digital", lambda: cfp.digital(Kr, T), cfd, 1e-13 + 0 * K)]
    for name, f, incr, tol in rev:
        got = _call_lib(sh, f"{PID}:call:{name}-decreasing-strikes", icls, f)
        if got is None:
            continue
        got = np.asarray(got, dtype=float)
        if got.shape != (NSTRIKES,):
            sh.violation(f"{PID}:order:{name}:result-not-of-the-callers-shape:decreasing:array:{icls}",
                         f"{name} with {NSTRIKES} decreasing strikes returned an array of shape {got.shape}", ctx)
            continue
        rep.close("order", name, "decreasing-lattice-differs-from-increasing-lattice-reversed", got, incr[::-1], np.asarray(tol)[::-1], Kr)
    if not np.array_equal(Kr, K[::-1]):
        sh.violation(f"{PID}:order:pricers:modifies-the-callers-array:decreasing:array:{icls}", "a pricer changed the decreasing strike array it was given", ctx)

    sh.outcome((icls, round(T, 4), int(np.sum(inb)), int(np.sum(inb_d)), int(np.sum(inb_f))))
    if case.get("spec", {}).get("r") == 0.02 and abs(T - 1.0) < 1e-12 and cos_nl is None and not spec.get("via") and case.get("fft_alpha") is None:
        j = c0
        sh.sample({"model": ctx["model"], "T": T, "range": [a, b], "K_mid": float(K[j]), "call_mid": float(call[j]),
                   "tau_cos_mid": float(tau[j]), "tau_cos_edges": [float(tau[0]), float(tau[-1])],
                   "tau_fft_mid": float(tau_f[j]), "tau_dig_mid": float(tau_d[j]), "S_put": B.S_put,
                   "cos_minus_fft_mid": (float(call[j] - fcall[j]) if fcall is not None else None),
                   "strikes_in_box": int(np.sum(inb))})


# ----------------------------------------------------------------------------------------------------------------------
# sub-check: VG against its CGMY parametrisation
# ----------------------------------------------------------------------------------------------------------------------

def vg_as_cgmy(p):
    """the mapping of rpylib/tests/numerical/test_cos_method.py::test_cos_method_consistency_variance_gamma_cgmy"""
    nu, sigma, theta = p["nu"], p["sigma"], p["theta"]
    eta_p = math.sqrt(theta ** 2 * nu ** 2 / 4 + sigma ** 2 * nu / 2) + theta * nu / 2
    eta_m = eta_p - theta * nu
    return {"c": 1.0 / nu, "g": 1.0 / eta_m, "m": 1.0 / eta_p, "y": 0.0}


def _check_vg_cgmy(sh, case):
    from rpylib.numerical.cosmethod import COSPricer

    T, r, d, S0 = float(case["T"]), float(case["r"]), float(case["d"]), float(case["spot"])
    pv = case["vg"]
    pc = vg_as_cgmy(pv)
    sv, sc = _spec("vg", pv, r, d, S0), _spec("cgmy", pc, r, d, S0)
    if case.get("via"):  # both models reached through re-assigned parameter objects + initialisation()
        sv, sc = dict(sv, via=case["via"]), dict(sc, via=case["via"])
        sh.cls(f"construction-route:{case['via']}")
    mv, mc_ = A.make_model(sv), A.make_model(sc)
    icls = "vg-vs-cgmy:y=0"
    ctx = {"vg": pv, "cgmy": pc, "T": T, "r": r, "d": d}
    rep = _Rep(sh, icls, ctx)
    sh.cls("family:vg-vs-cgmy(y=0)")
    # characteristic functions of log(S_T/S0): 8 real arguments and two imaginary ones inside both strips
    us = np.array([0.3, 1.0, 2.5, 7.0, 20.0, 55.0, 150.0, 400.0], dtype=complex)
    with np.errstate(all="ignore"), warnings.catch_warnings():
        warnings.simplefilter("ignore")
        fv = np.asarray(mv.log_characteristic_function(t=T, x=us, log_spot=0))
        fc = np.asarray(mc_.log_characteristic_function(t=T, x=us, log_spot=0))
        iv = np.asarray(mv.log_characteristic_function(t=T, x=np.array([-1j, -2j]), log_spot=0))
        ic = np.asarray(mc_.log_characteristic_function(t=T, x=np.array([-1j, -2j]), log_spot=0))
    tolc = 1e-11 * (1.0 + np.abs(us.real) * (abs(r - d) + 1.0) * T)
    rep.close("vg-cgmy", "characteristic-function.real-part", "differ", fv.real, fc.real, tolc, us.real)
    rep.close("vg-cgmy", "characteristic-function.imaginary-part", "differ", fv.imag, fc.imag, tolc, us.real)
    rep.close("vg-cgmy", "moment-generating-function", "differ", iv.real, ic.real, 1e-11 * np.abs(iv.real), [1.0, 2.0])

    cv, cc = COSPricer(mv), COSPricer(mc_)
    av, bv = _interval(cv, mv, T)
    ac, bc = _interval(cc, mc_, T)
    if not (av < 0 < bv and ac < 0 < bc):
        sh.count("outside_box:range-does-not-straddle-zero")
        return
    hw = 0.5 * min(bv - av, bc - ac)
    kk = np.linspace(-0.6 * hw, 0.6 * hw, NSTRIKES)
    K = S0 * np.exp(kk)
    Bv = Budget(mv, "vg", pv, T, av, bv, int(getattr(cv, "n", 10_000)))
    Bc = Budget(mc_, "cgmy", pc, T, ac, bc, int(getattr(cc, "n", 10_000)))
    tv, tc = Bv.tau_cos(K), Bc.tau_cos(K)
    tdv, tdc = Bv.tau_dig(K), Bc.tau_dig(K)
    scaleK = np.maximum(K, S0)
    inb = (tv + tc) <= TOL_REL * scaleK
    inbd = (tdv + tdc) <= TOL_REL
    sh.count("strikes", NSTRIKES)
    sh.count("outside_box:vg-cgmy-strikes", int(np.sum(~inb)))
    if np.any(inb):
        sh.nontriv()
    with warnings.catch_warnings():
        warnings.simplefilter("ignore")
        callv, callc = _vec(cv.call(K, T), NSTRIKES), _vec(cc.call(K, T), NSTRIKES)
        putv, putc = _vec(cv.put(K, T), NSTRIKES), _vec(cc.put(K, T), NSTRIKES)
        digv, digc = _vec(cv.digital(K, T), NSTRIKES), _vec(cc.digital(K, T), NSTRIKES)
    rep.close("vg-cgmy", "COSPricer.call", "prices-disagree-beyond-budgets", callv, callc, tv + tc, K, mask=inb)
    rep.close("vg-cgmy", "COSPricer.put", "prices-disagree-beyond-budgets", putv, putc, tv + tc, K, mask=inb)
    rep.close("vg-cgmy", "COSPricer.digital", "prices-disagree-beyond-budgets", digv, digc, tdv + tdc, K, mask=inbd)
    sh.outcome(("vg-cgmy", round(T, 4), int(np.sum(inb)), int(np.sum(inbd))))
    if abs(T - 1.0) < 1e-12:
        sh.sample({"vg": pv, "cgmy": pc, "T": T, "call_vg_mid": float(callv[20]), "call_cgmy_mid": float(callc[20]),
                   "budget_mid": float(tv[20] + tc[20]), "strikes_in_box": int(np.sum(inb))})


# ----------------------------------------------------------------------------------------------------------------------
# sub-check: degenerate branch of the Black-Scholes closed form
# ----------------------------------------------------------------------------------------------------------------------

def _check_cf_degenerate(sh, case):
    sigma, T, r, d, S0 = (float(case[k]) for k in ("sigma", "T", "r", "d", "spot"))
    spec = _spec("bs", {"sigma": sigma}, r, d, S0)
    model = A.make_model(spec)
    cfp = model.closed_form
    def _c(v):
        return "<eps" if v < 1e-8 else ("=eps" if v == 1e-8 else ">eps")

    icls = "bs:degenerate:sigma" + _c(sigma) + ":T" + _c(T)
    if S0 < 1e-8:
        icls += ":spot<eps"
    regular = bool(case.get("regular"))  # at / just above the thresholds the regular formula answers: nearly degenerate
    if regular:
        icls += ":regular-branch"
    sh.cls("family:" + icls)
    df = math.exp(-r * T)
    F = S0 * math.exp((r - d) * T)
    Ks = [0.5 * F, 0.9 * F, F * (1 - 1e-9), F, F * (1 + 1e-9), 1.1 * F, 2.0 * F, 1e-3 * F, 50.0 * F]
    rep = _Rep(sh, icls, {"sigma": sigma, "T": T, "r": r, "d": d})
    calls, puts, fwds = [], [], []
    for k in Ks:
        calls.append(float(cfp.call(float(k), T)))
        puts.append(float(cfp.put(float(k), T)))
        fwds.append(float(cfp.forward(float(k), T)))
    Ka = np.array(Ks)
    calls, puts, fwds = np.array(calls), np.array(puts), np.array(fwds)
    tol = 1e-12 * np.maximum(Ka, F)
    ref_fwd = df * (F - Ka)
    rep.close("cf-degenerate", "CFBlackScholes.forward", "not-discounted-forward-minus-strike", fwds, ref_fwd, tol, Ka)
    rep.close("cf-degenerate", "CFBlackScholes.call-put", "call-minus-put-not-forward", calls - puts, ref_fwd, tol, Ka)
    if regular:
        # time value of a Black-Scholes option <= its at-the-money value df F (2 N(s/2) - 1) <= df F s / sqrt(2 pi), s = sigma sqrt(T)
        tv = df * F * sigma * math.sqrt(T) / math.sqrt(2.0 * math.pi)
        rep.le("cf-degenerate", "CFBlackScholes.call", "below-discounted-intrinsic", np.maximum(0.0, ref_fwd), calls, tol, Ka)
        rep.le("cf-degenerate", "CFBlackScholes.call", "time-value-above-at-the-money-bound", calls, np.maximum(0.0, ref_fwd), tv + tol, Ka)
        rep.le("cf-degenerate", "CFBlackScholes.put", "below-discounted-intrinsic", np.maximum(0.0, -ref_fwd), puts, tol, Ka)
        rep.le("cf-degenerate", "CFBlackScholes.put", "time-value-above-at-the-money-bound", puts, np.maximum(0.0, -ref_fwd), tv + tol, Ka)
    else:
        rep.close("cf-degenerate", "CFBlackScholes.call", "not-discounted-intrinsic", calls, np.maximum(0.0, ref_fwd), tol, Ka)
        rep.close("cf-degenerate", "CFBlackScholes.put", "not-discounted-intrinsic", puts, np.maximum(0.0, -ref_fwd), tol, Ka)
    dg = _vec(cfp.digital(Ka, T), len(Ks))
    away = np.abs(Ka / F - 1.0) > 1e-6  # at K = F the value of a zero-variance digital is a convention
    rep.close("cf-degenerate", "CFBlackScholes.digital", "not-discounted-indicator", dg, df * (F > Ka), 1e-15 + 0 * Ka, Ka, mask=away)
    rep.le("cf-degenerate", "CFBlackScholes.digital", "outside-zero-df", dg, df, 1e-15, Ka)
    rep.le("cf-degenerate", "CFBlackScholes.digital", "negative", 0.0, dg, 1e-15, Ka)
    sh.nontriv()
    sh.outcome((icls, [round(float(c), 6) for c in calls[:3]]))


class _HistoryViolation(Exception):
    pass


HIST_T = (0.5, 1.0, 2.0)
HIST_R2, HIST_D2, HIST_ALPHA2 = 0.07, 0.035, 1.25


def _hist_menu(kind, S0):
    """(queries, number of core queries, operations) of one pricer class.  A query is (name, maturity, arguments)."""
    Kv = [0.8 * S0, S0, 1.25 * S0]
    core = [("call", 0.5, Kv), ("call", 2.0, Kv), ("put", 1.0, [0.9 * S0]), ("put", 2.0, [0.8 * S0, 1.1 * S0])]
    if kind == "fft":
        return core, 4, ["other", "copy", "copy1", "dill", "set-d", "set-alpha"]
    if kind == "cf":
        q = core + [("digital", 1.0, Kv), ("forward", 2.0, Kv), ("butterfly", 0.5, [0.9 * S0, S0, 1.1 * S0]), ("call", 1.0, Kv),
                    ("digital", 2.0, [S0, 1.1 * S0])]
        return q, 4, ["other", "copy", "copy1", "dill", "set-r", "set-d"]
    q = core + [("digital", 1.0, Kv), ("cdf", 2.0, Kv), ("density", 1.0, [0.7 * S0, S0, 1.3 * S0]),
                ("density", 1.0, [0.85 * S0, 1.1 * S0, 1.6 * S0]),  # same maturity, same number of points, other points
                ("density_log", 0.5, [math.log(0.9 * S0), math.log(1.2 * S0)]), ("price-call", 1.0, [S0]),
                ("butterfly", 0.5, [0.9 * S0, S0, 1.1 * S0]), ("forward", 2.0, Kv), ("call", 1.0, Kv), ("price-put", 2.0, [1.1 * S0])]
    return q, 4, ["other", "copy", "copy1", "dill", "set-r", "set-d", "model-routes"]


def _check_pricer_history(sh, case):
    """Ordered sequences of steps on ONE pricer object; a step is a query of the menu or a state-changing public operation
    (`other`: a second pricer of the same class - same and other constants - on ANOTHER model asked at the same maturities;
    `copy` / `copy1` / `dill`: the pricer replaced by its deepcopy / copy.copy / dill round trip; `set-r` / `set-d`: the public attribute of the pricer's model re-assigned;
    `model-routes`: model.cdf / model.density of the pricer's model, i.e. further pricers on the same model; `set-alpha`: the FFT
    pricer's damping re-assigned).  The last step is a query; its answer must equal the answer of a freshly constructed pricer on a
    freshly constructed model (with the re-assigned values) - bit for bit, 1e-12 max(K, S0) when an attribute was re-assigned.
    Patterns: "pairs" = [q] and [s, q]; "qoq" = [q, o, q']; "ooq" = [o, o', q]; "qqq" = [q, q', q''] on the four core queries."""
    import copy
    import itertools

    from rpylib.numerical.closedform.cfblackscholes import CFBlackScholes
    from rpylib.numerical.cosmethod import COSPricer
    from rpylib.numerical.fft import FFTPricer
    from rpylib.product.payoff import PayoffType, Vanilla
    from rpylib.product.product import Product
    from rpylib.product.underlying import Spot

    spec = case["spec"]
    kind = case["pricer"]
    icls = _icls(spec)
    cos_nl = case.get("cos")
    S0 = float(spec.get("spot", 100.0))
    cls_ = {"cos": COSPricer, "fft": FFTPricer, "cf": CFBlackScholes}[kind]
    queries, ncore, ops = _hist_menu(kind, S0)
    pattern = case.get("pattern", "qqq")
    sh.cls(f"history:{kind}:{pattern}")

    def make(model, alpha=None):
        if kind == "cos" and cos_nl is not None:
            return COSPricer(model, n=int(cos_nl[0]), l=cos_nl[1])
        pr = cls_(model)
        if alpha is not None:
            pr.alpha = alpha
        return pr

    def ask(pricer, q):
        name, T, args = q
        with warnings.catch_warnings(), np.errstate(all="ignore"):
            warnings.simplefilter("ignore")
            if name in ("call", "put", "digital", "forward"):
                K = np.array(args, dtype=float) if len(args) > 1 else float(args[0])
                if kind == "cf" and name in ("digital",):
                    K = np.array(args, dtype=float)
                return _vec(getattr(pricer, name)(K, T))  # (strikes, maturity) positionally for the three pricers
            if name == "cdf":
                return _vec(pricer.cdf(T, np.array(args, dtype=float)))
            if name == "density":
                return _vec(pricer.density(T, np.array(args, dtype=float)))
            if name == "density_log":
                return _vec(pricer.density_log(T, np.array(args, dtype=float)))
            if name == "butterfly":
                return _vec(pricer.butterfly(float(args[0]), float(args[1]), float(args[2]), T))
            if name in ("price-call", "price-put"):
                pt = PayoffType.CALL if name == "price-call" else PayoffType.PUT
                return _vec(pricer.price(Product(payoff_underlying=Spot(), payoff=Vanilla(strike=float(args[0]), payoff_type=pt), maturity=T)))
        raise ValueError(name)

    # the "other" model: Black-Scholes with another volatility, spot and rates, so that the second pricer's own answers have an
    # independent reference (the closed form): a first-writer-wins cache shared between pricers corrupts the SECOND pricer
    other_spec = _spec("bs", {"sigma": 0.35}, 0.03, 0.01, 80.0)

    def model_of(pricer):
        return getattr(pricer, "model", getattr(pricer, "bs_model", None))

    def apply(state, op):
        """state = [pricer, r, d, alpha, exact]"""
        pricer = state[0]
        with warnings.catch_warnings(), np.errstate(all="ignore"):
            warnings.simplefilter("ignore")
            if op == "other":
                om = A.make_model(other_spec)
                Ko = np.array([64.0, 80.0, 100.0])
                others = [cls_(om)] + ([COSPricer(om, n=int(cos_nl[0]), l=cos_nl[1])] if (kind == "cos" and cos_nl is not None) else [])
                for o in others:
                    for T in (HIST_T if kind != "fft" else (0.5, 2.0)):
                        oc = _vec(o.call(Ko, T), 3)
                        op_ = _vec(o.put(Ko, T), 3)
                        if kind != "cf":
                            rc_, rp_ = _vec(om.closed_form.call(Ko, T), 3), _vec(om.closed_form.put(Ko, T), 3)
                            # a-priori budgets at these strikes: below 1e-8 (COS, also with n = 1000, L = 12) / 2e-6 (FFT); observed
                            # 4e-14 / 1.8e-7
                            tol_o = 1e-7 if kind == "cos" else 1e-5
                            sh.count("evaluations", 2)
                            if not (np.all(np.abs(oc - rc_) <= tol_o) and np.all(np.abs(op_ - rp_) <= tol_o)):
                                raise _HistoryViolation(
                                    "second-pricer-on-another-model-disagrees-with-closed-form",
                                    f"a second {cls_.__name__} on Black-Scholes(sigma=0.35, spot=80) answers call/put(T={T}) = {oc.tolist()} / "
                                    f"{op_.tolist()}, closed form {rc_.tolist()} / {rp_.tolist()}")
                        if kind != "fft":
                            o.digital(Ko, T)
                        if kind == "cos":
                            o.density(T, Ko)
            elif op == "copy":
                state[0] = copy.deepcopy(pricer)
            elif op == "copy1":
                state[0] = copy.copy(pricer)
            elif op == "dill":
                import dill

                state[0] = dill.loads(dill.dumps(pricer))
            elif op in ("set-r", "set-d"):
                m = model_of(pricer)
                if m is None:
                    return False
                if op == "set-r":
                    m.r = HIST_R2
                    state[1] = HIST_R2
                else:
                    m.d = HIST_D2
                    state[2] = HIST_D2
                state[4] = False
            elif op == "model-routes":
                m = model_of(pricer)
                if m is None or not hasattr(m, "cdf"):
                    return False
                for T in HIST_T:
                    m.cdf(T, np.array([0.8 * S0, S0, 1.25 * S0]))
                    m.density(T)(np.array([0.8 * S0, S0, 1.25 * S0]))
            elif op == "set-alpha":
                pricer.alpha = HIST_ALPHA2
                state[3] = HIST_ALPHA2
            else:
                raise ValueError(op)
        return True

    fresh = {}

    def want(r, d, alpha, qi):
        key = (r, d, alpha, qi)
        if key not in fresh:
            fresh[key] = ask(make(A.make_model(dict(spec, r=r, d=d)), alpha), queries[qi])
        return fresh[key]

    nq = len(queries)
    Q = [("q", i) for i in range(nq)]
    O = [("o", o) for o in ops]
    if pattern == "pairs":
        seqs = [(q,) for q in Q] + [(s_, q) for s_ in Q + O for q in Q]
    elif pattern == "qoq":
        seqs = [(q, o, q2) for q in Q for o in O for q2 in Q]
    elif pattern == "ooq":
        seqs = [(o, o2, q) for o in O for o2 in O if o != o2 for q in Q]
    elif pattern == "qqq":
        core = Q[:ncore]
        seqs = [t for t in itertools.product(core, repeat=3) if len(set(t)) > 1]
    else:
        raise ValueError(pattern)

    n_seq = 0
    for seq in seqs:
        state = [make(A.make_model(spec)), float(spec["r"]), float(spec["d"]), None, True]
        last, ok = None, True
        try:
            for (t, x) in seq:
                if t == "q":
                    last = ask(state[0], queries[x])
                elif not apply(state, x):
                    ok = False
                    break
        except NotImplementedError:
            raise
        except _HistoryViolation as e:
            desc = [x if t == "o" else list(queries[x][:2]) for t, x in seq]
            sh.violation(f"{PID}:history:{cls_.__name__}:{e.args[0]}:{icls}", f"in the sequence {desc}: {e.args[1]}", {"sequence": desc, "cos_n_l": cos_nl})
            break
        except Exception as e:  # noqa: BLE001
            key = f"{PID}:history:{cls_.__name__}:raises-{type(e).__name__}:{icls}"
            sh.violation(key, f"the sequence {[x if t == 'o' else list(queries[x][:2]) for t, x in seq]} raised {type(e).__name__}: {e}",
                         {"sequence": [x if t == "o" else list(queries[x][:2]) for t, x in seq]})
            break  # one violation per case: the runner confirms every key by re-running its case
        if not ok:
            sh.count("history_sequences_skipped:model-attribute-not-found")
            sh.cap("the pricer's model was not found under .model / .bs_model: sequences with set-r / set-d / model-routes skipped")
            continue
        sh.count("evaluations")
        n_seq += 1
        name, T, args = queries[seq[-1][1]]
        target = want(state[1], state[2], state[3], seq[-1][1])
        if state[4]:
            same = last.shape == target.shape and np.array_equal(last, target)
        else:
            same = last.shape == target.shape and bool(np.all(np.abs(last - target) <= 1e-12 * max(S0, float(np.max(np.abs(args))))))
        if not same:
            used_ops = [x for t, x in seq if t == "o"]
            failure = "answer-depends-on-earlier-queries" if not used_ops else "differs-from-fresh-pricer-after-" + used_ops[-1]
            key = f"{PID}:history:{cls_.__name__}.{name}:{failure}:{icls}"
            desc = [x if t == "o" else list(queries[x][:2]) for t, x in seq]
            sh.violation(key, f"after the steps {desc[:-1]} the pricer answers {name}(T={T}, {args}) = {last.tolist()}; a fresh pricer on a fresh "
                              f"model (r={state[1]}, d={state[2]}) answers {target.tolist()}", {"sequence": desc, "cos_n_l": cos_nl})
            break  # one violation per case (simplest sequence first): the runner confirms every key by re-running its case
    sh.outcome((icls, kind, pattern, n_seq, tuple(np.round(want(float(spec["r"]), float(spec["d"]), None, 0), 6).tolist())))
    sh.nontriv()


# ----------------------------------------------------------------------------------------------------------------------
# sub-check: argument forms, long vectors, caller's arrays, copies
# ----------------------------------------------------------------------------------------------------------------------

# forms which the tree may reject with a TypeError (the entry point divides a float by the container / multiplies it; Vanilla
# kept the container as it was given before /repo 070b62d): outside the alphabet - counted when they raise, compared when they
# are answered
FORMS_REJECTED = {(e, f) for e in ("COSPricer.put", "COSPricer.call", "COSPricer.digital", "COSPricer.cdf", "COSPricer.price-call",
                                   "ExponentialOfLevyModel.cdf", "CFBlackScholes.forward") for f in ("list", "tuple")}
FORMS_REJECTED.add(("COSPricer.price-call", "0-d-array"))

# the orders in which a ladder of 9 strikes (increasing base ladder, indices 0..8, 4 = the spot) is handed to a vectorised entry
ORDER_BASE = tuple(range(9))
ORDERS = {
    "increasing": ORDER_BASE,
    "decreasing": ORDER_BASE[::-1],
    "from-the-money-outwards": (4, 3, 5, 2, 6, 1, 7, 0, 8),
    "shuffled": (5, 2, 8, 0, 6, 3, 1, 7, 4),  # a fixed permutation without fixed point of the sort
    "repeated-strike": (4, 1, 4, 7, 1, 1),  # a strike given twice apart and twice in a row, not sorted
    "two-decreasing": (6, 2),
    "one-element": (6,),
}
ORDER_CONTAINERS = {"array": lambda x: x, "list": lambda x: [float(v) for v in x], "tuple": lambda x: tuple(float(v) for v in x)}
ORDER_AS_SEQUENCE = ("shuffled", "repeated-strike", "decreasing")  # the orders also given as a list / a tuple


def _check_forms(sh, case):
    """Every public entry point of the three pricers and the two model-level routes, asked
      A. with ONE long strike vector (more strikes than `entries` / n, n = number of COS terms - beyond any block size a
         vectorised implementation may use) against element-wise scalar calls on a sub-lattice that contains the first three and
         the last twelve strikes (FFT: four strikes, a transform per scalar call);
      B. with every legal form of the strike argument (integer-dtype array, list, tuple, shape (1,n), Python int, numpy float /
         int scalar, 0-d array, one-element array, empty array) and of the maturity (Python int, numpy scalar, 0-d array), and by
         keyword, against the usual form (float array of shape (n,) / Python float);
      C. with the caller's arrays compared before / after the call, and modified after the call (the next answer must not change);
      D. through copy.copy / copy.deepcopy / a dill round trip of the pricer and of the model, also after the original's model was
         re-parametrised (deep copies must not follow it).
    Differential oracle: same answer up to 1e-12 max(K, S0) (prices) / 1e-12 (probabilities, densities times s); bit for bit for
    copies."""
    import copy

    import dill

    from rpylib.numerical.cosmethod import COSPricer
    from rpylib.numerical.fft import FFTPricer
    from rpylib.product.payoff import PayoffType, Vanilla
    from rpylib.product.product import Product
    from rpylib.product.underlying import Spot

    spec, T = case["spec"], float(case["T"])
    icls = _icls(spec)
    cos_nl = case.get("cos")
    S0, r, d = float(spec["spot"]), float(spec["r"]), float(spec["d"])
    model = A.make_model(spec)

    def mk_cos(m):
        return COSPricer(m) if cos_nl is None else COSPricer(m, n=int(cos_nl[0]), l=cos_nl[1])

    cp, fp = mk_cos(model), FFTPricer(model)
    cfp = getattr(model, "closed_form", None) if spec["family"] == "bs" else None
    a, b = _interval(cp, model, T)
    if not (a < 0.0 < b):
        sh.count("outside_box:range-does-not-straddle-zero")
        return
    hw = 0.5 * (b - a)
    n = int(getattr(cp, "n", 10_000))
    ctx = {"model": A.model_label(spec), "T": T, "cos_n_l": cos_nl}
    sh.cls(f"forms:{icls}:n={n}")

    def product(K, T_):
        return Product(payoff_underlying=Spot(), payoff=Vanilla(strike=K, payoff_type=PayoffType.CALL), maturity=T_)

    # entry -> (function of (x, T), kind of x: "K" strike / "s" spot level / "u" log spot level, natural scale)
    entries = {
        "COSPricer.put": (lambda x, t: cp.put(x, t), "K", "price"),
        "COSPricer.call": (lambda x, t: cp.call(x, t), "K", "price"),
        "COSPricer.digital": (lambda x, t: cp.digital(x, t), "K", "unit"),
        "COSPricer.forward": (lambda x, t: cp.forward(x, t), "K", "price"),
        "COSPricer.cdf": (lambda x, t: cp.cdf(t, x), "K", "unit"),
        "COSPricer.price-call": (lambda x, t: cp.price(product(x, t)), "K", "price"),
        "COSPricer.density": (lambda x, t: cp.density(t, x), "s", "dens"),
        "COSPricer.density_log": (lambda x, t: cp.density_log(t, x), "u", "unit"),
        "FFTPricer.call": (lambda x, t: fp.call(x, t), "K", "price"),
        "FFTPricer.put": (lambda x, t: fp.put(x, t), "K", "price"),
    }
    if cos_nl is None:
        entries["ExponentialOfLevyModel.cdf"] = (lambda x, t: model.cdf(t, x), "K", "unit")
        entries["ExponentialOfLevyModel.density"] = (lambda x, t: model.density(t)(x), "s", "dens")
    if cfp is not None and cos_nl is None:
        entries["CFBlackScholes.call"] = (lambda x, t: cfp.call(x, t), "K", "price")
        entries["CFBlackScholes.put"] = (lambda x, t: cfp.put(x, t), "K", "price")
        entries["CFBlackScholes.digital"] = (lambda x, t: cfp.digital(x, t), "K", "unit")
        entries["CFBlackScholes.forward"] = (lambda x, t: cfp.forward(x, t), "K", "price")

    def run(name, x, t):
        with warnings.catch_warnings(), np.errstate(all="ignore"):
            warnings.simplefilter("ignore")
            return np.asarray(entries[name][0](x, t), dtype=float).ravel()

    def tol_of(name, Kabs):
        scale = entries[name][2]
        if scale == "price":
            return 1e-12 * np.maximum(np.abs(Kabs), S0)
        if scale == "dens":
            return 1e-12 / np.minimum(np.abs(Kabs), S0)  # density in s: 1e-12 on s * density
        return 1e-12 + 0.0 * np.abs(Kabs)

    def conv(name, K):
        return np.log(K) if entries[name][1] == "u" else np.array(K, dtype=float, copy=True)  # never the check's own array

    def compare(sub_, name, failure, got, want, Kabs, extra=None):
        if got.shape != want.shape:
            sh.count("evaluations")
            sh.violation(f"{PID}:{sub_}:{name}:{failure}:wrong-shape:{icls}", f"{name}: {failure}: {got.size} values instead of {want.size}",
                         dict(ctx, **(extra or {})))
            return
        if got.size == 0:
            sh.count("evaluations")
            return
        _Rep(sh, icls, dict(ctx, **(extra or {}))).close(sub_, name, failure, got, want, tol_of(name, Kabs), Kabs)

    # ------------------------------------------------------------------ A. long vectors
    for name in entries:
        n_e = MODEL_CDF_N if name == "ExponentialOfLevyModel.cdf" else n  # the number of terms of the pricer behind the entry
        m_long = int(math.ceil(1.07 * int(case.get("entries", 2 ** 22)) / n_e)) + 3
        sh.count("long_vector_strikes", m_long)
        Kl = S0 * np.exp(np.linspace(-0.5 * hw, 0.5 * hw, m_long))
        sub_idx = sorted(set([0, 1, 2] + list(range(0, m_long, 7)) + list(range(m_long - 12, m_long))))
        fft_idx = [0, m_long // 2, m_long - 2, m_long - 1]
        xs = conv(name, Kl)
        try:
            vec = run(name, xs.copy(), T)
        except Exception as e:  # noqa: BLE001
            sh.violation(f"{PID}:long-vector:{name}:raises-{type(e).__name__}:{icls}", f"{name} with {m_long} strikes raised {type(e).__name__}: {e}", ctx)
            continue
        if vec.size != m_long:
            sh.violation(f"{PID}:long-vector:{name}:wrong-shape:{icls}", f"{name} with {m_long} strikes returned {vec.size} values", ctx)
            continue
        idx = fft_idx if name.startswith("FFTPricer") else sub_idx
        try:
            el = np.array([float(run(name, float(xs[i]), T)[0]) for i in idx])
        except Exception as e:  # noqa: BLE001
            sh.violation(f"{PID}:long-vector:{name}:scalar-call-raises-{type(e).__name__}:{icls}", f"{name} with a scalar raised {type(e).__name__}: {e}", ctx)
            continue
        compare("long-vector", name, "vectorised-call-differs-from-element-wise-calls", vec[idx], el, Kl[idx], {"strikes": m_long})

    # ------------------------------------------------------------------ B. argument forms
    Kf = np.array([0.8 * S0, S0, 1.25 * S0])
    integral = bool(np.all(Kf == np.round(Kf)))
    vforms = {"list": lambda x: [float(v) for v in x], "tuple": lambda x: tuple(float(v) for v in x), "shape-1-n": lambda x: x.reshape(1, -1).copy()}
    sforms = {"numpy-float": lambda v: np.float64(v), "0-d-array": lambda v: np.array(float(v)), "one-element-array": lambda v: np.array([float(v)])}
    tforms = {"numpy-float-maturity": lambda t: np.float64(t), "0-d-array-maturity": lambda t: np.array(float(t))}
    if float(T) == int(T):
        tforms["int-maturity"] = lambda t: int(t)
    for name in entries:
        kind = entries[name][1]
        xs = conv(name, Kf)
        ref = run(name, xs.copy(), T)
        sref = run(name, float(xs[1]), T)
        vf, sf = dict(vforms), dict(sforms)
        if integral and kind != "u":
            vf["int-dtype-array"] = lambda x: np.array([int(v) for v in x])
            sf["python-int"] = lambda v: int(v)
            sf["numpy-int"] = lambda v: np.int64(int(v))
        for fname, mkf in list(vf.items()) + [("empty", None)] + list(sf.items()) + list(tforms.items()):
            try:
                if fname == "empty":
                    got, want, Kabs = run(name, np.array([], dtype=float), T), np.array([], dtype=float), np.array([])
                elif fname in vf:
                    got, want, Kabs = run(name, mkf(xs), T), ref, Kf
                elif fname in sf:
                    got, want, Kabs = run(name, mkf(xs[1]), T), sref, Kf[1:2]
                else:
                    got, want, Kabs = run(name, xs.copy(), mkf(T)), ref, Kf
            except Exception as e:  # noqa: BLE001
                if (name, fname) in FORMS_REJECTED and isinstance(e, TypeError):
                    sh.count(f"form_outside_alphabet:{fname}")
                else:
                    sh.violation(f"{PID}:forms:{name}:raises-{type(e).__name__}:{fname}:{icls}", f"{name} with the argument form {fname} raised {type(e).__name__}: {e}", ctx)
                continue
            compare("forms", name, f"differs-from-usual-form:{fname}", got, want, Kabs)
    # keywords (the documented parameter names)
    kw = {
        "COSPricer.put": lambda: cp.put(strikes=Kf.copy(), time=T), "COSPricer.call": lambda: cp.call(strikes=Kf.copy(), time=T),
        "COSPricer.digital": lambda: cp.digital(strikes=Kf.copy(), time=T), "COSPricer.forward": lambda: cp.forward(strikes=Kf.copy(), time=T),
        "COSPricer.cdf": lambda: cp.cdf(time=T, x=Kf.copy()), "COSPricer.density": lambda: cp.density(time=T, s=Kf.copy()),
        "COSPricer.density_log": lambda: cp.density_log(time=T, u=np.log(Kf)),
        "FFTPricer.call": lambda: fp.call(strike=Kf.copy(), maturity=T), "FFTPricer.put": lambda: fp.put(strike=Kf.copy(), maturity=T),
    }
    if cfp is not None and cos_nl is None:
        kw["CFBlackScholes.call"] = lambda: cfp.call(strike=Kf.copy(), maturity=T)
        kw["CFBlackScholes.digital"] = lambda: cfp.digital(strike=Kf.copy(), maturity=T)
    for name, f in kw.items():
        try:
            with warnings.catch_warnings(), np.errstate(all="ignore"):
                warnings.simplefilter("ignore")
                got = np.asarray(f(), dtype=float).ravel()
        except TypeError:
            sh.count("form_outside_alphabet:keyword")  # parameter names are not part of the statement
            continue
        compare("forms", name, "differs-from-usual-form:keyword", got, run(name, conv(name, Kf), T), Kf)

    # ------------------------------------------------------------------ E. strike vectors in every order
    # a vectorised entry point answers strike by strike: the i-th value is the price at the i-th strike GIVEN, whatever the
    # order of the vector (ladders are written decreasing, from the money outwards, in the order of a calibration set, with a
    # strike quoted twice).  Reference: the same entry asked one strike at a time (scalar argument).
    Ko = S0 * np.exp(np.linspace(-0.3 * hw, 0.3 * hw, len(ORDER_BASE)))
    for name in entries:
        xo = conv(name, Ko)
        try:
            el = np.array([float(run(name, float(v), T)[0]) for v in xo])
        except Exception as e:  # noqa: BLE001
            sh.violation(f"{PID}:order:{name}:scalar-call-raises-{type(e).__name__}:{icls}", f"{name} with a scalar raised {type(e).__name__}: {e}", ctx)
            continue
        for oname, perm in ORDERS.items():
            perm = list(perm)
            for cname, mkc in ORDER_CONTAINERS.items():
                if cname != "array" and oname not in ORDER_AS_SEQUENCE:
                    continue
                mine = xo[perm].copy()
                arg = mkc(mine)
                fclass = f"{oname}:{cname}"
                try:
                    with warnings.catch_warnings(), np.errstate(all="ignore"):
                        warnings.simplefilter("ignore")
                        res = np.asarray(entries[name][0](arg, T), dtype=float)
                except Exception as e:  # noqa: BLE001
                    if (name, cname) in FORMS_REJECTED and isinstance(e, TypeError):
                        sh.count(f"form_outside_alphabet:{cname}")
                    else:
                        sh.violation(f"{PID}:order:{name}:raises-{type(e).__name__}:{fclass}:{icls}",
                                     f"{name} with the strikes {mine.tolist()} ({cname}) raised {type(e).__name__}: {e}", ctx)
                    continue
                sh.count("evaluations")
                if not np.array_equal(np.asarray(arg, dtype=float), mine):
                    sh.violation(f"{PID}:order:{name}:modifies-the-callers-array:{fclass}:{icls}",
                                 f"{name} changed its strike argument from {mine.tolist()} to {np.asarray(arg, dtype=float).tolist()}", ctx)
                    continue
                if res.shape != (len(perm),):
                    sh.violation(f"{PID}:order:{name}:result-not-of-the-callers-shape:{fclass}:{icls}",
                                 f"{name} with {len(perm)} strikes ({cname}) returned an array of shape {res.shape}", ctx)
                    continue
                compare("order", name, f"vector-entry-differs-from-scalar-call-at-the-same-strike:{fclass}", res, el[perm], Ko[perm],
                        {"order": oname, "container": cname, "strikes": Ko[perm].tolist()})

    # ------------------------------------------------------------------ C. the caller's arrays
    for name in entries:
        xs = conv(name, Kf)
        arg = xs.copy()
        r1 = run(name, arg, T)
        sh.count("evaluations")
        if not np.array_equal(arg, xs):
            sh.violation(f"{PID}:forms:{name}:modifies-the-callers-array:{icls}", f"{name} changed its strike argument from {xs.tolist()} to {arg.tolist()}", ctx)
            continue
        arg *= 1.37  # the caller re-uses its array
        arg[0] = -1.0
        r2 = run(name, xs.copy(), T)
        sh.count("evaluations")
        if not np.array_equal(r1, r2):
            sh.violation(f"{PID}:forms:{name}:keeps-a-reference-to-the-callers-array:{icls}",
                         f"{name}: after the caller modified the array of an earlier call the same query answers {r2.tolist()} instead of {r1.tolist()}", ctx)

    # ------------------------------------------------------------------ D. copies
    base = {name: run(name, conv(name, Kf), T) for name in entries}
    for cname, cpy in (("copy.copy", copy.copy), ("copy.deepcopy", copy.deepcopy), ("dill", lambda o: dill.loads(dill.dumps(o)))):
        try:
            cp2, fp2, m2 = cpy(cp), cpy(fp), cpy(model)
            cf2 = cpy(cfp) if cfp is not None else None
        except Exception as e:  # noqa: BLE001
            sh.violation(f"{PID}:copies:{cname}:raises-{type(e).__name__}:{icls}", f"{cname} of a pricer / model raised {type(e).__name__}: {e}", ctx)
            continue
        cpm = mk_cos(m2)
        answers = {"COSPricer.put": lambda: cp2.put(Kf.copy(), T), "COSPricer.digital": lambda: cp2.digital(Kf.copy(), T),
                   "COSPricer.density": lambda: cp2.density(T, Kf.copy()), "FFTPricer.call": lambda: fp2.call(Kf.copy(), T)}
        of_model = {"COSPricer.put": lambda: cpm.put(Kf.copy(), T), "COSPricer.call": lambda: cpm.call(Kf.copy(), T)}
        if cos_nl is None:
            of_model["ExponentialOfLevyModel.cdf"] = lambda: m2.cdf(T, Kf.copy())
        if cf2 is not None and cos_nl is None:
            answers["CFBlackScholes.call"] = lambda: cf2.call(Kf.copy(), T)
            of_model["CFBlackScholes.put"] = lambda: m2.closed_form.put(Kf.copy(), T)
        for what, table in (("pricer", answers), ("model", of_model)):
            for name, f in table.items():
                sh.count("evaluations")
                try:
                    with warnings.catch_warnings(), np.errstate(all="ignore"):
                        warnings.simplefilter("ignore")
                        got = np.asarray(f(), dtype=float).ravel()
                except Exception as e:  # noqa: BLE001
                    sh.violation(f"{PID}:copies:{name}:{cname}-of-the-{what}-raises-{type(e).__name__}:{icls}", f"{name} on a {cname} of the {what} raised {type(e).__name__}: {e}", ctx)
                    continue
                if name in base and not np.array_equal(got, base[name]):
                    sh.violation(f"{PID}:copies:{name}:{cname}-of-the-{what}-answers-differently:{icls}",
                                 f"{name} on a {cname} of the {what} answers {got.tolist()}, the original {base[name].tolist()}", ctx)
        if cname != "copy.copy":
            # deep copies do not follow the original: re-parametrise the original's model, ask the copy
            model.d = d + 0.013
            try:
                for name, f in answers.items():
                    sh.count("evaluations")
                    with warnings.catch_warnings(), np.errstate(all="ignore"):
                        warnings.simplefilter("ignore")
                        got = np.asarray(f(), dtype=float).ravel()
                    if name in base and not np.array_equal(got, base[name]):
                        sh.violation(f"{PID}:copies:{name}:{cname}-of-the-pricer-follows-the-original-model:{icls}",
                                     f"{name} on a {cname} of the pricer answers {got.tolist()} after the ORIGINAL model's d was re-assigned; before: {base[name].tolist()}", ctx)
            finally:
                model.d = d
    sh.outcome((icls, n, round(T, 4)))
    sh.nontriv()


def post(total, tier):
    """Vacuity guard: the documented box must not be empty.  On Black-Scholes (sigma in [0.1,0.5], no series term) the a-priori
    budget depends only on the truncation range; if fewer than half of the lattice strikes are within tolerance the range
    the pricer chose no longer supports the statement's precondition and every shape assertion above was vacuous."""
    lat, inb = total.counters.get("lattice:bs", 0), total.counters.get("inbox:bs", 0)
    if lat and inb < 0.5 * lat:
        total.violation(f"{PID}:box:COSPricer.truncation-range:fewer-than-half-of-the-lattice-within-tolerance:bs",
                        f"only {inb} of {lat} Black-Scholes lattice strikes have an a-priori COS budget below {TOL_REL}*max(K,S0)",
                        {"inbox": int(inb), "lattice": int(lat)})


def check_case(sh, case):
    sub = case["sub"]
    if sub == "model":
        _check_model(sh, case)
    elif sub == "vg-cgmy":
        _check_vg_cgmy(sh, case)
    elif sub == "cf-degenerate":
        _check_cf_degenerate(sh, case)
    elif sub == "pricer-history":
        _check_pricer_history(sh, case)
    elif sub == "forms":
        _check_forms(sh, case)
    else:
        raise ValueError(sub)
